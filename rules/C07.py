"""C07 — written TOML decodes to the intended spec document.

Decided structurally from the serde-generated / hand-written Serialize code:
  R1 key table         emitted key / variant names of every written type = the spec names
  R2 skip/default pairing a key is skipped only by the predicate that is true exactly for the Deserialize
                       default of that field (is_empty <-> empty, !b <-> false, is_app <-> App), and every
                       skippable key of a type that is also read back has a default
  R3 working directory App serialises as the constant "." (and is skipped inside Process), Directory(p) as p
  R4 or-groups         builder queue discipline: or() appends (current provides, current requires) at the back
                       and resets both; build() closes the last group, takes the front as top level and maps
                       the rest in order to Or{provides <- .0, requires <- .1}
  R5 single writer     phase / layer TOML goes through write_toml_file = toml::to_string then fs::write, both
                       ?-propagated; exec.d output is written to fd 3
Not decided: that toml::to_string emits valid TOML 1.0 for every string payload and that an independent
parser recovers it (property of the toml crate).
"""
from .lib import serde_schema as S
from .lib.discard import result_fates, verdict
from .lib.guards import conditions
from .lib.paths import strip
from .lib.value import vstr, walk

SPEC_KEYS = {
    'libcnb_data::launch::Launch': ['labels', 'processes', 'slices'],
    'libcnb_data::launch::Label': ['key', 'value'],
    'libcnb_data::launch::Process': ['type', 'command', 'args', 'default', 'working-dir'],
    'libcnb_data::launch::Slice': ['paths'],
    'libcnb_data::build_plan::BuildPlan': ['provides', 'requires', 'or'],
    'libcnb_data::build_plan::Or': ['provides', 'requires'],
    'libcnb_data::build_plan::Provide': ['name'],
    'libcnb_data::build_plan::Require': ['name', 'metadata'],
    'libcnb_data::layer_content_metadata::LayerContentMetadata': ['types', 'metadata'],
    'libcnb_data::layer_content_metadata::LayerTypes': ['launch', 'build', 'cache'],
    'libcnb_data::store::Store': ['metadata'],
    'libcnb_data::package_descriptor::PackageDescriptor': ['buildpack', 'dependencies', 'platform'],
    'libcnb_data::package_descriptor::PackageDescriptorBuildpackReference': ['uri'],
    'libcnb_data::package_descriptor::PackageDescriptorDependency': ['uri'],
    'libcnb_data::package_descriptor::Platform': ['os'],
}
SPEC_ENUMS = {
    'libcnb_data::sbom::SbomFormat': {'CycloneDxJson': 'application/vnd.cyclonedx+json', 'SpdxJson': 'application/spdx+json', 'SyftJson': 'application/vnd.syft+json'},
    'libcnb_data::package_descriptor::PlatformOs': {'Linux': 'linux', 'Windows': 'windows'},
}
# predicate -> (the Deserialize defaults it pairs with, description)
PAIRS = {
    'std::vec::Vec::<T, A>::is_empty': (('std::default::Default::default', '<std::vec::Vec<T> as std::default::Default>::default'), 'empty'),
    'std::ops::Not::not': (('std::default::Default::default', '<bool as std::default::Default>::default'), 'false'),
    'libcnb_data::launch::WorkingDirectory::is_app': (('<libcnb_data::launch::WorkingDirectory as std::default::Default>::default',), 'App'),
}


def run(ctx, rep):
    prog, sl = ctx.prog, ctx.slicer
    rep.rule('R1', 'emitted key / variant names = spec names')
    rep.rule('R2', 'skip predicate pairs with the Deserialize default of the same field')
    rep.rule('R3', 'WorkingDirectory: App => ".", Directory(p) => p')
    rep.rule('R4', 'BuildPlanBuilder or-group queue discipline')
    rep.rule('R5', 'single TOML writer with propagated errors; exec.d output on fd 3')
    rep.not_decided = ['validity of the emitted TOML for every string payload and recovery by an independent parser (toml crate)']
    n = 0
    for t, want in SPEC_KEYS.items():
        se = S.ser_struct(prog, sl, t)
        a = prog.adts.get(t)
        where = '%s:%s' % (a['file'], a['line']) if a else '-'
        if se is None or se['kind'] != 'struct':
            rep.unproven('R1', 'type/' + t, where, 'derived struct Serialize not found')
            continue
        n += 1
        for fp in se['fns']:
            rep.analysed(prog.fns[fp])
        if se['problems']:
            rep.unproven('R1', 'shape/' + t, where, str(se['problems']))
        keys = list(dict.fromkeys(se['order'])) + [k for k in se['keys'] if k not in se['order']]
        rep.check(sorted(se['keys']) == sorted(want), 'R1', 'keys/' + t, where, 'emits keys %s' % sorted(se['keys']),
                  '%s is written with keys %s, the spec names are %s' % (t.split('::')[-1], sorted(se['keys']), sorted(want)))
        de = S.deser_struct(prog, sl, t)
        for key, k in se['keys'].items():
            if not k.skip_pred:
                continue
            subj = '%s/%s' % (t, key)
            pair = PAIRS.get(k.skip_pred)
            if pair is None:
                rep.unproven('R2', subj, where, 'skip predicate %s is not a recognised idiom' % k.skip_pred)
                continue
            # the predicate must look at the same field
            arg_ok = k.skip_arg is not None and k.skip_arg.endswith('.' + (k.field or '?'))
            ok = arg_ok
            why = 'skipped when %s(self.%s)' % (k.skip_pred.split('::')[-1], k.field)
            if de is not None and de['kind'] == 'struct':
                dk = de['keys'].get(key)
                ok = ok and dk is not None and dk.required is False and dk.default in pair[0]
                why += '; reads back as default %s (%s)' % (pair[1], dk.default if dk else 'key missing in Deserialize')
            else:
                # write-only type: a skipped key must mean "spec default" for an external reader
                ok = ok and pair[1] == 'empty'
            rep.check(ok, 'R2', subj, where, why, 'skip/default mismatch for key %s: %s' % (key, why))
    rep.floor('R1', 'serialized_structs', n)
    for t, want in SPEC_ENUMS.items():
        se = S.ser_struct(prog, sl, t)
        a = prog.adts.get(t)
        where = '%s:%s' % (a['file'], a['line']) if a else '-'
        got = se['variants'] if se else None
        rep.check(got == want, 'R1', 'enum/' + t, where, 'variant names %s' % want, '%s is written as %s, spec names are %s' % (t, got, want))
    # is_app is true exactly for App
    ia = prog.fn('libcnb_data::launch::WorkingDirectory::is_app')
    rep.analysed(ia)
    trues = []
    for d in ia.whole_defs(0):
        if d[0] == 'stmt' and d[3]['r'] == 'use' and 'k' in d[3]['o'] and (d[3]['o']['k'].get('v') or {}).get('bool') is True:
            cds = [c for c in conditions(ia, d[1], sl) if c.kind == 'variant']
            trues.append(cds[-1].outcome if cds else None)
    rep.check(trues == [frozenset({'App'})], 'R2', 'is_app', '%s:%d' % (ia.file, ia.line), 'is_app() is true exactly for App', 'is_app() is true for %s' % trues)
    # ---- R3 ------------------------------------------------------------------------------------------
    ws = prog.find(r'^<libcnb_data::launch::WorkingDirectory as .*Serialize>::serialize$')
    if len(ws) != 1:
        rep.unproven('R3', 'impl', 'libcnb-data/src/launch.rs', 'hand-written Serialize for WorkingDirectory not found')
    else:
        f = ws[0]
        rep.analysed(f)
        arms = {}
        for c in f.calls:
            if c.indirect or not c.decl:
                continue
            cds = [cd for cd in conditions(f, c.bb, sl) if cd.kind == 'variant' and cd.enum == 'libcnb_data::launch::WorkingDirectory']
            if not cds or len(cds[-1].outcome) != 1:
                continue
            arm = next(iter(cds[-1].outcome))
            if c.decl.endswith('Serializer::serialize_str'):
                arms[arm] = ('str', strip(sl.operand(f, c.args[1])))
            elif c.decl.endswith('Serialize::serialize'):
                arms[arm] = ('delegate', strip(sl.operand(f, c.args[0])))
        if not arms:
            # one serialising call fed by a per-variant table (possibly computed by a private helper)
            for c in f.calls:
                if c.indirect or not c.decl or not c.decl.endswith(('Serializer::serialize_str', 'Serialize::serialize')):
                    continue
                how = 'str' if c.decl.endswith('serialize_str') else 'delegate'
                sv = strip(sl.inline_deep(sl.operand(f, c.args[1 if how == 'str' else 0])))
                if sv[0] == 'select' and sv[2] == 'libcnb_data::launch::WorkingDirectory' and strip(sv[1])[0] == 'param':
                    for names, val in sv[3]:
                        for n in names:
                            arms[n] = ('str' if val[0] == 'const' else how, strip(val))
        a_ok = arms.get('App') == ('str', ('const', '.'))
        d = arms.get('Directory')
        d_ok = d is not None and d[0] == 'delegate' and d[1][0] == 'field' and d[1][1][0] == 'variant' and d[1][1][2] == 'Directory'
        rep.check(a_ok, 'R3', 'App', '%s:%d' % (f.file, f.line), 'App => "."', 'App is serialised as %s' % (arms.get('App'),))
        rep.check(d_ok, 'R3', 'Directory', '%s:%d' % (f.file, f.line), 'Directory(p) => p', 'Directory is serialised as %s' % (d and vstr(d[1]),))
    # ---- R4 ------------------------------------------------------------------------------------------
    # Queue discipline, stated over interprocedural MUST / MAY effects so that helper extraction does not matter:
    #   or():    on every path pushes (current_provides, current_requires) at the BACK and leaves both lists empty
    #   build(): on every path first closes the current group the same way (also when it is empty), then takes the
    #            FRONT as the top-level group; nothing is ever pushed at the front or popped from the back
    from .lib.effects import Effects
    QV = {'std::collections::VecDeque::<T, A>::push_back': ('QPUSH_BACK', 1), 'std::collections::VecDeque::<T, A>::push_front': ('QPUSH_FRONT', 1),
          'std::collections::VecDeque::<T, A>::pop_front': ('QPOP_FRONT', 0), 'std::collections::VecDeque::<T, A>::pop_back': ('QPOP_BACK', 0),
          'std::collections::VecDeque::<T, A>::insert': ('QPUSH_FRONT', 1)}
    E = Effects(prog, sl, vocab=QV)
    orf = prog.fn('libcnb_data::build_plan::BuildPlanBuilder::or')
    bf = prog.fn('libcnb_data::build_plan::BuildPlanBuilder::build')
    rep.analysed(orf)
    rep.analysed(bf)

    def group_tuple_ok(fn, v):
        """v = (self.current_provides, self.current_requires) — directly or through mem::take"""
        v = strip(v)
        if v[0] != 'tuple' or len(v[1]) != 2:
            return False
        names = []
        for x in v[1]:
            x = strip(x)
            if x[0] == 'call' and x[1] in ('std::mem::take', 'std::mem::replace') and x[2]:
                x = strip(x[2][0])
            names.append(x[2] if x[0] == 'field' and strip(x[1])[0] == 'param' and strip(x[1])[2] == 0 else None)
        return names == ['current_provides', 'current_requires']

    def resets_ok(e):
        """both current lists are empty after the push: assigned Vec::new()/default in the pushing function, or taken"""
        f = e.call.fn
        v = strip(sl.operand(f, e.call.args[1]))
        taken = v[0] == 'tuple' and all(strip(x)[0] == 'call' and strip(x)[1] == 'std::mem::take' for x in v[1])
        if taken:
            return True
        got = set()
        for key, defs in f.defs().items():
            if isinstance(key, tuple):
                for d in defs:
                    if d[0] == 'stmt':
                        fld = [p_ for p_ in d[4][1:] if p_ != '*']
                        val = strip(sl._rvalue(f, d[3], set(), 0, None))
                        if fld and val[0] == 'call' and val[1] in ('std::vec::Vec::<T>::new', 'std::default::Default::default') and f.dominates(e.call.bb, d[1]):
                            got.add(fld[0])
        return {'.current_provides', '.current_requires'} <= got

    om = [e for e in E.expand(orf, 'must') if e.kind == 'QPUSH_BACK']
    ok = len(om) == 1 and group_tuple_ok(orf, om[0].path)
    rep.check(ok, 'R4', 'or/push_back', '%s:%d' % (orf.file, orf.line), 'or() always appends (current_provides, current_requires) at the back',
              'or() does not unconditionally push (current_provides, current_requires) at the back of the queue')
    rep.check(ok and resets_ok(om[0]), 'R4', 'or/reset', '%s:%d' % (orf.file, orf.line), 'both current lists are left empty', 'or() does not reset both current lists')
    bm = E.expand(bf, 'must')
    bmay = E.expand(bf, 'may')
    closes = [e for e in bm if e.kind == 'QPUSH_BACK']
    order = [id(e) for e in bm]
    ok = len(closes) == 1
    if ok:
        mp = [e for e in bm if e.kind == 'QPOP_FRONT']
        if mp:
            ok = order.index(id(closes[0])) < order.index(id(mp[0]))
        else:
            # front taken through acc.into_iter().next(): the conversion must happen after the close
            conv = [c for c in bf.calls if c.decl == 'std::iter::IntoIterator::into_iter' and strip(sl.operand(bf, c.args[0]))[0] == 'field' and strip(sl.operand(bf, c.args[0]))[2] == 'acc']
            top_close = closes[0].chain[0] if closes[0].chain else closes[0].call
            ok = len(conv) == 1 and bf.dominates(top_close.bb, conv[0].bb)
    rep.check(ok, 'R4', 'build/head', '%s:%d' % (bf.file, bf.line), 'build() always closes the current group (even an empty one), then takes the front group as top level',
              'build() does not unconditionally close the current group before taking the front of the queue: a trailing (empty) alternative can be lost')
    bad = [e for e in bmay + E.expand(orf, 'may') if e.kind in ('QPUSH_FRONT', 'QPOP_BACK')]
    rep.check(not bad, 'R4', 'fifo', '%s:%d' % (bf.file, bf.line), 'groups are only appended at the back and taken from the front', 'queue used out of FIFO order: %s' % [e.call.name for e in bad[:2]])
    # top-level group <- front element (.0 / .1); remaining elements mapped in order to Or{provides <- .0, requires <- .1}.
    # Accepted idioms: pop_front() + `for alt in acc { or.push(Or{..}) }`, or acc.into_iter(): next() + map(..).collect()
    reach = [bf] + [f for f in prog.reach([bf]).values() if f.path != bf.path and f.crate == 'libcnb_data']

    def front_elem(v):
        """v is the element taken from the FRONT of the queue: unwrap(pop_front(acc)) / unwrap(next(into_iter(acc)))"""
        v = strip(v)
        if v[0] == 'call' and v[1].endswith('::pop_front'):
            return True
        if v[0] == 'call' and v[1] == 'std::iter::Iterator::next':
            src = strip(v[2][0])
            return (src[0] == 'field' and src[2] == 'acc') or (src[0] == 'call' and src[1].endswith('into_iter'))
        return False
    top = {}
    vals_all = []
    for f in reach:
        vals = []
        for key, defs in f.defs().items():
            if isinstance(key, tuple):
                for d in defs:
                    if d[0] == 'stmt' and f.locals[d[4][0]].get('head') == 'libcnb_data::build_plan::BuildPlan':
                        fld = [p_ for p_ in d[4][1:] if p_ != '*'][0]
                        vals.append((fld, sl._rvalue(f, d[3], set(), 0, None)))
        for b in f.blocks:
            for st in b['s']:
                if st[0] == '=' and st[2]['r'] == 'agg' and st[2].get('adt') == 'libcnb_data::build_plan::BuildPlan':
                    v = sl._rvalue(f, st[2], set(), 0, None)
                    vals += [('.' + n, fv) for n, fv in v[3]]
        vals_all.extend(vals)
        for fld, v in vals:
            v0 = strip(v)
            if fld in ('.provides', '.requires') and v0[0] == 'field' and front_elem(v0[1]):
                top[fld] = v0[2]
    rep.check(top.get('.provides') == '0' and top.get('.requires') == '1', 'R4', 'build/top-level', '%s:%d' % (bf.file, bf.line),
              'top level provides <- front.0, requires <- front.1', 'top-level group is assigned from %s' % top)
    ors = []
    cands = {}
    for f in reach + [g for f0 in reach for g in prog.closures_of(f0)]:
        cands[f.path] = f
    for f in cands.values():
        for b in f.blocks:
            for st in b['s']:
                if st[0] == '=' and st[2]['r'] == 'agg' and st[2].get('adt') == 'libcnb_data::build_plan::Or':
                    ors.append((f, st))
    ok = len(ors) == 1
    how = None
    if ok:
        f, st = ors[0]
        v = sl._rvalue(f, st[2], set(), 0, None)
        fl = dict(v[3])
        p_, r_ = strip(fl['provides']), strip(fl['requires'])
        same = p_[0] == 'field' and r_[0] == 'field' and p_[2] == '0' and r_[2] == '1' and strip(p_[1]) == strip(r_[1])
        elem = strip(p_[1]) if same else ('unknown',)
        if same and elem[0] == 'call' and elem[1] == 'std::iter::Iterator::next':
            how = 'loop'
            in_loop = [c for c in f.calls if c.name == 'std::vec::Vec::<T, A>::push' and f.in_loop(c.bb)]
            ok = len(in_loop) == 1
        elif same and elem[0] == 'param' and f.kind == 'Closure':
            # closure handed to Iterator::map whose result is collected
            parent = prog.fns.get(f.parent)
            mp = [c for c in (parent.calls if parent else []) if c.decl == 'std::iter::Iterator::map' and any(y[0] == 'closure' and y[1] == f.path for y in walk(sl.operand(parent, c.args[1])))]
            how = 'map-collect'
            ok = len(mp) == 1 and any(c.decl == 'std::iter::Iterator::collect' for c in parent.calls)
        else:
            # Or built by a helper handed to Iterator::map (fn item), collected into the `or` field: read the elements of
            # that field's value with the iterator algebra
            from .lib import iters
            ok = False
            for fld, v in vals_all:
                if fld != '.or':
                    continue
                al = iters.alts(sl, v)
                if len(al) == 1 and not al[0][2] and al[0][1] is not None:
                    ev = strip(sl.inline_deep(al[0][0]))
                    if ev[0] == 'agg' and ev[1] == 'libcnb_data::build_plan::Or':
                        fl2 = dict(ev[3])
                        p2, r2 = strip(fl2['provides']), strip(fl2['requires'])
                        ok = p2[0] == 'field' and r2[0] == 'field' and p2[2] == '0' and r2[2] == '1' and strip(p2[1]) == strip(r2[1]) \
                            and strip(p2[1])[0] == 'call' and strip(p2[1])[1] == 'std::iter::Iterator::next'
                        how = 'map(helper)-collect'
        names = [c.decl or '' for g in reach for c in g.calls if (c.decl or '').startswith(('std::iter::Iterator::', 'std::iter::DoubleEndedIterator::'))]
        names += [c.name or '' for g in reach for c in g.calls if (c.name or '').startswith(('std::collections::VecDeque', 'core::slice::', 'std::vec::Vec'))]
        ok = ok and not any(n.split('::')[-1] in ('rev', 'reverse', 'sort', 'sort_by', 'sort_by_key', 'filter', 'filter_map', 'skip', 'take', 'step_by', 'dedup',
                                                   'rotate_left', 'rotate_right', 'swap', 'make_contiguous') for n in names)
    rep.check(ok, 'R4', 'build/alternatives', '%s:%d' % (bf.file, bf.line), 'every remaining group mapped in order to Or{provides <- .0, requires <- .1} (%s)' % how,
              'alternatives are not mapped one-to-one in order')
    # ---- R5 ------------------------------------------------------------------------------------------
    w = prog.fn('libcnb_common::toml_file::write_toml_file')
    rep.analysed(w)
    # one file WRITE on every success path, at the path parameter, of toml::to_string(value)? — whether spelled
    # fs::write(path, s) or File::create(path)?.write_all(s.as_bytes()), directly or in a private helper
    from .lib.effects import Effects
    E5 = Effects(prog, sl)
    fw = [e for e in E5.expand(w, 'must') if e.kind == 'WRITE']
    ok = len(fw) == 1 and len(fw[0].args or ()) >= 2
    if ok:
        e = fw[0]
        dv = e.args[1]
        while dv[0] == 'call' and dv[1].endswith(('::as_bytes', '::as_str', '::as_ref')) and dv[2]:
            dv = dv[2][0]
        top = e.chain[0] if e.chain else e.call
        ok = dv[0] == 'unwrap' and strip(dv)[0] == 'call' and strip(dv)[1] == 'toml::to_string' and strip(strip(dv)[2][0])[0] == 'param' \
            and strip(e.path)[0] == 'param' and strip(e.path)[2] == 1 and verdict(result_fates(prog, top.fn, top.call if hasattr(top, 'call') else top)) == 'ok'
    rep.check(ok, 'R5', 'write_toml_file', '%s:%d' % (w.file, w.line), 'fs::write(path, toml::to_string(value)?)?', 'write_toml_file is not to_string + write with both errors propagated')
    # all TOML text produced in libcnb / libcnb_common comes from write_toml_file (or the exec.d writer)
    users = sorted({c.fn.path for f in prog.fns.values() if f.crate in ('libcnb', 'libcnb_common') and not f.path.startswith('libcnb::tracing')
                    for c in f.calls if c.is_('toml::to_string', 'toml::to_string_pretty', 'toml::ser::to_string')})
    rep.check(users == ['libcnb::exec_d::write_exec_d_program_output', 'libcnb_common::toml_file::write_toml_file'], 'R5', 'single-writer', '-',
              'TOML is serialised only in write_toml_file and the exec.d writer', 'TOML is serialised in %s' % users)
    ex = prog.fn('libcnb::exec_d::write_exec_d_program_output')
    rep.analysed(ex)
    fds = [strip(sl.operand(ex, c.args[0])) for c in ex.calls if c.name and c.name.endswith('from_raw_fd')]
    rep.check(fds == [('const', 3)], 'R5', 'exec_d/fd3', '%s:%d' % (ex.file, ex.line), 'exec.d output goes to fd 3', 'exec.d output fd: %s' % fds)
