"""C07 — written TOML decodes to the intended spec document.

Decided structurally from the serde-generated / hand-written Serialize code:
  R1 key table         emitted key / variant names of every written type = the spec names
  R2 skip/default pairing a key is skipped only by the predicate that is true exactly for the Deserialize
                       default of that field (is_empty <-> empty, !b <-> false, is_app <-> App), and every
                       skippable key of a type that is also read back has a default
  R3 working directory App serialises as the constant "." (and is skipped inside Process), Directory(p) as p
  R4 or-groups         builder queue discipline: or() appends (current provides, current requires) at the back
                       and resets both; build() closes the last group, takes the front as top level and maps
                       the rest in order to Or{provides <- .0, requires <- .1}
  R5 single writer     phase / layer TOML goes through write_toml_file = toml::to_string then fs::write, both
                       ?-propagated; exec.d output is written to fd 3
  R1 (shapes)          single-field wrappers (ExecDProgramOutput, its key, ProcessType) are written as their content, of
                       the right TOML kind (string-keyed map / string); serialize_with functions write the text of
                       their field unmodified
  R2 (readback)        every key a read-back type writes is read into the same field
  R4 (each)            the loop of build() appends an Or on every iteration and runs to exhaustion
  R5 (payload)         fd 3 receives exactly one complete, checked write of toml::to_string(argument.into())
  R6 builders          mutation summaries of the public builders / constructors (C07_helpers.r6): singular adders push
                       exactly their argument at the back, plural adders every element in order, setters store their
                       argument on every path, build() hands out every accumulated field untouched, new() starts
                       empty, data constructors (Provide, Require, ExecDProgramOutput, package descriptor references)
                       carry their argument; unmodelled builder methods are UNPROVEN.  All of it on the slots build()
                       reads (private layout of the builders is free, C07_helpers.state_slots) and on literals with later
                       field stores applied (C07_helpers.fold_updates)
Not decided: that toml::to_string emits valid TOML 1.0 for every string payload and that an independent
parser recovers it (property of the toml crate).
"""
from . import C07_helpers as H
from .lib import serde_schema as S
from .lib.guards import conditions
from .lib.paths import strip
from .lib.value import vstr, walk

SPEC_KEYS = {
    'libcnb_data::launch::Launch': ['labels', 'processes', 'slices'],
    'libcnb_data::launch::Label': ['key', 'value'],
    'libcnb_data::launch::Process': ['type', 'command', 'args', 'default', 'working-dir'],
    'libcnb_data::launch::Slice': ['paths'],
    'libcnb_data::build_plan::BuildPlan': ['provides', 'requires', 'or'],
    'libcnb_data::build_plan::Or': ['provides', 'requires'],
    'libcnb_data::build_plan::Provide': ['name'],
    'libcnb_data::build_plan::Require': ['name', 'metadata'],
    'libcnb_data::layer_content_metadata::LayerContentMetadata': ['types', 'metadata'],
    'libcnb_data::layer_content_metadata::LayerTypes': ['launch', 'build', 'cache'],
    'libcnb_data::store::Store': ['metadata'],
    'libcnb_data::package_descriptor::PackageDescriptor': ['buildpack', 'dependencies', 'platform'],
    'libcnb_data::package_descriptor::PackageDescriptorBuildpackReference': ['uri'],
    'libcnb_data::package_descriptor::PackageDescriptorDependency': ['uri'],
    'libcnb_data::package_descriptor::Platform': ['os'],
}
SPEC_ENUMS = {
    'libcnb_data::sbom::SbomFormat': {'CycloneDxJson': 'application/vnd.cyclonedx+json', 'SpdxJson': 'application/spdx+json', 'SyftJson': 'application/vnd.syft+json'},
    'libcnb_data::package_descriptor::PlatformOs': {'Linux': 'linux', 'Windows': 'windows'},
}
# predicate -> (the Deserialize defaults it was confirmed by hand to pair with, the value class it is true for).
# Only the class is an input of R2 (cross-check of H.truth_class on the confirmed predicates); the pairing itself is
# decided on value classes, see H.truth_class / H.default_class
PAIRS = {
    'std::vec::Vec::<T, A>::is_empty': (('std::default::Default::default', '<std::vec::Vec<T> as std::default::Default>::default'), 'empty'),
    'std::ops::Not::not': (('std::default::Default::default', '<bool as std::default::Default>::default'), 'false'),
    'libcnb_data::launch::WorkingDirectory::is_app': (('<libcnb_data::launch::WorkingDirectory as std::default::Default>::default',), 'App'),
}


def run(ctx, rep):
    prog, sl = ctx.prog, ctx.slicer
    rep.rule('R1', 'emitted key / variant names = spec names')
    rep.rule('R2', 'skip predicate pairs with the Deserialize default of the same field')
    rep.rule('R3', 'WorkingDirectory: App => ".", Directory(p) => p')
    rep.rule('R4', 'BuildPlanBuilder or-group queue discipline')
    rep.rule('R5', 'single TOML writer with propagated errors; exec.d output on fd 3')
    rep.rule('R6', 'public builders / constructors carry exactly what they were given')
    rep.not_decided = ['validity of the emitted TOML for every string payload and recovery by an independent parser (toml crate)']
    n = 0
    for t, want in SPEC_KEYS.items():
        se = H.ser_struct(prog, sl, t)
        a = prog.adts.get(t)
        where = '%s:%s' % (a['file'], a['line']) if a else '-'
        if se is None or se['kind'] != 'struct':
            rep.unproven('R1', 'type/' + t, where, 'derived struct Serialize not found')
            continue
        n += 1
        for fp in se['fns']:
            rep.analysed(prog.fns[fp])
        if se['problems']:
            rep.unproven('R1', 'shape/' + t, where, str(se['problems']))
        keys = list(dict.fromkeys(se['order'])) + [k for k in se['keys'] if k not in se['order']]
        rep.check(sorted(se['keys']) == sorted(want), 'R1', 'keys/' + t, where, 'emits keys %s' % sorted(se['keys']),
                  '%s is written with keys %s, the spec names are %s' % (t.split('::')[-1], sorted(se['keys']), sorted(want)))
        de = S.deser_struct(prog, sl, t)
        for key, k in se['keys'].items():
            if not k.skip_pred:
                continue
            subj = '%s/%s' % (t, key)
            # what the predicate is true for, as a value class (H.truth_class): the std predicates of PAIRS are axioms,
            # a workspace function (private helper, is_app) is classified by what it computes from its argument
            pair = PAIRS.get(k.skip_pred)
            pcls = H.truth_class(prog, sl, k.skip_pred)
            if pcls is None or (pair is not None and H.class_str(pcls) != pair[1]):
                rep.unproven('R2', subj, where, 'skip predicate %s is not a recognised idiom' % k.skip_pred)
                continue
            # the predicate must look at the same field
            arg_ok = k.skip_arg is not None and k.skip_arg.endswith('.' + (k.field or '?'))
            ok = arg_ok
            why = 'skipped when %s(self.%s), i.e. when it is %s' % (k.skip_pred.split('::')[-1], k.field, H.class_str(pcls))
            if de is not None and de['kind'] == 'struct':
                dk = de['keys'].get(key)
                # ... and the Deserialize default of that key is exactly that value (H.default_class: the std
                # constructors by the field type, hand-written / derived Default impls and `default = "fn"` by
                # the value they return)
                dcls = H.default_class(prog, sl, dk.default, dk.ty) if dk is not None else None
                ok = ok and dk is not None and dk.required is False and dcls is not None and dcls == pcls
                why += '; reads back as default %s (%s)' % (H.class_str(dcls), dk.default if dk else 'key missing in Deserialize')
            else:
                # write-only type: a skipped key must mean "spec default" for an external reader
                ok = ok and pcls == ('empty',)
            rep.check(ok, 'R2', subj, where, why, 'skip/default mismatch for key %s: %s' % (key, why))
    rep.floor('R1', 'serialized_structs', n)
    for t, want in SPEC_ENUMS.items():
        se = H.ser_struct(prog, sl, t)
        a = prog.adts.get(t)
        where = '%s:%s' % (a['file'], a['line']) if a else '-'
        got = se['variants'] if se else None
        rep.check(got == want, 'R1', 'enum/' + t, where, 'variant names %s' % want, '%s is written as %s, spec names are %s' % (t, got, want))
    H.r1_shapes(prog, sl, rep)
    H.r2_readback(prog, sl, rep, list(SPEC_KEYS))
    # is_app is true exactly for App
    ia = prog.fn('libcnb_data::launch::WorkingDirectory::is_app')
    rep.analysed(ia)
    trues = []
    for d in ia.whole_defs(0):
        if d[1] in ia.reachable(0) and not (d[0] == 'stmt' and d[3]['r'] == 'use' and 'k' in d[3]['o'] and isinstance((d[3]['o']['k'].get('v') or {}).get('bool'), bool)):
            trues.append('computed')    # a result that is not a boolean literal: not decided by the variant alone
        if d[0] == 'stmt' and d[3]['r'] == 'use' and 'k' in d[3]['o'] and (d[3]['o']['k'].get('v') or {}).get('bool') is True:
            cds = [c for c in conditions(ia, d[1], sl) if c.kind == 'variant']
            trues.append(cds[-1].outcome if cds else None)
    # (decided on the returned value — matches! / exhaustive match / a private helper are one select; the syntactic
    # reading of the `true` stores only when the value has no such normal form)
    icls = H.truth_class(prog, sl, ia.path)
    if icls is not None:
        is_app_ok = icls == ('variant', 'libcnb_data::launch::WorkingDirectory', frozenset({'App'}))
        trues = H.class_str(icls)
    else:
        is_app_ok = trues == [frozenset({'App'})]
    rep.check(is_app_ok, 'R2', 'is_app', '%s:%d' % (ia.file, ia.line), 'is_app() is true exactly for App', 'is_app() is true for %s' % (trues,))
    # ---- R3 ------------------------------------------------------------------------------------------
    ws = prog.find(r'^<libcnb_data::launch::WorkingDirectory as .*Serialize>::serialize$')
    if len(ws) != 1:
        rep.unproven('R3', 'impl', 'libcnb-data/src/launch.rs', 'hand-written Serialize for WorkingDirectory not found')
    else:
        f = ws[0]
        rep.analysed(f)
        arms = {}
        for c in f.calls:
            if c.indirect or not c.decl:
                continue
            cds = [cd for cd in conditions(f, c.bb, sl) if cd.kind == 'variant' and cd.enum == 'libcnb_data::launch::WorkingDirectory']
            if not cds or len(cds[-1].outcome) != 1:
                continue
            arm = next(iter(cds[-1].outcome))
            if c.decl.endswith(('Serializer::serialize_str', 'Serializer::collect_str')):
                arms[arm] = ('str', strip(sl.inline_deep(sl.operand(f, c.args[1]))))
            elif c.decl.endswith('Serialize::serialize'):
                dv = strip(sl.inline_deep(sl.operand(f, c.args[0])))
                # a string literal's own Serialize writes it with serialize_str: `".".serialize(s)` is `s.serialize_str(".")`
                arms[arm] = ('str' if dv[0] == 'const' and isinstance(dv[1], str) else 'delegate', dv)
        if not arms:
            # one serialising call fed by a per-variant table (possibly computed by a private helper)
            for c in f.calls:
                if c.indirect or not c.decl or not c.decl.endswith(('Serializer::serialize_str', 'Serialize::serialize')):
                    continue
                how = 'str' if c.decl.endswith('serialize_str') else 'delegate'
                sv = strip(sl.inline_deep(sl.operand(f, c.args[1 if how == 'str' else 0])))
                if sv[0] == 'select' and sv[2] == 'libcnb_data::launch::WorkingDirectory' and strip(sv[1])[0] == 'param':
                    for names, val in sv[3]:
                        for n in names:
                            arms[n] = ('str' if val[0] == 'const' else how, strip(val))
        a_ok = arms.get('App') == ('str', ('const', '.'))
        d = arms.get('Directory')
        d_ok = d is not None and d[0] == 'delegate' and d[1][0] == 'field' and d[1][1][0] == 'variant' and d[1][1][2] == 'Directory'
        rep.check(a_ok, 'R3', 'App', '%s:%d' % (f.file, f.line), 'App => "."', 'App is serialised as %s' % (arms.get('App'),))
        rep.check(d_ok, 'R3', 'Directory', '%s:%d' % (f.file, f.line), 'Directory(p) => p', 'Directory is serialised as %s' % (d and vstr(d[1]),))
    # ---- R4 ------------------------------------------------------------------------------------------
    # Queue discipline on the builder's abstract queue (C07_helpers.r4): stated over interprocedural MUST / MAY effects,
    # the shape of the appended group record and the iterator algebra, so that neither helper extraction nor the
    # container / record type of the private accumulator matters
    H.r4(prog, sl, rep)
    # ---- R6 ------------------------------------------------------------------------------------------
    H.r6(prog, sl, rep)
    # ---- R5 ------------------------------------------------------------------------------------------
    w = prog.fn('libcnb_common::toml_file::write_toml_file')
    rep.analysed(w)
    # one file WRITE on every success path, at the path parameter, of toml::to_string(value)? — whether spelled
    # fs::write(path, s) or File::create(path)?.write_all(s.as_bytes()), directly or in a private helper
    from .lib.effects import Effects
    E5 = Effects(prog, sl)
    ok = H.writer_contract(prog, sl, E5, w, path_idx=1)
    rep.check(ok, 'R5', 'write_toml_file', '%s:%d' % (w.file, w.line), 'fs::write(path, toml::to_string(value)?)?', 'write_toml_file is not to_string + write with both errors propagated')
    # all TOML text produced in libcnb / libcnb_common comes from write_toml_file (or the exec.d writer)
    # (a serialising call inside a private helper / closure belongs to the public functions it is reachable from; a
    # function that itself meets the writer contract above — exactly one checked write of toml::to_string(parameter)?
    # at a path parameter and nothing else — is one more spelling of write_toml_file, see H.toml_writers)
    allowed = ['libcnb::exec_d::write_exec_d_program_output', 'libcnb_common::toml_file::write_toml_file']
    users, extra = H.toml_writers(prog, sl, E5, allowed)
    for p_ in extra:
        rep.analysed(prog.fns[p_])
    rep.check(users == allowed, 'R5', 'single-writer', '-',
              'TOML is serialised only in write_toml_file%s and the exec.d writer' % (''.join(', %s (same contract)' % p_.split('::')[-1] for p_ in extra)),
              'TOML is serialised in %s' % users)
    ex = prog.fn('libcnb::exec_d::write_exec_d_program_output')
    rep.analysed(ex)
    # every path of the exec.d writer opens raw fd 3 and no path opens another raw fd (directly or in a private helper)
    fd_must, fd_may = H.fd_effects(prog, sl, ex)
    rep.check(fd_must == [('const', 3)] and set(fd_may) == {('const', 3)}, 'R5', 'exec_d/fd3', '%s:%d' % (ex.file, ex.line), 'exec.d output goes to fd 3',
              'exec.d output fd: always %s, possibly %s' % (fd_must, fd_may))
    H.execd_payload(prog, sl, rep, ex)
