"""C13 — buildpacks are packaged in dependency order.

Decided structurally (petgraph's traversal semantics are trusted):
  R1 orientation     add_edge(source <- the node whose dependency list is iterated, target <- the node found
                     for the dependency id)
  R2 traversal       accepted (orientation, traversal, emission) triple: dependent -> dependency edges,
                     DfsPostOrder, emitted by pushing in visit order and returned unreversed; any other
                     combination is an unrecognised shape (fail closed)
  R3 shared state    the traversal object is created once, before the loop over roots; move_to per root
  R4 missing items   an unknown dependency / unknown root flows into ok_or(<error>) + `?`, never into a filter
  R5 selection       cargo-libcnb passes the node at the current dir or all nodes at the workspace root;
                     libcnb-test passes the node with the requested id; both propagate the error; packaging
                     iterates the returned order front to back
Not decided: topological correctness on all DAGs (follows from R1–R3 given petgraph's documented post-order
semantics); behaviour on cyclic input.
"""
from .lib.discard import local_fates, verdict, result_fates
from .lib.guards import conditions
from .lib.paths import strip
from .lib.value import vstr, walk
from . import layer_env_common as L

CG = 'libcnb_package::dependency_graph::create_dependency_graph'
GD = 'libcnb_package::dependency_graph::get_dependencies'
DN = 'libcnb_package::dependency_graph::DependencyNode::'


def closure_compares_id(prog, sl, clv, other_pred):
    """closure body is  graph[*idx].id() == <captured other>"""
    clv = strip(clv)
    if clv[0] != 'closure' or clv[1] not in prog.fns:
        return False
    body = prog.fns[clv[1]]
    v = strip(sl.local(body, 0))
    if v[0] != 'call' or not v[1].endswith('::eq'):
        return False
    a, b = strip(v[2][0]), strip(v[2][1])
    id_side = a[0] == 'call' and a[1] == DN + 'id' and any(x[0] == 'call' and 'Index' in x[1] and x[1].endswith('::index') for x in walk(a))
    return id_side and other_pred(b)


def run(ctx, rep):
    prog, sl = ctx.prog, ctx.slicer
    for r, d in (('R1', 'edge orientation dependent -> dependency'), ('R2', 'post-order DFS, emitted in visit order, not reversed'),
                 ('R3', 'one traversal state shared across roots'), ('R4', 'unknown dependency / root is an error'), ('R5', 'root selection and consumption order at the call sites')):
        rep.rule(r, d)
    rep.not_decided = ['topological correctness on all DAGs (delegated to petgraph\'s DfsPostOrder)', 'behaviour on cycles']
    cg, gd = prog.fn(CG), prog.fn(GD)
    rep.analysed(cg)
    rep.analysed(gd)
    w = lambda f: '%s:%d' % (f.file, f.line)
    # ---- R1 --------------------------------------------------------------------------------------------
    edges = [c for c in cg.calls if c.name and c.name.endswith('::add_edge')]
    if len(edges) != 1:
        rep.unproven('R1', 'add_edge', w(cg), '%d add_edge call sites' % len(edges))
    else:
        c = edges[0]
        src, tgt = strip(sl.operand(cg, c.args[1])), strip(sl.operand(cg, c.args[2]))
        # the iterated dependency list belongs to graph[src]
        deps = [d for d in cg.calls if d.decl == DN + 'dependencies']
        ok_src = False
        dep_elem = None
        if len(deps) == 1:
            owner = strip(sl.operand(cg, deps[0].args[0]))
            ok_src = owner[0] == 'call' and owner[1].endswith('::index') and strip(owner[2][1]) == src
        find = tgt if tgt[0] == 'call' and tgt[1] == 'std::iter::Iterator::find' else None
        ok_tgt = False
        if find is not None:
            def other(b):
                coll, proj = L.loop_element(b)
                return coll is not None and any(x[0] == 'call' and x[1] == DN + 'dependencies' for x in walk(coll))
            ok_tgt = closure_compares_id(prog, sl, find[2][1], other)
        rep.check(ok_src and ok_tgt, 'R1', 'add_edge', c.where(), 'edge: node whose dependencies are iterated -> node found by dependency id',
                  'edge orientation not recognised as dependent -> dependency (source_ok=%s target_ok=%s): %s -> %s' % (ok_src, ok_tgt, vstr(src)[:80], vstr(tgt)[:80]))
        # R4: missing dependency
        finds = [x for x in cg.calls if x.name == 'std::iter::Iterator::find']
        for i, fc in enumerate(finds):
            fates = local_fates(prog, cg, fc.dest[0], {}, set(), 0)
            okf = verdict(fates) == 'ok'
            via = [x for x in cg.calls if x.name and x.name.endswith('::ok_or') and any(y[0] == 'agg' and y[2] == 'MissingDependency' for y in walk(sl.operand(cg, x.args[1])))]
            rep.check(okf and bool(via), 'R4', 'missing-dependency#%d' % i, fc.where(), 'unknown dependency => Err(MissingDependency) propagated',
                      'a dependency id that is not in the graph is not turned into MissingDependency + `?`: %s' % [repr(x) for x in fates])
        dropping = [x.name for x in cg.calls if x.name and x.name.split('::')[-1] in ('filter_map', 'flatten', 'filter', 'flat_map')]
        rep.check(not dropping, 'R4', 'no-filter', w(cg), 'no filtering adapter in graph construction', 'graph construction uses %s' % dropping)
    # ---- R2 / R3 ---------------------------------------------------------------------------------------
    names = [c.name for c in gd.calls if c.name]
    trav = [c for c in gd.calls if c.name and 'petgraph::visit::' in c.name and c.name.endswith(('::empty', '::new'))]
    nexts = [c for c in gd.calls if c.name and 'petgraph::visit::' in c.name and c.name.endswith('::next')]
    moves = [c for c in gd.calls if c.name and 'petgraph::visit::' in c.name and c.name.endswith('::move_to')]
    kind = trav[0].name.split('::')[2].split('<')[0] if trav else None
    pushes = [c for c in gd.calls if c.name == 'std::vec::Vec::<T, A>::push']
    shape_ok = len(trav) == 1 and kind == 'DfsPostOrder' and len(nexts) == 1 and len(pushes) == 1
    if shape_ok:
        pv = strip(sl.operand(gd, pushes[0].args[1]))
        shape_ok = pv[0] == 'call' and pv[1].endswith('::index') and strip(pv[2][1])[0] == 'call' and strip(pv[2][1])[1] == nexts[0].name
    rev = [n for n in names if n.split('::')[-1] in ('reverse', 'rev', 'insert', 'sort', 'sort_by', 'sort_by_key', 'dedup', 'retain', 'push_front')]
    ret = strip(sl.local(gd, 0))
    ret_ok = any(x[0] == 'agg' and x[2] == 'Ok' and strip(dict(x[3])['0'])[0] == 'call' and strip(dict(x[3])['0'])[1] == 'std::vec::Vec::<T>::new' for x in walk(ret))
    rep.check(shape_ok and not rev and ret_ok, 'R2', 'traversal', w(gd), 'DfsPostOrder over dependent->dependency edges, pushed in visit order, returned as is',
              'unrecognised (orientation, traversal, emission) shape: traversal=%s nexts=%d pushes=%d reordering=%s' % (kind, len(nexts), len(pushes), rev))
    if trav:
        t = trav[0]
        once = not gd.in_loop(t.bb)
        dom = all(gd.dominates(t.bb, c.bb) for c in nexts + moves)
        rep.check(once and dom, 'R3', 'shared-state', t.where(), 'traversal state created once before the loop over roots',
                  'the traversal state is re-created per root: nodes shared by several roots would be emitted more than once')
        mv_ok = len(moves) == 1 and gd.in_loop(moves[0].bb)
        if mv_ok:
            mv = strip(sl.operand(gd, moves[0].args[1]))
            def other(b):
                return b[0] == 'call' and b[1] == DN + 'id' and L.loop_element(b[2][0])[0] is not None
            mv_ok = mv[0] == 'call' and mv[1] == 'std::iter::Iterator::find' and closure_compares_id(prog, sl, mv[2][1], other)
        rep.check(mv_ok, 'R3', 'move-to-root', moves[0].where() if moves else w(gd), 'move_to(index of the root) once per root', 'traversal is not restarted at each root node')
    finds = [x for x in gd.calls if x.name == 'std::iter::Iterator::find']
    for i, fc in enumerate(finds):
        fates = local_fates(prog, gd, fc.dest[0], {}, set(), 0)
        via = [x for x in gd.calls if x.name and x.name.endswith('::ok_or') and any(y[0] == 'agg' and y[2] == 'UnknownRootNode' for y in walk(sl.operand(gd, x.args[1])))]
        rep.check(verdict(fates) == 'ok' and bool(via), 'R4', 'unknown-root#%d' % i, fc.where(), 'unknown root => Err(UnknownRootNode) propagated',
                  'a root that is not in the graph is not an error: %s' % [repr(x) for x in fates])
    # ---- R5 --------------------------------------------------------------------------------------------
    callers = [c for c in prog.callers().get(GD, []) if c.name == GD]
    rep.floor('R5', 'get_dependencies_callers', len(callers))
    for c in callers:
        f = c.fn
        rep.analysed(f)
        subj = f.path
        vd = verdict(result_fates(prog, f, c))
        rep.check(vd == 'ok', 'R5', subj + '/propagated', c.where(), 'error of get_dependencies propagated', 'result of get_dependencies: ' + vd)
        roots = strip(sl.operand(f, c.args[1]))
        if f.path == 'cargo_libcnb::package::command::execute':
            # find(|n| n.path == current_dir).map(|n| vec![n]).or_else(|| (current_dir == workspace_root).then(|| all nodes)).unwrap_or_default()
            txt = vstr(roots, 0)
            ok = roots[0] == 'call' and roots[1].endswith('unwrap_or_default')
            inner = strip(roots[2][0]) if ok else ('unknown',)
            ok = ok and inner[0] == 'call' and inner[1].endswith('::or_else')
            first = strip(inner[2][0]) if ok else ('unknown',)
            ok = ok and first[0] == 'call' and first[1].endswith('Option::<T>::map') and strip(first[2][0])[0] == 'call' and strip(first[2][0])[1] == 'std::iter::Iterator::find'
            sel_ok = False
            all_ok = False
            if ok:
                fcl = strip(strip(first[2][0])[2][1])
                body = prog.fns.get(fcl[1]) if fcl[0] == 'closure' else None
                if body is not None:
                    bv = strip(sl.local(body, 0))
                    sel_ok = bv[0] == 'call' and bv[1].endswith('::eq') and any(x[0] == 'field' and x[2] == 'path' for x in walk(bv)) and \
                        any(x[0] == 'call' and x[1] == 'std::env::current_dir' for x in walk(bv))
                ocl = strip(inner[2][1])
                ob = prog.fns.get(ocl[1]) if ocl[0] == 'closure' else None
                if ob is not None:
                    ov = strip(sl.local(ob, 0))
                    all_ok = ov[0] == 'call' and ov[1].endswith('::then') and strip(ov[2][0])[0] == 'call' and strip(ov[2][0])[1].endswith('::eq') and \
                        any(x[0] == 'call' and x[1] == 'libcnb_package::find_cargo_workspace_root_dir' for x in walk(ov[2][0])) and \
                        any(x[0] == 'call' and x[1] == 'std::env::current_dir' for x in walk(ov[2][0]))
                    if all_ok:
                        tcl = strip(ov[2][1])
                        tb = prog.fns.get(tcl[1]) if tcl[0] == 'closure' else None
                        tv = strip(sl.local(tb, 0)) if tb else ('unknown',)
                        all_ok = tv[0] == 'call' and tv[1] == 'std::iter::Iterator::collect' and strip(tv[2][0])[0] == 'call' and strip(tv[2][0])[1].endswith('node_weights')
            rep.check(ok and sel_ok and all_ok, 'R5', subj + '/selection', c.where(), 'roots = node at cwd, else all nodes when cwd is the workspace root',
                      'root selection not recognised (find_by_cwd=%s all_at_root=%s): %s' % (sel_ok, all_ok, txt[:160]))
        elif f.path == 'libcnb_test::build::package_buildpack':
            ok = roots[0] == 'array' and len(roots[1]) == 1
            if ok:
                r0 = strip(roots[1][0])
                ok = r0[0] == 'call' and r0[1] == 'std::iter::Iterator::find'
                if ok:
                    fcl = strip(r0[2][1])
                    body = prog.fns.get(fcl[1]) if fcl[0] == 'closure' else None
                    bv = strip(sl.local(body, 0)) if body else ('unknown',)
                    ok = bv[0] == 'call' and bv[1].endswith('::eq') and any(x[0] == 'field' and x[2] == 'buildpack_id' for x in walk(bv))
            rep.check(ok, 'R5', subj + '/selection', c.where(), 'root = the node with the requested buildpack id (missing => error)', 'root selection not recognised: ' + vstr(roots)[:160])
        else:
            rep.unproven('R5', subj + '/selection', c.where(), 'unknown caller of get_dependencies')
        # the order is consumed front to back: iterated directly, no reversal
        order = ('unwrap', None)
        bad = []
        for x in f.calls:
            if x.name and x.name.split('::')[-1] in ('rev', 'reverse', 'sort', 'sort_by', 'sort_by_key', 'pop', 'swap'):
                a0 = sl.operand(f, x.args[0]) if x.args else ('unknown',)
                if any(y[0] == 'call' and y[1] == GD for y in walk(a0)):
                    bad.append(x.name)
        rep.check(not bad, 'R5', subj + '/consumption', c.where(), 'build order consumed front to back', 'build order is reordered before use: %s' % bad)
