"""C13 — buildpacks are packaged in dependency order.

Decided structurally (petgraph's traversal semantics are trusted).  The obligations are stated on interprocedural
effects (every add_edge / traversal call reached from the two functions, through private helpers and closures, with the
arguments expressed in the entry function's terms) and on value normal forms (helpers inlined, closures applied where
they are called, iterated collections decomposed into their elements), not on one spelling:
  R1 orientation     every edge added is (s, t) with t = the node found by comparing node ids with an element of the
                     dependency list of graph[s]
  R2 traversal       accepted (orientation, traversal, emission) triple: dependent -> dependency edges,
                     DfsPostOrder, emitted by appending graph[next()] to the returned vector in visit order, the
                     vector being touched by nothing but that append; any other combination is an unrecognised shape
                     (fail closed); a hand-written walk without any petgraph traversal object and without positive
                     evidence of a wrong shape is a single UNPROVEN (R2 and R3 together), never accepted
  R3 shared state    the traversal object is created once, outside any loop / per-root closure, and is the receiver of
                     every next / move_to; move_to(index of the root found by id) per root
  R4 missing items   an unknown dependency / unknown root becomes ok_or(<error>) and is carried out of the function at
                     every level of the call chain, never into a filter
  R5 selection       cargo-libcnb passes the node at the current dir or all nodes at the workspace root;
                     libcnb-test passes the node with the requested id; both propagate the error; packaging
                     iterates the returned order front to back
Not decided: topological correctness on all DAGs (follows from R1–R3 given petgraph's documented post-order
semantics); behaviour on cyclic input.
"""
import re

from .lib import iters
from .lib.discard import verdict, result_fates
from .lib.effects import Effects
from .lib.value import vstr, walk, canon
from . import C13_helpers as H
from .C13_helpers import peel, core, is_call, site_of

CG = 'libcnb_package::dependency_graph::create_dependency_graph'
GD = 'libcnb_package::dependency_graph::get_dependencies'
DN = 'libcnb_package::dependency_graph::DependencyNode::'
FIND = 'std::iter::Iterator::find'
DROPPING = ('filter_map', 'flatten', 'filter', 'flat_map')
REORDERING = ('reverse', 'rev', 'insert', 'sort', 'sort_by', 'sort_by_key', 'dedup', 'retain', 'push_front')


def classify(name):
    """role of a callee in the dependency-graph vocabulary"""
    if not name:
        return None
    last = name.split('::')[-1]
    if 'petgraph::' in name and last == 'add_edge':
        return 'ADD_EDGE'
    if 'petgraph::visit::' in name:
        if last in ('empty', 'new'):
            return 'TRAV_NEW'
        if last == 'next':
            return 'TRAV_NEXT'
        if last == 'move_to':
            return 'TRAV_MOVE'
    if name == FIND:
        return 'FIND'
    if name.startswith('std::option::Option::') and last in ('ok_or', 'ok_or_else'):
        return 'OK_OR'
    if name == DN + 'dependencies':
        return 'DEPS'
    if name in H.PUSH:
        return 'PUSH'
    return None


def traversal_kind(name):
    """`petgraph::visit::DfsPostOrder::<N, VM>::empty` -> DfsPostOrder"""
    segs = [x for x in re.sub(r'<[^<>]*>', '', name).split('::') if x]
    return segs[-2] if len(segs) >= 2 else None


def call_role(c):
    return None if c.indirect else (classify(c.res) or classify(c.decl))


class Scope:
    """one entry function with everything it runs: its closures, the private helpers it reaches, their closures; the
    calls of the vocabulary as effects in the entry function's terms"""

    def __init__(self, prog, sl, fn):
        self.fn = fn
        self.fns = list(prog.reach([fn]).values())
        for g in H.scope_fns(prog, fn):
            if g not in self.fns:
                self.fns.append(g)
        self.calls = [c for g in self.fns for c in g.calls]
        vocab = {}
        for c in self.calls:
            r = call_role(c)
            if r:
                for n in (c.res, c.decl):
                    if n and classify(n) == r:
                        vocab[n] = (r, None)
        self.E = Effects(prog, sl, vocab=vocab)
        seen = set()
        self.effs = []
        for e in self.E.expand(fn, 'may'):
            if e.call is None or call_role(e.call) != e.kind:
                continue
            k = (e.kind, self.site(e.call), tuple(self.site(l.call) for l in e.chain), canon(e.args))
            if k not in seen:
                seen.add(k)
                self.effs.append(e)

    @staticmethod
    def site(c):
        return (c.fn.path, c.bb)

    def of(self, kind):
        return [e for e in self.effs if e.kind == kind]

    def sites(self, kind):
        """call sites of a role anywhere in the scope (whether or not the effect expansion reaches them)"""
        return sorted({self.site(c) for c in self.calls if call_role(c) == kind})

    def all_reached(self, kind):
        return set(self.sites(kind)) <= {self.site(e.call) for e in self.of(kind)}

    def named(self, lasts):
        return sorted({c.name for c in self.calls if c.name and c.name.split('::')[-1] in lasts})


def find_by_id(sl, v):
    """v denotes find(G.node_indices(), P) with P(i) = (G[i].id() == X): (G, X), else None"""
    f = core(v)
    if not (f[0] == 'call' and f[1] == FIND and len(f[2]) == 2):
        return None
    recv = core(f[2][0])
    if not (is_call(recv, '::node_indices') and recv[2]):
        return None
    g = peel(recv[2][0])
    i = H.sym('i')
    r = H.apply1(sl, f[2][1], i)
    if r is None:
        return None
    r = peel(r)
    if not (is_call(r, '::eq') and len(r[2]) == 2):
        return None
    a, b = peel(r[2][0]), peel(r[2][1])
    if not (a[0] == 'call' and a[1] == DN + 'id' and a[2]):
        return None
    ix = peel(a[2][0])
    if not (is_call(ix, '::index') and len(ix[2]) == 2 and peel(ix[2][1]) == i and canon(peel(ix[2][0])) == canon(g)):
        return None
    return g, b


def error_named(sl, v, variant):
    """the error value (or the closure producing it) builds the given variant"""
    vs = [v]
    cl = peel(v)
    if cl[0] in ('closure', 'fnitem'):
        r = sl.apply_closure(cl, ())
        if r is not None:
            vs.append(r)
    return any(y[0] == 'agg' and y[2] == variant for x in vs for y in walk(x))


def levels(e):
    return [l.call for l in e.chain] + [e.call]


def missing_items(rep, prog, sl, S, subject, variant, ok_msg, bad_msg, where):
    """R4: every by-id lookup's "not found" becomes Err(<variant>) and leaves the entry function as an error, whether by
    ok_or(..) + `?` / return at every level of the call chain, or by a None arm that returns the error"""
    finds = S.of('FIND')
    if not finds or not S.all_reached('FIND'):
        rep.unproven('R4', subject + '#0', where, 'the lookup of the node by id is not reached by the effect expansion (%d of %d call sites)' % (len(finds), len(S.sites('FIND'))))
        return
    for i, e in enumerate(finds):
        conv = [o for o in S.of('OK_OR') if len(o.args) == 2 and error_named(sl, o.args[1], variant)
                and site_of(core(H.reduce(sl, o.args[0]))) == S.site(e.call)]
        ok, why = H.flows_out(prog, e)
        if not (ok and conv):
            ok2, why2 = H.none_is_error(prog, sl, e, variant)
            if ok2:
                ok, conv = True, [e]
            elif ok:
                why = 'no ok_or(%s) on the lookup result, %s' % (variant, why2)
        rep.check(ok and bool(conv), 'R4', '%s#%d' % (subject, i), e.where(), ok_msg, bad_msg + ': %s' % why)


def run(ctx, rep):
    prog, sl = ctx.prog, ctx.slicer
    for r, d in (('R1', 'edge orientation dependent -> dependency'), ('R2', 'post-order DFS, emitted in visit order, not reversed'),
                 ('R3', 'one traversal state shared across roots'), ('R4', 'unknown dependency / root is an error'), ('R5', 'root selection and consumption order at the call sites')):
        rep.rule(r, d)
    rep.not_decided = ['topological correctness on all DAGs (delegated to petgraph\'s DfsPostOrder)', 'behaviour on cycles']
    cg, gd = prog.fn(CG), prog.fn(GD)
    rep.analysed(cg)
    rep.analysed(gd)
    w = lambda f: '%s:%d' % (f.file, f.line)
    SC, SG = Scope(prog, sl, cg), Scope(prog, sl, gd)
    # ---- R1 --------------------------------------------------------------------------------------------
    edges = SC.of('ADD_EDGE')
    if len(SC.sites('ADD_EDGE')) != 1 or not edges or not SC.all_reached('ADD_EDGE'):
        rep.unproven('R1', 'add_edge', w(cg), '%d add_edge call sites' % len(SC.sites('ADD_EDGE')))
    else:
        # the dependency list that is iterated belongs to graph[s]
        owners = []
        for d in SC.of('DEPS'):
            o = core(H.reduce(sl, d.args[0])) if d.args else ('unknown',)
            owners.append((peel(o[2][0]), peel(o[2][1])) if is_call(o, '::index') and len(o[2]) == 2 else None)
        one_list = len(SC.sites('DEPS')) == 1 and SC.all_reached('DEPS') and bool(owners) and None not in owners
        pairs = []
        for e in edges:
            if len(e.args) < 3:
                pairs.append((False, False, ('unknown',), ('unknown',)))
                continue
            for g, s, t in H.normal_forms(prog, sl, cg, e.args[:3]):
                g, s = peel(g), peel(s)
                ok_src = one_list and all(canon(og) == canon(g) and os == s for og, os in owners)
                ok_tgt = False
                fb = find_by_id(sl, t)
                if fb is not None and canon(fb[0]) == canon(g):
                    coll = H.element_of(sl, fb[1])
                    deps = [x for x in walk(coll) if x[0] == 'call' and x[1] == DN + 'dependencies'] if coll is not None else []
                    if len(deps) == 1 and deps[0][2]:
                        o = core(deps[0][2][0])
                        ok_tgt = is_call(o, '::index') and len(o[2]) == 2 and canon(peel(o[2][0])) == canon(g) and peel(o[2][1]) == s
                pairs.append((ok_src, ok_tgt, s, t))
        ok_src, ok_tgt = all(p[0] for p in pairs), all(p[1] for p in pairs)
        bad = next((p for p in pairs if not (p[0] and p[1])), pairs[0])
        rep.check(ok_src and ok_tgt, 'R1', 'add_edge', edges[0].where(), 'edge: node whose dependencies are iterated -> node found by dependency id',
                  'edge orientation not recognised as dependent -> dependency (source_ok=%s target_ok=%s): %s -> %s' % (ok_src, ok_tgt, vstr(bad[2])[:80], vstr(bad[3])[:80]))
        # R4: missing dependency
        missing_items(rep, prog, sl, SC, 'missing-dependency', 'MissingDependency', 'unknown dependency => Err(MissingDependency) propagated',
                      'a dependency id that is not in the graph is not turned into MissingDependency + `?`', w(cg))
        dropping = SC.named(DROPPING)
        rep.check(not dropping, 'R4', 'no-filter', w(cg), 'no filtering adapter in graph construction', 'graph construction uses %s' % dropping)
    # ---- R2 / R3 ---------------------------------------------------------------------------------------
    trav = SG.of('TRAV_NEW')
    tsites, nsites, msites = SG.sites('TRAV_NEW'), SG.sites('TRAV_NEXT'), SG.sites('TRAV_MOVE')
    reached = SG.all_reached('TRAV_NEW') and SG.all_reached('TRAV_NEXT') and SG.all_reached('TRAV_MOVE')
    kind = traversal_kind(trav[0].call.name) if trav else None
    tsite = tsites[0] if len(tsites) == 1 else None
    on_trav = lambda v: tsite is not None and site_of(core(H.reduce(sl, v))) == tsite
    # emission: the returned vector, and everything that is ever done to it
    ret = peel(sl.local(gd, 0))
    graph_p = peel(sl.local(gd, 1))
    vsites = {site_of(peel(dict(x[3])['0'])) for x in walk(ret)
              if x[0] == 'agg' and x[2] == 'Ok' and x[3] and peel(dict(x[3])['0'])[0] == 'call' and peel(dict(x[3])['0'])[1] in H.VEC_NEW}
    ret_ok = len(vsites) == 1 and None not in vsites
    app, other, elems = [], [], []
    if ret_ok:
        vsite = next(iter(vsites))
        app, _, other = H.vec_uses(prog, sl, gd, vsite)
        for c, g, k in app:
            if k == 'push':
                # the pushed value in get_dependencies' terms (the push may sit in a helper or closure)
                es = [e for e in SG.of('PUSH') if SG.site(e.call) == SG.site(c) and len(e.args) == 2 and site_of(peel(e.args[0])) == vsite]
                elems.extend((a, False) for e in es for (a,) in H.normal_forms(prog, sl, gd, e.args[1:2]))
                if not es:
                    elems.append((('unknown', 'push not reached'), True))
            else:
                elems.extend(H.appended(sl, c, g, k))
    shape_ok = len(tsites) == 1 and reached and kind == 'DfsPostOrder' and len(nsites) == 1 and len(app) == 1 and not other and bool(elems)
    if shape_ok:
        for pv, filtered in elems:
            pv = core(pv)
            nx = core(pv[2][1]) if is_call(pv, '::index', '::node_weight') and len(pv[2]) == 2 and canon(peel(pv[2][0])) == canon(graph_p) else ('unknown',)
            shape_ok = shape_ok and not filtered and nx[0] == 'call' and classify(nx[1]) == 'TRAV_NEXT' and bool(nx[2]) and on_trav(nx[2][0]) and site_of(nx) == nsites[0]
    rev = SG.named(REORDERING)
    # no petgraph traversal object at all: the order comes from a hand-written walk.  R2 (and R3, which is stated on the
    # traversal object) is an agreement rule with petgraph's DfsPostOrder; a hand-written walk is neither accepted nor
    # refuted structurally.  Without positive evidence of a wrong shape (a reordering call, the returned vector handed
    # to something other than an append, a result that is not that vector) this is one UNPROVEN, not a violation.
    handwritten = not tsites and not nsites and not msites and not any(classify(n) in ('TRAV_NEW', 'TRAV_NEXT', 'TRAV_MOVE') for c in SG.calls for n in (c.res, c.decl, c.name))
    if handwritten and ret_ok and not rev and not other and app:
        nodes = bool(elems) and all(not fl and is_call(core(pv), '::index', '::node_weight') and len(core(pv)[2]) == 2 and canon(peel(core(pv)[2][0])) == canon(graph_p) for pv, fl in elems)
        walkers = sorted({c.fn.path for c, _, _ in app if c.fn.path != gd.path} | {l.call.name for e in SG.of('PUSH') for l in e.chain if l.call.name})
        rep.unproven('R2', 'traversal', w(gd), 'hand-written traversal (%s) instead of petgraph DfsPostOrder: post-order / shared visit state / restart per root (R2+R3) not decided; '
                     'established: result vector only appended to (%d site), returned as is, not reordered, elements are graph nodes: %s'
                     % (', '.join(x.split('::')[-1] for x in walkers) or 'inline loop', len(app), 'yes' if nodes else 'not recognised'))
    else:
        rep.check(shape_ok and not rev and ret_ok, 'R2', 'traversal', w(gd), 'DfsPostOrder over dependent->dependency edges, appended in visit order, returned as is',
                  'unrecognised (orientation, traversal, emission) shape: traversal=%s nexts=%d appends=%d other_uses=%s reordering=%s' % (kind, len(nsites), len(app), sorted({c.name for c in other}), rev))
    if trav:
        t = trav[0]
        once = len(trav) == 1 and t.forall is None and all(c.fn.kind != 'Closure' and not c.fn.in_loop(c.bb) for c in levels(t))
        users = SG.of('TRAV_NEXT') + SG.of('TRAV_MOVE')
        dom = reached and all(u.args and on_trav(u.args[0]) for u in users)
        rep.check(once and dom, 'R3', 'shared-state', t.where(), 'traversal state created once before the loop over roots',
                  'the traversal state is re-created per root: nodes shared by several roots would be emitted more than once')
        moves = SG.of('TRAV_MOVE')
        mv_ok = len(msites) == 1 and bool(moves) and reached
        for m in moves if mv_ok else ():
            per_root = m.forall is not None or any(c.fn.in_loop(c.bb) for c in levels(m))
            alts = H.normal_forms(prog, sl, gd, m.args[1:2]) if len(m.args) == 2 else []
            ok = bool(alts)
            for (a,) in alts:
                fb = find_by_id(sl, a)
                b = peel(fb[1]) if fb is not None else ('unknown',)
                root = H.element_of(sl, b[2][0]) if b[0] == 'call' and b[1] == DN + 'id' and b[2] else None
                ok = ok and root is not None and root[0] == 'param' and root[1] == GD and canon(fb[0]) == canon(graph_p)
            mv_ok = mv_ok and per_root and ok
        rep.check(mv_ok, 'R3', 'move-to-root', moves[0].where() if moves else w(gd), 'move_to(index of the root) once per root', 'traversal is not restarted at each root node')
    missing_items(rep, prog, sl, SG, 'unknown-root', 'UnknownRootNode', 'unknown root => Err(UnknownRootNode) propagated',
                  'a root that is not in the graph is not an error', w(gd))
    # ---- R5 --------------------------------------------------------------------------------------------
    callers = [c for c in prog.callers().get(GD, []) if c.name == GD]
    rep.floor('R5', 'get_dependencies_callers', len(callers))
    for c in callers:
        f = c.fn
        rep.analysed(f)
        subj = f.path
        vd = verdict(result_fates(prog, f, c))
        rep.check(vd == 'ok', 'R5', subj + '/propagated', c.where(), 'error of get_dependencies propagated', 'result of get_dependencies: ' + vd)
        roots = peel(sl.operand(f, c.args[1]))
        graph = peel(sl.operand(f, c.args[0]))
        if f.path == 'cargo_libcnb::package::command::execute':
            sel_ok, all_ok, n, txt = selection_by_cwd(prog, sl, f, c, graph)
            rep.check(n == 3 and sel_ok and all_ok, 'R5', subj + '/selection', c.where(), 'roots = node at cwd, else all nodes when cwd is the workspace root',
                      'root selection not recognised (find_by_cwd=%s all_at_root=%s): %s' % (sel_ok, all_ok, txt[:160]))
        elif f.path == 'libcnb_test::build::package_buildpack':
            al = iters.alts(sl, roots)
            ok = len(al) == 1 and al[0][1] is None
            if ok:
                fl = node_found_by(sl, al[0][0], graph)
                ok = fl is not None and fl[1] == 'buildpack_id'
            rep.check(ok, 'R5', subj + '/selection', c.where(), 'root = the node with the requested buildpack id (missing => error)', 'root selection not recognised: ' + vstr(roots)[:160])
        else:
            rep.unproven('R5', subj + '/selection', c.where(), 'unknown caller of get_dependencies')
        # the order is consumed front to back: iterated directly, no reversal
        bad = []
        for g in H.scope_fns(prog, f):
            for x in g.calls:
                if x.name and x.name.split('::')[-1] in ('rev', 'reverse', 'sort', 'sort_by', 'sort_by_key', 'pop', 'swap'):
                    a0 = sl.operand(g, x.args[0]) if x.args else ('unknown',)
                    if any(y[0] == 'call' and y[1] == GD for y in walk(a0)):
                        bad.append(x.name)
        rep.check(not bad, 'R5', subj + '/consumption', c.where(), 'build order consumed front to back', 'build order is reordered before use: %s' % bad)


def node_found_by(sl, v, graph):
    """v denotes find(<graph>.node_weights(), |n| n.<field> == X): (find value, field, X), else None"""
    f = core(v)
    if not (f[0] == 'call' and f[1] == FIND and len(f[2]) == 2):
        return None
    recv = core(f[2][0])
    if not (is_call(recv, '::node_weights') and recv[2] and canon(peel(recv[2][0])) == canon(graph)):
        return None
    n = H.sym('node')
    r = H.apply1(sl, f[2][1], n, keep='*')
    if r is None:
        return None
    r = peel(r)
    if not (is_call(r, '::eq') and len(r[2]) == 2):
        return None
    a, b = peel(r[2][0]), peel(r[2][1])
    for x, y in ((a, b), (b, a)):
        if x[0] == 'field' and peel(x[1]) == n:
            return f, x[2], y
    return None


def selection_by_cwd(prog, sl, f, c, graph):
    """the roots handed to get_dependencies are, case by case:
         some node has path == cwd                       -> (a vector made from) that node
         none has, and cwd == workspace root             -> all node weights of the graph
         none has, and cwd != workspace root             -> nothing
    whether this is written as find().map().or_else(|| eq.then(..)).unwrap_or_default() or as an if-let ladder"""
    cases = H.Cases(prog, sl).of_operand(f, c.args[1])
    txt = ' | '.join('[%s] => %s' % (', '.join('%s %s' % (k, vstr(x)[:60]) for k, x in g), vstr(v)[:60]) for g, v in cases)
    is_cwd = lambda x: is_call(core(x), 'std::env::current_dir') and core(x)[1] == 'std::env::current_dir'
    is_root = lambda x: core(x)[0] == 'call' and core(x)[1] == 'libcnb_package::find_cargo_workspace_root_dir'

    def by_cwd(x):
        fl = node_found_by(sl, x, graph)
        return fl is not None and fl[1] == 'path' and is_cwd(fl[2])

    def at_root(x):
        x = peel(x)
        if not (is_call(x, '::eq') and len(x[2]) == 2):
            return False
        a, b = x[2]
        return (is_cwd(a) and is_root(b)) or (is_root(a) and is_cwd(b))
    sel = allw = none = 0
    for g, v in cases:
        found = [k for k, x in g if k in ('some', 'none') and by_cwd(x)]
        root = [k for k, x in g if k in (True, False) and at_root(x)]
        if found == ['some'] and not root:
            elems = H.vec_macro_elems(sl, f, v)
            payload = [x for k, x in g if k == 'some' and by_cwd(x)][0]
            # (a vector literal inside a closure / helper is written in that body's own terms: not compared)
            if elems is None or (len(elems) == 1 and (core(elems[0]) == core(payload) or site_of(peel(v))[0] != f.path)):
                sel += 1
        elif found == ['none'] and root == [True]:
            al = iters.alts(sl, v)
            if len(al) == 1 and al[0][1] is not None and not al[0][2]:
                coll = core(al[0][1])
                if is_call(coll, '::node_weights') and coll[2] and canon(peel(coll[2][0])) == canon(graph):
                    allw += 1
        elif found == ['none'] and root == [False]:
            x = peel(v)
            if x == H.DEFAULT:
                none += 1
            elif x[0] == 'call' and x[1] in H.VEC_NEW and not H.vec_uses(prog, sl, f, site_of(x))[0] and not H.vec_uses(prog, sl, f, site_of(x))[2]:
                none += 1
    return sel == 1, allw == 1 and none == 1, len(cases), txt
