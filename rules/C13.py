"""C13 — buildpacks are packaged in dependency order.

Decided structurally (petgraph's traversal semantics are trusted).  The obligations are stated on interprocedural
effects (every add_edge / traversal call reached from the two functions, through private helpers and closures, with the
arguments expressed in the entry function's terms) and on value normal forms (helpers inlined, closures applied where
they are called, iterated collections decomposed into their elements), not on one spelling:
  R1 orientation     every edge added is (s, t) with t = the node found by comparing node ids with an element of the
                     dependency list of graph[s]
  R2 traversal       accepted (orientation, traversal, emission) triple: dependent -> dependency edges,
                     DfsPostOrder, emitted by appending graph[next()] to the returned vector in visit order, the
                     vector being touched by nothing but that append; any other combination is an unrecognised shape
                     (fail closed); a hand-written walk without any petgraph traversal object and without positive
                     evidence of a wrong shape is a single UNPROVEN (R2 and R3 together), never accepted
  R3 shared state    the traversal object is created once, outside any loop / per-root closure, and is the receiver of
                     every next / move_to; move_to(index of the root found by id) per root
  R4 missing items   an unknown dependency / unknown root becomes ok_or(<error>) and is carried out of the function at
                     every level of the call chain, never into a filter
  R5 selection       cargo-libcnb passes the node at the current dir or all nodes at the workspace root;
                     libcnb-test passes the node with the requested id; both propagate the error; packaging
                     iterates the returned order front to back
  R6 graph input     the graph handed to create_dependency_graph is complete (buildpack_dependency_graph.rs), stated on
                     the Build normal form of a collection (C13_helpers: a collected iterator pipeline and a Vec pushed to
                     in a loop are the same thing: base collection, element added, per-element conditions, truncation):
                       dependencies-total  the node's dependency ids are F(d) for *every* element d of the package
                                           descriptor's `dependencies` (no positional truncation, no early stop), dropped
                                           only where F(d) is Ok(None), in order; F's error fails every public caller
                       node-dependencies   the node's `dependencies` is that vector for <dir>/package.toml, empty only
                                           under "is_file(<dir>/package.toml) is false"; node-id: `buildpack_id` is the id
                                           read from <dir>/buildpack.toml
                       trait-impl          DependencyNode::dependencies / id return those two fields
                       nodes-total         every directory of find_buildpack_dirs whose kind is LibCnbRs | Composite
                                           becomes a node handed to create_dependency_graph; node errors propagate
Deepening round (what carries the data around R1–R6):
  R1 totality        every-node-added: add_node runs for every element of `nodes`; every-dependency: the edge is added for
                     every node index of the graph and every element of that node's dependency list — nested loops, closures
                     and a two-phase "collect pairs, then add" alike (C13_helpers.total_iterations: no truncating / filtering
                     stage, no per-element decision, no `continue` / `break` / early success around the call)
  R5 graph           the graph handed to get_dependencies is build_libcnb_buildpacks_dependency_graph(<cargo workspace root>)
  R6 node-path       the node's `path` is the buildpack directory itself
  R6 sources         discovery/* (find_buildpack_dirs, workspace root), kind/* (decision table of determine_buildpack_kind),
                     dependency-id (case table of buildpack_id_from_libcnb_dependency) — see graph_sources()
  R7 consumption     per caller of get_dependencies, on the caller's effects: package_buildpack runs for every element of
                     the order (every-node), on that element's own `path` (node-dir), into a directory that is a function of
                     that element's id (destination); the id -> directory map it receives is the one in which every packaged
                     element's id is recorded with that very directory, and nothing else changes it (dependency-map); a failed
                     packaging step fails the caller (package-result)
Spelling independence (round 3): "the index of the node with id X" is find over node_indices() with G[i].id() == X or over
node_references() with the pair's weight compared and its index taken (find_by_id, lookup_of); "every node index of the
graph" is node_indices() or the collected results of the one add_node call (all_node_indices); an iteration through
element-wise stages (map / collect round trips) is an iteration over the base collection (C13_helpers.reopen); a per-element
condition held in a local boolean flag is the decisions under which the flag is set (C13_helpers.flag_conds).
Spelling independence (round 4; C13_helpers "Round 4" section):
  search loops       `let mut r = None; for x in C { if P(x) { r = Some(x); break } }` and the helper form with `return Some(x)` /
                     `None` are `C.find(P)` — the rule runs on C13_helpers.normal_slicer, which gives the loop's result that
                     value, and a Scope counts the loop as a FIND at the site of its next(); R4 follows the loop's result (or the
                     Option handed up by the helpers around it) to `ok_or(..)?` or to a None arm returning the error
  failing guards     `match r { Ok(v) => v, Err(e) => return Err(..) }`, `let Some(i) = r else { return Err(..) }` around an effect are
                     `?`, not per-element selections (total_iterations / failing_guard); `r.map(|v| effect)` whose result must be
                     Ok / Some for the function to succeed is `let v = r?; effect` (runs_unless_failed); the iterations around an
                     effect are the natural loops holding it, not loops that merely precede it inside an enclosing loop
  mapped emission    R2: the returned vector may be the traversal's vector seen through element-wise stages
                     (`indices.into_iter().map(|i| &graph[i]).collect()`, the index-collecting part a private helper): the element
                     emitted is the stage applied to the element pushed, and no vector is mutated in between (C13_helpers.emitted)
  node constructor   R6: the node may be built in a function of the directory, in the closure of the map stage over the
                     directories, or inline in the body of the loop over them (the directory is then the loop's element); a `?` in
                     that body is a failing step (its error must fail the caller), not a selection of directories
Spelling independence (round 5):
  id table           R1/R4: "the index of the node with id X" may be looked up in a table instead of the graph —
                     `NodeIndex::new(T.iter().position(|e| *e == X))` with T[k] = id of node k by construction (find_by_table:
                     one push of n.id() and one add_node(n), each for every element n of `nodes` in order, on a graph created
                     empty that never shrinks); `position` is a by-id lookup whose None must become the error like find's
  fused builder      R6: `dirs.filter(kind).map(build)` may be `dirs.filter_map(build')` with build' returning
                     Option<Result<Node>>: the decisions under which build' returns Some(..) (C13_helpers.some_when) are the
                     per-directory conditions of nodes-total, its Some payload is the node's Result, and that Result's Err
                     fails the caller where the elements are collected (C13_helpers.carried_in_some); the node may be
                     assembled in the closure of `helper(dir).map(|(id, deps)| Node { .. })` (payload_closure: the fields in
                     the enclosing function's terms), each component of a tuple-returning helper being followed like a
                     helper of its own (Payloads.returned(proj))
  counters           R7: `(1..).zip(order)` is `order.enumerate()` (C15_helpers.counter_nf, shared with C15)
Not decided: topological correctness on all DAGs (follows from R1–R3 given petgraph's documented post-order
semantics); behaviour on cyclic input.
"""
import re

from .lib import iters
from .lib.discard import verdict, result_fates
from .lib.effects import Effects
from .lib.value import vstr, walk, canon, subst
from . import C13_helpers as H
from .C13_helpers import peel, core, is_call, site_of

CG = 'libcnb_package::dependency_graph::create_dependency_graph'
GD = 'libcnb_package::dependency_graph::get_dependencies'
DN = 'libcnb_package::dependency_graph::DependencyNode::'
FIND = 'std::iter::Iterator::find'
DROPPING = ('filter_map', 'flatten', 'filter', 'flat_map')
REORDERING = ('reverse', 'rev', 'insert', 'sort', 'sort_by', 'sort_by_key', 'dedup', 'retain', 'push_front')


def classify(name):
    """role of a callee in the dependency-graph vocabulary"""
    if not name:
        return None
    last = name.split('::')[-1]
    if 'petgraph::' in name and last in ('add_edge', 'update_edge'):
        return 'ADD_EDGE'      # (update_edge = add_edge unless the edge exists already: the same relation)
    if 'petgraph::' in name and last == 'add_node':
        return 'ADD_NODE'
    if 'petgraph::visit::' in name:
        if last in ('empty', 'new'):
            return 'TRAV_NEW'
        if last == 'next':
            return 'TRAV_NEXT'
        if last == 'move_to':
            return 'TRAV_MOVE'
    if name == FIND or name == H.IT + 'position':
        return 'FIND'      # (position = find with the place of the element as result)
    if name.startswith('std::option::Option::') and last in ('ok_or', 'ok_or_else'):
        return 'OK_OR'
    if name == DN + 'dependencies':
        return 'DEPS'
    if name in H.PUSH:
        return 'PUSH'
    return None


def traversal_kind(name):
    """`petgraph::visit::DfsPostOrder::<N, VM>::empty` -> DfsPostOrder"""
    segs = [x for x in re.sub(r'<[^<>]*>', '', name).split('::') if x]
    return segs[-2] if len(segs) >= 2 else None


def call_role(c):
    return None if c.indirect else (classify(c.res) or classify(c.decl))


class Scope:
    """one entry function with everything it runs: its closures, the private helpers it reaches, their closures; the
    calls of the vocabulary as effects in the entry function's terms.  A search loop (C13_helpers.find_searches) is a FIND at
    the site of its `next()`"""

    def __init__(self, prog, sl, fn):
        self.fn = fn
        self.fns = list(prog.reach([fn]).values())
        for g in H.scope_fns(prog, fn):
            if g not in self.fns:
                self.fns.append(g)
        self.calls = [c for g in self.fns for c in g.calls]
        self.searches = {}
        for g in self.fns:
            for c in g.calls:
                if not c.indirect and c.decl == H.IT + 'next':
                    s = H.search_at(sl, g, self.site(c))
                    if s is not None:
                        self.searches[self.site(c)] = s
        vocab = {}
        for c in self.calls:
            r = self.role(c)
            if r:
                for n in (c.res, c.decl):
                    if n and (classify(n) == r or self.site(c) in self.searches):
                        vocab[n] = (r, None)
        self.E = Effects(prog, sl, vocab=vocab)
        seen = set()
        self.effs = []
        for e in self.E.expand(fn, 'may'):
            if e.call is None or self.role(e.call) != e.kind:
                continue
            k = (e.kind, self.site(e.call), tuple(self.site(l.call) for l in e.chain), canon(e.args))
            if k not in seen:
                seen.add(k)
                self.effs.append(e)

    @staticmethod
    def site(c):
        return (c.fn.path, c.bb)

    def role(self, c):
        if c.indirect:
            return None
        return 'FIND' if self.site(c) in self.searches else call_role(c)

    def of(self, kind):
        return [e for e in self.effs if e.kind == kind]

    def sites(self, kind):
        """call sites of a role anywhere in the scope (whether or not the effect expansion reaches them)"""
        return sorted({self.site(c) for c in self.calls if self.role(c) == kind})

    def all_reached(self, kind):
        return set(self.sites(kind)) <= {self.site(e.call) for e in self.of(kind)}

    def named(self, lasts):
        return sorted({c.name for c in self.calls if c.name and c.name.split('::')[-1] in lasts})


SOME_PRESERVING = ('std::option::Option::<T>::map', 'std::option::Option::<T>::inspect', 'std::option::Option::<T>::as_ref', 'std::option::Option::<&T>::copied',
                   'std::option::Option::<&T>::cloned', 'std::option::Option::<T>::as_mut')
INDEX_OF = ('::index', '::node_weight')


def lookup_of(v):
    """the search an Option / its payload comes from: seen through `?` / unwrap / ok_or / map_err and through the Option
    adapters under which "found" stays "found" (map, inspect, as_ref, copied, cloned) and projections of the payload"""
    for _ in range(16):
        v = core(v)
        if v[0] == 'field':
            v = v[1]
        elif v[0] == 'call' and v[1] in SOME_PRESERVING and v[2]:
            v = v[2][0]
        else:
            break
    return v


def find_by_id(sl, v):
    """v denotes the index of the first node of G whose id is X — (G, X), else None.  Stated on petgraph's enumeration
    semantics, not on one spelling:
        find(G.node_indices(), P)                 with P(i)         = (G[i].id() == X)
        find(G.node_references(), P) -> .0        with P((i, G[i])) = (G[i].id() == X)   (node_references yields (i, &G[i])
                                                  in index order; the index is the first component of the pair found,
                                                  whether taken by `.map(|(i, _)| i)` or by destructuring)"""
    v = peel(v)
    pair = None
    if v[0] == 'field' and v[2] == '0':
        pair, v = True, v[1]
    f = core(v)
    if f[0] == 'call' and f[1] == SOME_PRESERVING[0] and len(f[2]) == 2 and pair is None:
        p = H.sym('p')
        r = H.apply1(sl, f[2][1], p)
        if r is None or peel(r) != ('field', p, '0'):
            return None
        pair, f = True, core(f[2][0])
    if not (f[0] == 'call' and f[1] == FIND and len(f[2]) == 2):
        return None
    recv = core(f[2][0])
    if not (recv[0] == 'call' and recv[2]):
        return None
    g = peel(recv[2][0])
    i = H.sym('i')
    if is_call(recv, '::node_indices') and not pair:
        x = i
    elif is_call(recv, '::node_references') and pair:
        x = ('tuple', (i, ('call', 'std::ops::Index::index', (g, i), None)))
    else:
        return None
    return id_test(sl, f[2][1], x, g, i)


def id_test(sl, pred, x, g, i):
    """the predicate applied to x is `G[i].id() == X` (either operand order) with X independent of i: (G, X), else None"""
    r = H.apply1(sl, pred, x)
    if r is None:
        return None
    r = peel(r)
    if not (is_call(r, '::eq') and len(r[2]) == 2):
        return None
    for a, b in ((peel(r[2][0]), peel(r[2][1])), (peel(r[2][1]), peel(r[2][0]))):
        if not (a[0] == 'call' and a[1] == DN + 'id' and a[2]):
            continue
        ix = peel(a[2][0])
        if is_call(ix, *INDEX_OF) and len(ix[2]) == 2 and peel(ix[2][1]) == i and canon(peel(ix[2][0])) == canon(g) and not any(y == i for y in walk(b)):
            return g, b
    return None


POSITION = H.IT + 'position'
GRAPH_SHRINKING = ('remove_node', 'retain_nodes', 'clear', 'clear_nodes', 'swap_remove', 'filter_map', 'reverse')


def find_by_table(prog, sl, S, fn, v):
    """round 5 — v denotes the index of the first node of G whose id is X, looked up in an id table instead of the graph:
        NodeIndex::new(position(T.iter(), |e| *e == X))      (also `.position(..).map(NodeIndex::new)`)
    where T is a vector created in fn whose k-th element is the id of the node with index k, by construction:
      - T is only ever read, and appended to by one `T.push(n.id())`; G gets its nodes by one `G.add_node(n)`; G is created
        empty in fn and nothing removes a node from it (petgraph hands out indices 0, 1, 2, .. in insertion order);
      - both calls run once for every element n of `nodes`, in order (total_iterations on either: no filter, truncation,
        per-element decision; in_order: no rev / skip), so position k of T and node index k of G belong to the same n.
    `position` returns the first match in index order exactly like find over node_indices().  -> (G, X), else None"""
    v = peel(v)
    if not (v[0] == 'call' and re.search(r'NodeIndex(::<[^>]*>)?::new$', v[1] or '') and len(v[2]) == 1):
        return None
    f = core(v[2][0])
    if not (f[0] == 'call' and f[1] == POSITION and len(f[2]) == 2):
        return None
    recv = core(f[2][0])
    if recv[0] == 'call' and len(recv[2]) == 1 and 'petgraph::' in recv[1] and is_call(recv, '::node_indices', '::node_weights'):
        # the place of a node in the graph's own enumeration is its index (a petgraph Graph keeps its indices dense: 0..n in
        # node_indices() / node_weights() order): NodeIndex::new(position(..)) is find(..) over node_indices()
        gq, i = peel(recv[2][0]), H.sym('i')
        x = i if is_call(recv, '::node_indices') else ('call', 'std::ops::Index::index', (gq, i), None)
        return id_test(sl, f[2][1], x, gq, i)
    base = peel(f[2][0])
    for _ in range(6):
        if base[0] == 'call' and len(base[2]) == 1 and (base[1] in H.TRANSPARENT_STAGES - {H.IT + 'inspect'} or (iters._is_source(base[1]) and base[1].endswith(iters.SAME_ELEMS))):
            base = peel(base[2][0])
    vsite = site_of(base)
    if not (base[0] == 'call' and base[1] in H.VEC_NEW and vsite is not None and vsite[0] == fn.path):
        return None
    e = H.sym('e')
    r = H.apply1(sl, f[2][1], e)
    if r is None:
        return None
    r = peel(r)
    if not (is_call(r, '::eq') and len(r[2]) == 2):
        return None
    a, b = peel(r[2][0]), peel(r[2][1])
    if b == e:
        a, b = b, a
    if a != e or any(y == e for y in walk(b)):
        return None
    app, _, other = H.vec_uses(prog, sl, fn, vsite)
    pushes = [x for x in S.of('PUSH') if len(x.args) == 2 and site_of(peel(x.args[0])) == vsite]
    adds = S.of('ADD_NODE')
    if other or len(app) != 1 or app[0][2] != 'push' or len(pushes) != 1 or S.site(pushes[0].call) != S.site(app[0][0]):
        return None
    if len(S.sites('ADD_NODE')) != 1 or len(adds) != 1 or not S.all_reached('ADD_NODE') or len(adds[0].args) != 2 or S.named(GRAPH_SHRINKING):
        return None
    g = peel(adds[0].args[0])
    if not (g[0] == 'call' and 'petgraph::' in g[1] and g[1].split('::')[-1] in ('new', 'with_capacity', 'default') and site_of(g) is not None and site_of(g)[0] == fn.path):
        return None
    idv = peel(pushes[0].args[1])
    if not (idv[0] == 'call' and idv[1] == DN + 'id' and idv[2]):
        return None
    elems = []
    for x, node in ((pushes[0], idv[2][0]), (adds[0], adds[0].args[1])):
        vd, _, its = H.total_iterations(S.E, x)
        if vd != 'ok' or len(its) != 1 or its[0].base is None or peel(its[0].base)[:3] != ('param', fn.path, 0) or its[0].elem is None \
                or not H.in_order(its[0].recv) or canon(peel(node)) != canon(peel(its[0].elem)):
            return None
        elems.append(canon(peel(its[0].elem)))
    return g, b


def error_named(sl, v, variant):
    """the error value (or the closure producing it) builds the given variant"""
    vs = [v]
    cl = peel(v)
    if cl[0] in ('closure', 'fnitem'):
        r = sl.apply_closure(cl, ())
        if r is not None:
            vs.append(r)
    return any(y[0] == 'agg' and y[2] == variant for x in vs for y in walk(x))


def levels(e):
    return [l.call for l in e.chain] + [e.call]


def missing_items(rep, prog, sl, S, subject, variant, ok_msg, bad_msg, where):
    """R4: every by-id lookup's "not found" becomes Err(<variant>) and leaves the entry function as an error, whether by
    ok_or(..) + `?` / return at every level of the call chain, or by a None arm that returns the error"""
    finds = S.of('FIND')
    if not finds or not S.all_reached('FIND'):
        rep.unproven('R4', subject + '#0', where, 'the lookup of the node by id is not reached by the effect expansion (%d of %d call sites)' % (len(finds), len(S.sites('FIND'))))
        return
    for i, e in enumerate(finds):
        conv = [o for o in S.of('OK_OR') if len(o.args) == 2 and error_named(sl, o.args[1], variant)
                and site_of(lookup_of(H.reduce(sl, o.args[0]))) == S.site(e.call)]
        srch = S.searches.get(S.site(e.call))
        ok, why = H.flows_out(prog, e, srch)
        if not (ok and conv):
            ok2, why2 = H.none_is_error(prog, sl, e, variant, srch)
            if ok2:
                ok, conv = True, [e]
            elif ok:
                why = 'no ok_or(%s) on the lookup result, %s' % (variant, why2)
        rep.check(ok and bool(conv), 'R4', '%s#%d' % (subject, i), e.where(), ok_msg, bad_msg + ': %s' % why)


def all_node_indices(sl, SC, cg, it, g):
    """the iteration ranges over every node index of graph g:
         g.node_indices(), or
         the indices add_node handed out: the collected results of the one add_node call of the scope, applied to every
         element of `nodes` on a graph created empty in this function (no node has another index; that add_node runs for
         every element is R1/every-node-added; collected = all nodes are in the graph before the first lookup)"""
    b = core(it.base) if it.base is not None else ('unknown',)
    if is_call(b, '::node_indices') and b[2] and canon(peel(b[2][0])) == canon(g):
        return True
    e = peel(it.elem) if it.elem is not None else ('unknown',)
    sites = SC.sites('ADD_NODE')
    fresh = g[0] == 'call' and 'petgraph::' in g[1] and g[1].split('::')[-1] in ('new', 'with_capacity', 'default')
    return bool(fresh and peel(it.base)[:3] == ('param', cg.path, 0) and len(sites) == 1 and e[0] == 'call' and classify(e[1]) == 'ADD_NODE'
                and site_of(e) == sites[0] and len(e[2]) == 2 and canon(peel(e[2][0])) == canon(g)
                and canon(peel(e[2][1])) == canon(peel(iters.elem_of(it.base)))
                and it.recv is not None and any(y[0] == 'call' and y[1] in iters.COLLECTING for y in walk(it.recv)))


def construction_total(rep, prog, sl, SC, cg, edges, w):
    """R1 (totality): every element of `nodes` becomes a node of the graph, and the edge is added for every node of the graph
    and every element of that node's dependency list — whether written as nested `for` loops, for_each closures or helpers"""
    e = edges[0]
    g = peel(e.args[0]) if e.args else ('unknown',)
    vd, why, its = H.total_iterations(SC.E, e)
    if vd == 'ok' and len(its) == 1 and its[0].base is not None and peel(its[0].base)[0] == 'call' and peel(its[0].base)[1] in H.VEC_NEW and site_of(peel(its[0].base)):
        # two phases: the (source, target) pairs are first stored in a local Vec that is only ever pushed to, then the
        # edges are added for every stored pair — the totality is the one of the push
        vsite = site_of(peel(its[0].base))
        app, _, other = H.vec_uses(prog, sl, cg, vsite)
        pushes = [x for x in SC.of('PUSH') if any(SC.site(x.call) == SC.site(c) for c, _, k in app if k == 'push') and x.args and site_of(peel(x.args[0])) == vsite]
        if other or len(app) != 1 or app[0][2] != 'push' or len(pushes) != 1:
            vd, why = 'unproven', 'the edges are added from a stored list that is not filled by exactly one push'
        else:
            vd, why, its = H.total_iterations(SC.E, pushes[0])
    if vd == 'ok':
        bases = [core(it.base) if it.base is not None else ('unknown',) for it in its]
        over_nodes = [it for it in its if all_node_indices(sl, SC, cg, it, g)]
        over_deps = [b for b in bases if any(x[0] == 'call' and x[1] == DN + 'dependencies' for x in walk(b))]
        if len(its) != 2 or len(over_nodes) != 1 or len(over_deps) != 1:
            vd, why = 'unproven', 'the edge is not added inside exactly "for every node index of the graph, for every dependency of that node": %s' % ' / '.join(vstr(b)[:70] for b in bases)
    if vd == 'violated':
        rep.violated('R1', 'every-dependency', e.where(), 'not every dependency of every node becomes an edge: ' + why)
    elif vd != 'ok':
        rep.unproven('R1', 'every-dependency', e.where(), 'cannot show that every dependency of every node becomes an edge: ' + why)
    else:
        rep.holds('R1', 'every-dependency', e.where(), 'an edge is added for every node of the graph and every element of its dependency list')
    adds = SC.of('ADD_NODE')
    if len(SC.sites('ADD_NODE')) != 1 or not adds or not SC.all_reached('ADD_NODE'):
        rep.unproven('R1', 'every-node-added', w(cg), '%d add_node call sites' % len(SC.sites('ADD_NODE')))
        return
    probs = []
    for a in adds:
        vd, why, its = H.total_iterations(SC.E, a)
        if vd != 'ok':
            probs.append((vd if vd == 'violated' else 'unproven', why))
            continue
        it = its[0]
        base = peel(it.base) if it.base is not None else ('unknown',)
        if len(its) != 1 or base[:3] != ('param', cg.path, 0):
            probs.append(('unproven', 'add_node does not run once per element of `nodes`: ' + vstr(base)[:100]))
        elif len(a.args) < 2 or it.elem is None or canon(peel(a.args[1])) != canon(peel(it.elem)):
            probs.append(('unproven', 'the node added is not the element of `nodes`: ' + vstr(a.args[1] if len(a.args) > 1 else ('unknown',))[:100]))
        elif canon(peel(a.args[0])) != canon(g):
            probs.append(('violated', 'nodes are added to another graph than the one the edges are added to'))
    bad = [t for s_, t in probs if s_ == 'violated']
    if bad:
        rep.violated('R1', 'every-node-added', adds[0].where(), 'not every given node becomes a node of the graph: ' + '; '.join(bad))
    elif probs:
        rep.unproven('R1', 'every-node-added', adds[0].where(), '; '.join(t for _, t in probs))
    else:
        rep.holds('R1', 'every-node-added', adds[0].where(), 'every element of `nodes` is added to the graph')


def run(ctx, rep):
    prog, sl = ctx.prog, H.normal_slicer(ctx.slicer)
    for r, d in (('R1', 'edge orientation dependent -> dependency'), ('R2', 'post-order DFS, emitted in visit order, not reversed'),
                 ('R3', 'one traversal state shared across roots'), ('R4', 'unknown dependency / root is an error'), ('R5', 'root selection, graph and consumption order at the call sites')):
        rep.rule(r, d)
    rep.not_decided = ['topological correctness on all DAGs (delegated to petgraph\'s DfsPostOrder)', 'behaviour on cycles']
    cg, gd = prog.fn(CG), prog.fn(GD)
    rep.analysed(cg)
    rep.analysed(gd)
    w = lambda f: '%s:%d' % (f.file, f.line)
    SC, SG = Scope(prog, sl, cg), Scope(prog, sl, gd)
    # ---- R1 --------------------------------------------------------------------------------------------
    edges = SC.of('ADD_EDGE')
    if len(SC.sites('ADD_EDGE')) != 1 or not edges or not SC.all_reached('ADD_EDGE'):
        rep.unproven('R1', 'add_edge', w(cg), '%d add_edge call sites' % len(SC.sites('ADD_EDGE')))
    else:
        # the dependency list that is iterated belongs to graph[s]
        owners = []
        for d in SC.of('DEPS'):
            o = core(H.reduce(sl, d.args[0])) if d.args else ('unknown',)
            owners.append((peel(o[2][0]), peel(o[2][1])) if is_call(o, '::index') and len(o[2]) == 2 else None)
        one_list = len(SC.sites('DEPS')) == 1 and SC.all_reached('DEPS') and bool(owners) and None not in owners
        pairs = []
        for e in edges:
            if len(e.args) < 3:
                pairs.append((False, False, ('unknown',), ('unknown',)))
                continue
            for g, s, t in H.normal_forms(prog, sl, cg, e.args[:3]):
                g, s = peel(g), peel(s)
                ok_src = one_list and all(canon(og) == canon(g) and os == s for og, os in owners)
                ok_tgt = False
                fb = find_by_id(sl, t) or find_by_table(prog, sl, SC, cg, t)
                if fb is not None and canon(fb[0]) == canon(g):
                    coll = H.element_of(sl, fb[1])
                    deps = [x for x in walk(coll) if x[0] == 'call' and x[1] == DN + 'dependencies'] if coll is not None else []
                    if len(deps) == 1 and deps[0][2]:
                        o = core(deps[0][2][0])
                        ok_tgt = is_call(o, '::index') and len(o[2]) == 2 and canon(peel(o[2][0])) == canon(g) and peel(o[2][1]) == s
                pairs.append((ok_src, ok_tgt, s, t))
        ok_src, ok_tgt = all(p[0] for p in pairs), all(p[1] for p in pairs)
        bad = next((p for p in pairs if not (p[0] and p[1])), pairs[0])
        rep.check(ok_src and ok_tgt, 'R1', 'add_edge', edges[0].where(), 'edge: node whose dependencies are iterated -> node found by dependency id',
                  'edge orientation not recognised as dependent -> dependency (source_ok=%s target_ok=%s): %s -> %s' % (ok_src, ok_tgt, vstr(bad[2])[:80], vstr(bad[3])[:80]))
        # R4: missing dependency
        missing_items(rep, prog, sl, SC, 'missing-dependency', 'MissingDependency', 'unknown dependency => Err(MissingDependency) propagated',
                      'a dependency id that is not in the graph is not turned into MissingDependency + `?`', w(cg))
        dropping = SC.named(DROPPING)
        rep.check(not dropping, 'R4', 'no-filter', w(cg), 'no filtering adapter in graph construction', 'graph construction uses %s' % dropping)
        construction_total(rep, prog, sl, SC, cg, edges, w)
    # ---- R2 / R3 ---------------------------------------------------------------------------------------
    trav = SG.of('TRAV_NEW')
    tsites, nsites, msites = SG.sites('TRAV_NEW'), SG.sites('TRAV_NEXT'), SG.sites('TRAV_MOVE')
    reached = SG.all_reached('TRAV_NEW') and SG.all_reached('TRAV_NEXT') and SG.all_reached('TRAV_MOVE')
    kind = traversal_kind(trav[0].call.name) if trav else None
    tsite = tsites[0] if len(tsites) == 1 else None
    on_trav = lambda v: tsite is not None and site_of(core(H.reduce(sl, v))) == tsite
    # emission: the returned vector, and everything that is ever done to it
    ret = peel(sl.local(gd, 0))
    graph_p = peel(sl.local(gd, 1))
    vsites = {site_of(peel(dict(x[3])['0'])) for x in walk(ret)
              if x[0] == 'agg' and x[2] == 'Ok' and x[3] and peel(dict(x[3])['0'])[0] == 'call' and peel(dict(x[3])['0'])[1] in H.VEC_NEW}
    ret_ok = len(vsites) == 1 and None not in vsites
    through = None      # the returned collection is the local vector seen through element-wise stages (helpers inlined)
    if not ret_ok:
        em = H.emitted(prog, sl, gd)
        if em is not None:
            vsites, through, ret_ok = {em[0]}, em[1], True
    app, other, elems = [], [], []
    if ret_ok:
        vsite = next(iter(vsites))
        holder = prog.fns.get(vsite[0], gd)
        while holder.kind == 'Closure' and holder.parent in prog.fns:
            holder = prog.fns[holder.parent]
        app, _, other = H.vec_uses(prog, sl, holder, vsite)
        if through is not None:
            # between the helper that fills the vector and the stages that map it nothing may change a vector
            other = other + H.vec_mutations(prog, SG.fns, {SG.site(c) for c, _, _ in app})
        for c, g, k in app:
            if k == 'push':
                # the pushed value in get_dependencies' terms (the push may sit in a helper or closure)
                es = [e for e in SG.of('PUSH') if SG.site(e.call) == SG.site(c) and len(e.args) == 2 and site_of(peel(e.args[0])) == vsite]
                elems.extend((through(a) if through is not None else a, False) for e in es for (a,) in H.normal_forms(prog, sl, gd, e.args[1:2]))
                if not es:
                    elems.append((('unknown', 'push not reached'), True))
            elif through is not None:
                elems.extend((through(a), fl) for a, fl in H.appended(sl, c, g, k))
            else:
                elems.extend(H.appended(sl, c, g, k))
    shape_ok = len(tsites) == 1 and reached and kind == 'DfsPostOrder' and len(nsites) == 1 and len(app) == 1 and not other and bool(elems)
    if shape_ok:
        for pv, filtered in elems:
            pv = core(pv)
            nx = core(pv[2][1]) if is_call(pv, '::index', '::node_weight') and len(pv[2]) == 2 and canon(peel(pv[2][0])) == canon(graph_p) else ('unknown',)
            shape_ok = shape_ok and not filtered and nx[0] == 'call' and classify(nx[1]) == 'TRAV_NEXT' and bool(nx[2]) and on_trav(nx[2][0]) and site_of(nx) == nsites[0]
    rev = SG.named(REORDERING)
    # no petgraph traversal object at all: the order comes from a hand-written walk.  R2 (and R3, which is stated on the
    # traversal object) is an agreement rule with petgraph's DfsPostOrder; a hand-written walk is neither accepted nor
    # refuted structurally.  Without positive evidence of a wrong shape (a reordering call, the returned vector handed
    # to something other than an append, a result that is not that vector) this is one UNPROVEN, not a violation.
    handwritten = not tsites and not nsites and not msites and not any(classify(n) in ('TRAV_NEW', 'TRAV_NEXT', 'TRAV_MOVE') for c in SG.calls for n in (c.res, c.decl, c.name))
    if handwritten and ret_ok and not rev and not other and app:
        nodes = bool(elems) and all(not fl and is_call(core(pv), '::index', '::node_weight') and len(core(pv)[2]) == 2 and canon(peel(core(pv)[2][0])) == canon(graph_p) for pv, fl in elems)
        walkers = sorted({c.fn.path for c, _, _ in app if c.fn.path != gd.path} | {l.call.name for e in SG.of('PUSH') for l in e.chain if l.call.name})
        rep.unproven('R2', 'traversal', w(gd), 'hand-written traversal (%s) instead of petgraph DfsPostOrder: post-order / shared visit state / restart per root (R2+R3) not decided; '
                     'established: result vector only appended to (%d site), returned as is, not reordered, elements are graph nodes: %s'
                     % (', '.join(x.split('::')[-1] for x in walkers) or 'inline loop', len(app), 'yes' if nodes else 'not recognised'))
    else:
        rep.check(shape_ok and not rev and ret_ok, 'R2', 'traversal', w(gd), 'DfsPostOrder over dependent->dependency edges, appended in visit order, returned as is',
                  'unrecognised (orientation, traversal, emission) shape: traversal=%s nexts=%d appends=%d other_uses=%s reordering=%s' % (kind, len(nsites), len(app), sorted({c.name for c in other}), rev))
    if trav:
        t = trav[0]
        once = len(trav) == 1 and t.forall is None and all(c.fn.kind != 'Closure' and not c.fn.in_loop(c.bb) for c in levels(t))
        users = SG.of('TRAV_NEXT') + SG.of('TRAV_MOVE')
        dom = reached and all(u.args and on_trav(u.args[0]) for u in users)
        rep.check(once and dom, 'R3', 'shared-state', t.where(), 'traversal state created once before the loop over roots',
                  'the traversal state is re-created per root: nodes shared by several roots would be emitted more than once')
        moves = SG.of('TRAV_MOVE')
        mv_ok = len(msites) == 1 and bool(moves) and reached
        for m in moves if mv_ok else ():
            per_root = m.forall is not None or any(c.fn.in_loop(c.bb) for c in levels(m))
            alts = H.normal_forms(prog, sl, gd, m.args[1:2]) if len(m.args) == 2 else []
            ok = bool(alts)
            for (a,) in alts:
                fb = find_by_id(sl, a)
                b = peel(fb[1]) if fb is not None else ('unknown',)
                root = H.element_of(sl, b[2][0]) if b[0] == 'call' and b[1] == DN + 'id' and b[2] else None
                ok = ok and root is not None and root[0] == 'param' and root[1] == GD and canon(fb[0]) == canon(graph_p)
            mv_ok = mv_ok and per_root and ok
        rep.check(mv_ok, 'R3', 'move-to-root', moves[0].where() if moves else w(gd), 'move_to(index of the root) once per root', 'traversal is not restarted at each root node')
    missing_items(rep, prog, sl, SG, 'unknown-root', 'UnknownRootNode', 'unknown root => Err(UnknownRootNode) propagated',
                  'a root that is not in the graph is not an error', w(gd))
    # ---- R5 --------------------------------------------------------------------------------------------
    callers = [c for c in prog.callers().get(GD, []) if c.name == GD]
    rep.floor('R5', 'get_dependencies_callers', len(callers))
    for c in callers:
        f = c.fn
        rep.analysed(f)
        subj = f.path
        vd = verdict(result_fates(prog, f, c))
        rep.check(vd == 'ok', 'R5', subj + '/propagated', c.where(), 'error of get_dependencies propagated', 'result of get_dependencies: ' + vd)
        roots = peel(sl.operand(f, c.args[1]))
        graph = peel(sl.operand(f, c.args[0]))
        if f.path == 'cargo_libcnb::package::command::execute':
            sel_ok, all_ok, n, txt = selection_by_cwd(prog, sl, f, c, graph)
            rep.check(n == 3 and sel_ok and all_ok, 'R5', subj + '/selection', c.where(), 'roots = node at cwd, else all nodes when cwd is the workspace root',
                      'root selection not recognised (find_by_cwd=%s all_at_root=%s): %s' % (sel_ok, all_ok, txt[:160]))
        elif f.path == 'libcnb_test::build::package_buildpack':
            al = iters.alts(sl, roots)
            ok = len(al) == 1 and al[0][1] is None
            if ok:
                fl = node_found_by(sl, al[0][0], graph)
                ok = fl is not None and fl[1] == 'buildpack_id'
            rep.check(ok, 'R5', subj + '/selection', c.where(), 'root = the node with the requested buildpack id (missing => error)', 'root selection not recognised: ' + vstr(roots)[:160])
        else:
            rep.unproven('R5', subj + '/selection', c.where(), 'unknown caller of get_dependencies')
        # the order is consumed front to back: iterated directly, no reversal
        bad = []
        for g in H.scope_fns(prog, f):
            for x in g.calls:
                if x.name and x.name.split('::')[-1] in ('rev', 'reverse', 'sort', 'sort_by', 'sort_by_key', 'pop', 'swap'):
                    a0 = sl.operand(g, x.args[0]) if x.args else ('unknown',)
                    if any(y[0] == 'call' and y[1] == GD for y in walk(a0)):
                        bad.append(x.name)
        rep.check(not bad, 'R5', subj + '/consumption', c.where(), 'build order consumed front to back', 'build order is reordered before use: %s' % bad)
        # the graph the order is computed on is the one of the whole cargo workspace
        gv = core(graph)
        root = core(gv[2][0]) if gv[0] == 'call' and gv[1] == BG and gv[2] else ('unknown',)
        rep.check(root[0] == 'call' and root[1] == WS_ROOT, 'R5', subj + '/graph', c.where(), 'graph = build_libcnb_buildpacks_dependency_graph(<cargo workspace root>)',
                  'the dependency graph is not built from the cargo workspace root (buildpacks elsewhere in the workspace are unknown to it): ' + vstr(gv)[:160])
        consumption(rep, prog, sl, f, subj, c)
    rule6(ctx, rep)
    graph_sources(ctx, rep)


PKG = 'libcnb_package::package::package_buildpack'
MAP_INSERT = 'std::collections::BTreeMap::<K, V, A>::insert'
WS_ROOT = 'libcnb_package::find_cargo_workspace_root_dir'


def consumption(rep, prog, sl, f, subj, gd_call):
    """R7: what the caller does with the order.  Stated on the effects of the caller with the packaging call and the
    id -> directory map insert as vocabulary (they may sit in the loop, in a helper, in a for_each closure):
      every-node      package_buildpack runs for every element of get_dependencies(..), under no per-element condition
      node-dir        it packages that element's own directory (`path`)
      destination     into a directory that is a function of that element's own id
      dependency-map  the id -> directory map it is handed is the one in which, for every element, that element's id is
                      recorded with the very directory it was packaged into; nothing else changes that map
      package-result  its failure is carried out of the caller"""
    from . import C15_helpers as H15
    rep.rule('R7', 'every buildpack of the build order is packaged from its own directory into its own output directory, which later composites are handed')
    sl = H.normal_slicer(sl)
    E = Effects(prog, sl, vocab={PKG: ('PACKAGE', 4), MAP_INSERT: ('RECORD', 2)})
    seen, pk, recs = set(), [], []
    for e in H15.expand(E, f, 'may'):
        if e.call is None or e.kind not in ('PACKAGE', 'RECORD') or e.call.name not in (PKG, MAP_INSERT):
            continue
        k = (e.kind, e.call.fn.path, e.call.bb, tuple((l.call.fn.path, l.call.bb) for l in e.chain))
        if k not in seen:
            seen.add(k)
            (pk if e.kind == 'PACKAGE' else recs).append(e)
    if len(pk) != 1 or len(pk[0].args or ()) < 6:
        rep.unproven('R7', subj + '/every-node', gd_call.where(), '%d packaging calls reached from %s' % (len(pk), f.path))
        return
    p = pk[0]
    vd, why, its = H.total_iterations(E, p)
    it = its[0] if len(its) == 1 else None
    if vd == 'ok' and it is None:
        vd, why = 'unproven', 'nested iterations'
    over_order = it is not None and it.base is not None and any(x[0] == 'call' and x[1] == GD for x in walk(it.base))
    if vd == 'ok' and not over_order:
        vd, why = 'violated', 'the packaging loop ranges over %s, not over the result of get_dependencies' % vstr(it.base if it is not None and it.base is not None else ('unknown',))[:100]
    if vd in ('unproven', 'none'):
        rep.unproven('R7', subj + '/every-node', p.where(), 'cannot show that every buildpack of the build order is packaged: ' + (why or vd))
    else:
        rep.check(vd == 'ok', 'R7', subj + '/every-node', p.where(), 'package_buildpack runs for every element of the build order',
                  'not every buildpack of the build order is packaged: ' + why)
    node = H.node_element(it.elem, GD) if (it is not None and it.elem is not None) else None
    if node is None:
        for k in ('node-dir', 'destination', 'dependency-map'):
            rep.unproven('R7', '%s/%s' % (subj, k), p.where(), 'the element of the build order the packaging call works on is not known')
    else:
        N = H.sym('node')
        rel = lambda v: H.in_terms_of(sl, v, node, N)
        src = peel(rel(p.args[0]))
        n, k = H.occurrences(src, N, 'path')
        if src == ('field', N, 'path'):
            rep.holds('R7', subj + '/node-dir', p.where(), 'packages the directory of the element itself')
        elif n == 0 and k == 0:
            rep.violated('R7', subj + '/node-dir', p.where(), 'the directory packaged is not the one of the current element of the build order: ' + vstr(src)[:120])
        else:
            rep.unproven('R7', subj + '/node-dir', p.where(), 'the directory packaged is not plainly the `path` of the current element: ' + vstr(src)[:120])
        dest = rel(p.args[4])
        n, k = H.occurrences(dest, N, 'buildpack_id')
        if k >= 1 and n == k:
            rep.holds('R7', subj + '/destination', p.where(), 'output directory = f(id of the element itself)')
        elif k == 0 and n == 0:
            rep.violated('R7', subj + '/destination', p.where(), 'the output directory does not depend on the element of the build order that is packaged: every buildpack is written into the same directory (%s)' % vstr(dest)[:120])
        else:
            rep.unproven('R7', subj + '/destination', p.where(), 'the output directory is not a function of the element\'s id alone: ' + vstr(dest)[:120])
        # the map
        mp = peel(p.args[5])
        psite = (p.call.fn.path, p.call.bb)

        def after_packaging(cd, subj):
            # "this element's packaging step succeeded" (its failure is carried out: package-result)
            return cd.kind == 'variant' and (cd.enum or '').startswith(('std::result::Result', 'std::ops::ControlFlow')) and \
                set(cd.outcome) <= {'Ok', 'Continue'} and site_of(core(subj)) == psite
        mine = [r for r in recs if len(r.args or ()) >= 3 and H15.same_object(sl, peel(r.args[0]), mp)]
        probs = []
        is_map = lambda v: H15.same_object(sl, v, mp)
        filled = H.map_mutations(prog, sl, f, is_map, []) if not mine else []
        if filled:
            probs.append(('unproven', 'the id -> directory map handed to package_buildpack is filled by %s, not by a plain insert' % sorted({(x.name or '?').split('::')[-1] for x in filled})))
        elif not mine:
            probs.append(('violated', 'the id -> directory map handed to package_buildpack (%s) is not a map the packaged directories are recorded in: composites cannot be pointed at their packaged dependencies' % vstr(mp)[:60]))
        for r in mine:
            rv, rwhy, rits = H.total_iterations(E, r, after_packaging)
            rit = rits[0] if len(rits) == 1 else None
            rnode = H.node_element(rit.elem, GD) if (rit is not None and rit.elem is not None) else None
            if rv == 'violated':
                probs.append(('violated', 'not every packaged buildpack is recorded: ' + rwhy))
            elif rv != 'ok' or rnode is None or canon(rnode) != canon(node):
                probs.append(('unproven', 'cannot show that every packaged buildpack is recorded: ' + (rwhy or 'another iteration')))
            else:
                key, val = peel(rel(r.args[1])), rel(r.args[2])
                if key != ('field', N, 'buildpack_id'):
                    probs.append(('violated' if H.occurrences(key, N, 'buildpack_id') == (0, 0) else 'unproven', 'the key recorded is not the id of the packaged element: ' + vstr(key)[:100]))
                if canon(peel(val)) != canon(peel(dest)):
                    probs.append(('violated', 'the directory recorded for an id (%s) is not the directory that buildpack was packaged into' % vstr(val)[:100]))
        for g_ in {r.call.fn.path: r.call.fn for r in mine}.values() if mine else ():
            top = g_
            while top.kind == 'Closure' and top.parent in prog.fns:
                top = prog.fns[top.parent]
            for x in H.map_mutations(prog, sl, top, is_map, [r.call for r in mine]):
                probs.append(('violated', 'the map is also changed by %s at %s' % ((x.name or '?').split('::')[-1], x.where())))
        conclude7(rep, subj + '/dependency-map', p.where(), probs, 'the map handed to package_buildpack records id -> output directory of every buildpack packaged so far')
    ok, why = H.flows_out(prog, p)
    ok2, why2, at = H.success_implies(prog, p.call, sl, stop=(f.path,)) if ok else (False, why, None)
    bad_msg = 'the failure of package_buildpack is not carried out of the caller (later buildpacks are packaged on top of a missing dependency): %s'
    if ok and ok2:
        rep.holds('R7', subj + '/package-result', p.where(), 'a failed packaging step fails the caller')
    elif not ok or (at is not None and verdict(result_fates(prog, at.fn, at)) == 'discarded'):
        rep.violated('R7', subj + '/package-result', p.where(), bad_msg % (why if not ok else why2))
    else:
        rep.unproven('R7', subj + '/package-result', p.where(), 'cannot show that a failed packaging step fails the caller: %s' % why2)


def conclude7(rep, subject, where, problems, ok_msg):
    bad = [t for s, t in problems if s == 'violated']
    unp = [t for s, t in problems if s != 'violated']
    if bad:
        rep.violated('R7', subject, where, '; '.join(bad)[:600])
    elif unp:
        rep.unproven('R7', subject, where, '; '.join(unp)[:600])
    else:
        rep.holds('R7', subject, where, ok_msg)


def node_found_by(sl, v, graph):
    """v denotes find(<graph>.node_weights(), |n| n.<field> == X): (find value, field, X), else None"""
    f = core(v)
    if not (f[0] == 'call' and f[1] == FIND and len(f[2]) == 2):
        return None
    recv = core(f[2][0])
    if not (is_call(recv, '::node_weights') and recv[2] and canon(peel(recv[2][0])) == canon(graph)):
        return None
    n = H.sym('node')
    r = H.apply1(sl, f[2][1], n, keep='*')
    if r is None:
        return None
    r = peel(r)
    if not (is_call(r, '::eq') and len(r[2]) == 2):
        return None
    a, b = peel(r[2][0]), peel(r[2][1])
    for x, y in ((a, b), (b, a)):
        if x[0] == 'field' and peel(x[1]) == n:
            return f, x[2], y
    return None


def selection_by_cwd(prog, sl, f, c, graph):
    """the roots handed to get_dependencies are, case by case:
         some node has path == cwd                       -> (a vector made from) that node
         none has, and cwd == workspace root             -> all node weights of the graph
         none has, and cwd != workspace root             -> nothing
    whether this is written as find().map().or_else(|| eq.then(..)).unwrap_or_default() or as an if-let ladder"""
    cases = H.Cases(prog, sl).of_operand(f, c.args[1])
    txt = ' | '.join('[%s] => %s' % (', '.join('%s %s' % (k, vstr(x)[:60]) for k, x in g), vstr(v)[:60]) for g, v in cases)
    is_cwd = lambda x: is_call(core(x), 'std::env::current_dir') and core(x)[1] == 'std::env::current_dir'
    is_root = lambda x: core(x)[0] == 'call' and core(x)[1] == 'libcnb_package::find_cargo_workspace_root_dir'

    def by_cwd(x):
        fl = node_found_by(sl, x, graph)
        return fl is not None and fl[1] == 'path' and is_cwd(fl[2])

    def at_root(x):
        x = peel(x)
        if not (is_call(x, '::eq') and len(x[2]) == 2):
            return False
        a, b = x[2]
        return (is_cwd(a) and is_root(b)) or (is_root(a) and is_cwd(b))
    sel = allw = none = 0
    for g, v in cases:
        found = [k for k, x in g if k in ('some', 'none') and by_cwd(x)]
        root = [k for k, x in g if k in (True, False) and at_root(x)]
        if found == ['some'] and not root:
            elems = H.vec_macro_elems(sl, f, v)
            payload = [x for k, x in g if k == 'some' and by_cwd(x)][0]
            # (a vector literal inside a closure / helper is written in that body's own terms: not compared)
            if elems is None or (len(elems) == 1 and (core(elems[0]) == core(payload) or site_of(peel(v))[0] != f.path)):
                sel += 1
        elif found == ['none'] and root == [True]:
            al = iters.alts(sl, v)
            if len(al) == 1 and al[0][1] is not None and not al[0][2]:
                coll = core(al[0][1])
                if is_call(coll, '::node_weights') and coll[2] and canon(peel(coll[2][0])) == canon(graph):
                    allw += 1
        elif found == ['none'] and root == [False]:
            x = peel(v)
            if x == H.DEFAULT:
                none += 1
            elif x[0] == 'call' and x[1] in H.VEC_NEW and not H.vec_uses(prog, sl, f, site_of(x))[0] and not H.vec_uses(prog, sl, f, site_of(x))[2]:
                none += 1
    return sel == 1, allw == 1 and none == 1, len(cases), txt


# ====================================================================================================================
# R6 — the graph's input is complete
# ====================================================================================================================
NODE = 'libcnb_package::buildpack_dependency_graph::BuildpackDependencyGraphNode'
F_DEP = 'libcnb_package::package_descriptor::buildpack_id_from_libcnb_dependency'
KIND = 'libcnb_package::buildpack_kind::determine_buildpack_kind'
DIRS = 'libcnb_package::find_buildpack_dirs'
READ = 'libcnb_common::toml_file::read_toml_file'
BG = 'libcnb_package::buildpack_dependency_graph::build_libcnb_buildpacks_dependency_graph'
JOIN = 'std::path::Path::join'
IS_FILE = 'std::path::Path::is_file'
GRAPH_KINDS = frozenset(('LibCnbRs', 'Composite'))
PATH_SAME = ('::from', '::to_path_buf', '::to_owned', '::into', '::clone', '::as_ref', '::as_path', '::borrow', '::deref', '::into_path_buf')
SWALLOWING = ('::ok', '::unwrap_or', '::unwrap_or_default', '::unwrap_or_else', '::is_ok', '::or', '::err', '::flatten', '::map_or', '::is_ok_and')


def result_of(v, name):
    """v is the result of a call to `name`, or a payload of it — seen through `?` / unwrap / transpose / map_err / branch:
    (the call value, number of payload levels taken), else None"""
    n = 0
    for _ in range(12):
        if v[0] == 'unwrap':
            v, n = v[1], n + 1
        elif v[0] == 'updated':
            v = v[1]
        elif v[0] == 'call' and v[2] and (v[1] in H.OK_PRESERVING or v[1].endswith('::transpose') or v[1] == H.TRY_BRANCH):
            v = v[2][0]
        else:
            break
    return (v, n) if v[0] == 'call' and v[1] == name and v[2] else None


def fallible_source(v):
    """the call whose Result / Option a `?` branches on (seen through map_err / ok_or / ..), else None"""
    for _ in range(12):
        if v[0] == 'updated':
            v = v[1]
        elif v[0] == 'call' and v[2] and (v[1] in H.OK_PRESERVING or v[1] == H.TRY_BRANCH):
            v = v[2][0]
        else:
            break
    return v if v[0] == 'call' and site_of(v) is not None else None


def mentions(prog, k, name):
    """the condition involves a call to `name` (in its value, or in the body of the predicate it comes from)"""
    for v in (k.value, k.subject):
        if v is not None and any(y[0] == 'call' and y[1] == name for y in walk(v)):
            return True
    g = prog.fns.get(k.origin) if isinstance(k.origin, str) else None
    return g is not None and any(name in c.names() for h in prog.reach([g], stop=lambda f: f.vis == 'pub').values() for c in h.calls if not c.indirect)


def of_elem(fr, b):
    """the call found by result_of is applied to the Build's own element"""
    return fr is not None and canon(peel_refs(fr[0][2][0])) == canon(b.x)


def call_of(prog, v):
    st = site_of(v)
    return prog.fns[st[0]].call_at(st[1]) if st is not None and st[0] in prog.fns else None


def errors_fail(prog, sl, call, what, problems):
    """the failure of `call` fails every public entry point (else a problem is recorded)"""
    if call is None:
        problems.append(('unproven', 'no call site for %s: its failure cannot be followed' % what))
        return
    ok, why, at = H.success_implies(prog, call, sl)
    if ok:
        return
    swallowed = at is not None and verdict(result_fates(prog, at.fn, at)) == 'discarded'
    problems.append(('violated' if swallowed else 'unproven', 'an error of %s does not fail the caller: %s' % (what, why)))


def sink_short_circuits(b, what, problems):
    """pipeline form: the elements are Results, the collecting call must stop at the first Err"""
    if b.sink is None:
        problems.append(('unproven', 'the call that collects the %s is not known' % what))
        return False
    if not (b.sink.dty or '').startswith('std::result::Result<'):
        problems.append(('violated', 'the %s are not collected into a Result: an error does not fail the collection' % what))
        return False
    return True


def dependencies_total(prog, sl, b):
    """Build b is `F(d)` for every element d of <X>.dependencies, dropped only where F(d) is Ok(None): (X, problems)"""
    problems = list(b.problems)
    coll = core(b.coll)
    X = None
    if coll[0] == 'field' and coll[2] == 'dependencies':
        X = coll[1]
    else:
        problems.append(('unproven', 'the iterated collection is not the `dependencies` of a package descriptor: ' + vstr(coll)[:120]))
    fr = result_of(b.elem, F_DEP)
    want = 1 if b.form == 'pipeline' else 2
    if not of_elem(fr, b):
        problems.append(('unproven', 'the value added per element is not the id F yields for that element: ' + vstr(b.elem)[:160]))
    elif fr[1] != want:
        problems.append(('unproven', 'the value added per element takes %d payload level(s) of F\'s result, expected %d' % (fr[1], want)))
    some = False
    for k in b.conds:
        if k.kind == 'variant':
            kr = result_of(k.subject, F_DEP)
            if not of_elem(kr, b):
                problems.append(('unproven' if mentions(prog, k, F_DEP) else 'violated', 'elements are dropped by a condition that is not F\'s own result: %r' % k))
            elif k.enum == 'std::option::Option' and k.outcome == frozenset(['Some']) and kr[1] == 1:
                some = True
            elif kr[1] == 0 and ((k.enum == 'std::ops::ControlFlow' and k.outcome == frozenset(['Continue'])) or (k.enum == 'std::result::Result' and k.outcome == frozenset(['Ok']))):
                pass    # F succeeded; what happens otherwise is decided by errors_fail
            else:
                problems.append(('violated', 'elements are dropped on a test of F\'s result other than "is Ok(None)": %r' % k))
        elif k.kind == 'some':
            r = peel(k.value)
            kr = result_of(r, F_DEP)
            if k.origin and k.origin.endswith('map_while'):
                continue    # (already a truncation problem)
            if is_call(r, '::transpose') and of_elem(kr, b) and kr[1] == 0:
                some = True
            elif any(y[0] == 'call' and y[1] == F_DEP for y in walk(r)) and any(is_call(y, *SWALLOWING) for y in walk(r)):
                problems.append(('violated', 'F\'s error is swallowed: the element is dropped when F fails (%s)' % vstr(r)[:120]))
            else:
                problems.append(('unproven', 'filter_map result is not F(element).transpose(): ' + vstr(r)[:120]))
        else:
            problems.append(('unproven' if mentions(prog, k, F_DEP) else 'violated', 'elements are dropped by a test other than F\'s own result: %r' % k))
    if not some and not any(s == 'violated' for s, _ in problems):
        problems.append(('unproven', 'no "F(element) is Some" condition found although the added value is the Some payload'))
    if of_elem(fr, b):
        if b.form == 'pipeline':
            if sink_short_circuits(b, 'results of F', problems):
                errors_fail(prog, sl, b.sink, 'F (collected results)', problems)
        else:
            errors_fail(prog, sl, call_of(prog, fr[0]), 'F', problems)
    return X, problems


BPID = 'libcnb_data::buildpack::BuildpackId'


def untouched(prog, sl, fns, elem_type, sites, allowed, what, problems, other='unproven'):
    """nothing but the recognised appends modifies the collection (or any vector of its type) in the functions involved"""
    for sev, c in H.modifications(prog, sl, fns, (elem_type,), sites, [a for a in allowed if a is not None]):
        if sev == 'violated':
            problems.append(('violated', 'the %s is modified after it was built: %s at %s' % (what, (c.name or '?').split('::')[-1], c.where())))
        else:
            problems.append((other, 'a vector of the same type as the %s is modified by %s at %s' % (what, (c.name or '?').split('::')[-1], c.where())))


def conclude(rep, subject, where, problems, ok_msg):
    bad = [t for s, t in problems if s == 'violated']
    unp = [t for s, t in problems if s != 'violated']
    if bad:
        rep.violated('R6', subject, where, '; '.join(bad)[:600])
    elif unp:
        rep.unproven('R6', subject, where, '; '.join(unp)[:600])
    else:
        rep.holds('R6', subject, where, ok_msg)


def is_path_in(v, dirv, leaf):
    """v denotes <dirv>/<leaf>"""
    v = core(v)
    return v[0] == 'call' and v[1] == JOIN and len(v[2]) == 2 and canon(peel(v[2][0])) == canon(dirv) and peel(v[2][1]) == ('const', leaf)


def read_from(v, dirv, leaf):
    """v is the success payload of read_toml_file(<dirv>/<leaf>)"""
    c = core(v)
    return c[0] == 'call' and c[1] == READ and len(c[2]) == 1 and is_path_in(c[2][0], dirv, leaf) and v[0] == 'unwrap'


def payload_closure(prog, sl, g):
    """closure g is the body of `r.map(g)` / `r.and_then(g)` (a combinator whose closure runs on the success payload of r and
    whose failure is r's own) in a function T of one parameter (the buildpack directory), and T returns that very
    combinator's result, as is or as the payload of the `Some(..)` results of an Option (T then also decides *whether* the
    directory becomes a node: nodes-total): (T, {closure parameter / captures -> values in T's terms}, payload levels of
    T's result above the node's Result), else None"""
    if g.kind != 'Closure' or g.argc != 2 or g.parent not in prog.fns or not (g.ret == NODE or g.ret.startswith('std::result::Result<' + NODE + ',')):
        return None
    T = prog.fns[g.parent]
    if T.kind == 'Closure' or T.argc != 1:
        return None
    hits = []
    for c in T.calls:
        if not c.indirect and (set(c.names()) & set(H.ERR_KEEPING[:2])) and len(c.args) == 2 and (c.dty or '').startswith('std::result::Result<'):
            clv = peel(sl.operand(T, c.args[1]))
            if clv[0] == 'closure' and clv[1] == g.path:
                hits.append((c, clv))
    if len(hits) != 1:
        return None
    c, clv = hits[0]
    ret = sl.local(T, 0)
    outs = [ret]
    levels_ = 0
    if T.ret.startswith('std::option::Option<'):
        sw = H.some_when(prog, sl, T, {}, ())
        if sw is None:
            return None
        outs = [sl.operand(T, d[3]['ops'][0]) for _, _, d in sw]
        levels_ = 1
    elif not T.ret.startswith('std::result::Result<'):
        return None
    for o in outs:
        o = peel(o)
        while o[0] == 'call' and o[1] in H.ERR_KEEPING[2:] and o[2]:
            o = peel(o[2][0])
        if site_of(o) != (T.path, c.bb):
            return None
    m = {(g.path, 1): ('unwrap', sl.operand(T, c.args[0]))}
    for i, uv in enumerate(clv[2]):
        m[('upvar', g.path, i)] = uv
    return T, m, levels_


def rule6(ctx, rep):
    prog, sl = ctx.prog, ctx.slicer
    rep.rule('R6', 'the graph input is complete: all libcnb dependencies of all LibCnbRs / Composite buildpack directories')
    keep = H.opaque_names(prog, (F_DEP, KIND, DIRS, READ, CG, BG))
    E = Effects(prog, sl, vocab={CG: ('CREATE', 0)})
    P = H.Payloads(prog, sl, keep)
    w = lambda f: '%s:%d' % (f.file, f.line)
    # ---- trait-impl -------------------------------------------------------------------------------------------------
    for meth, field in (('dependencies', 'dependencies'), ('id', 'buildpack_id')):
        fs = prog.find(r'^<%s as libcnb_package::dependency_graph::DependencyNode<.*>>::%s$' % (re.escape(NODE), meth))
        if len(fs) != 1:
            rep.unproven('R6', 'trait-impl/' + meth, '-', '%d implementations of DependencyNode::%s for the graph node' % (len(fs), meth))
            continue
        f = fs[0]
        rep.analysed(f)
        v = H.reduce(sl, sl.local(f, 0), keep)
        if meth == 'dependencies':
            v = sl.mk_unwrap(v, 1)
        me = ('param', f.path, 0)
        direct = lambda x: peel(x)[0] == 'field' and peel(x)[2] == field and peel(peel(x)[1])[:3] == me
        ok = direct(v)
        if not ok and peel(v)[0] == 'call':
            al = iters.alts(sl, v)
            ok = len(al) == 1 and al[0][1] is not None and not al[0][2] and direct(al[0][1]) and canon(peel(al[0][0])) == canon(iters.elem_of(al[0][1])) and H.in_order(peel(v))
        probs = [] if ok else [('violated', 'DependencyNode::%s does not return the node\'s `%s` field: %s' % (meth, field, vstr(v)[:160]))]
        untouched(prog, sl, [f], BPID, set(), [], 'returned list', probs, 'violated')
        conclude(rep, 'trait-impl/' + meth, w(f), probs, 'DependencyNode::%s returns the node\'s `%s`' % (meth, field))
    # ---- the node constructor --------------------------------------------------------------------------------------
    ctors = []
    for g in prog.fns.values():
        if g.crate != 'libcnb_package':
            continue
        for bi, blk in enumerate(g.blocks):
            for s in blk['s']:
                if s[0] == '=' and s[2]['r'] == 'agg' and s[2].get('adt') == NODE:
                    ctors.append((g, bi, s[2]))
    builders, inline_nodes, builder_levels, builder_ctor = [], [], {}, {}
    if not ctors:
        rep.unproven('R6', 'node-dependencies', '-', 'no construction of BuildpackDependencyGraphNode found')
    for n, (g, bi, rv) in enumerate(ctors):
        sfx = '' if len(ctors) == 1 else '#%d' % n
        rep.analysed(g)
        ops = dict(zip(rv.get('fields') or (), rv.get('ops') or ()))
        # a function of the buildpack directory: a function with that one parameter, the closure of an element-wise stage (its
        # one argument besides the captured environment), or the body of a loop (helpers inlined: the loop's element)
        inline = [L for L in H.nat_loops(g) if bi in L.body and bi != L.header and L.next_call.dest and len(L.next_call.dest) == 1]
        dir_local = 2 if g.kind == 'Closure' else 1
        wrapped = None if inline else payload_closure(prog, sl, g)
        if 'dependencies' not in ops or 'buildpack_id' not in ops or (not inline and wrapped is None and g.argc != dir_local):
            rep.unproven('R6', 'node-dependencies' + sfx, w(g), 'the node is built in %s, not in a function of the buildpack directory' % g.path)
            continue
        field_alts = lambda name: P.of_operand(g, ops[name])
        if inline:
            L = min(inline, key=lambda L: len(L.body))
            dirv = peel(sl.mk_unwrap(sl.local(g, L.next_call.dest[0]), 1))     # (comparisons are on peeled values)
            inline_nodes.append((g, bi, dirv, L))
        elif wrapped is not None:
            # round 5: `helper(dir).map(|parts| Node { .. })` inside a function T of the directory — the closure's parameter is
            # the success payload of its receiver, its captures are T's values: the fields in T's terms
            T, mclos, levels_ = wrapped
            builders.append(T)
            builder_levels[T.path] = levels_
            builder_ctor[T.path] = g
            dirv = ('param', T.path, 0, T.local_name(1))
            field_alts = lambda name, T=T, mclos=mclos: P.of_value(T, subst(sl.operand(g, ops[name]), mclos, sl), {}, ())
        else:
            builders.append(g)
            # (a builder that also decides whether the directory becomes a node at all: Option<Result<Node>> / Result<Option<Node>>)
            builder_levels[g.path] = 1 if g.kind != 'Closure' and g.ret.startswith(('std::option::Option<std::result::Result<', 'std::result::Result<std::option::Option<')) else 0
            dirv = ('param', g.path, dir_local - 1, g.local_name(dir_local))
        # buildpack_id
        alts = field_alts('buildpack_id')
        probs = []
        for a in alts:
            v = core(H.reduce(sl, a.value, keep))
            okv = v[0] == 'field' and v[2] == 'id' and core(v[1])[0] == 'call' and re.search(r'BuildpackDescriptor(::)?(<.*>)?::buildpack$', core(v[1])[1] or '') \
                and len(core(v[1])[2]) == 1 and read_from(peel_refs(core(v[1])[2][0]), dirv, 'buildpack.toml')
            if not okv:
                probs.append(('violated' if not any(y[0] == 'call' and y[1] == READ for y in walk(v)) else 'unproven',
                              '`buildpack_id` is not the id of the descriptor read from <dir>/buildpack.toml: ' + vstr(v)[:160]))
        if not alts:
            probs.append(('unproven', 'no value for `buildpack_id`'))
        conclude(rep, 'node-id' + sfx, w(g), probs, 'buildpack_id = id read from <dir>/buildpack.toml')
        # path: the directory the node was built for (it is what gets packaged, and what the current directory is compared with)
        if 'path' in ops:
            probs = []
            for a in field_alts('path'):
                v = peel(H.reduce(sl, a.value, keep))
                for _ in range(8):
                    if v[0] == 'call' and len(v[2]) == 1 and v[1].endswith(PATH_SAME):
                        v = peel(v[2][0])
                if v[:3] == dirv[:3]:
                    continue
                off = v[0] == 'call' and v[1] == JOIN or not any(y[:3] == dirv[:3] for y in walk(v))
                probs.append(('violated' if off else 'unproven', '`path` is not the buildpack directory the node was built for: ' + vstr(v)[:160]))
            conclude(rep, 'node-path' + sfx, w(g), probs, 'path = the buildpack directory')
        # dependencies
        alts = field_alts('dependencies')
        nprobs, dprobs, built = [], [], 0
        sites, pushes = set(P.sites), []
        for a in alts:
            b = H.build_of(prog, sl, E, a, keep)
            sites |= b.sites
            pushes.append(b.push)
            if b.kind == 'empty':
                absent = [gv for oc, gv in a.guards if oc is False and core(gv)[0] == 'call' and core(gv)[1] == IS_FILE and core(gv)[2] and is_path_in(core(gv)[2][0], dirv, 'package.toml')]
                if not absent:
                    nprobs.append(('violated', 'the node gets an empty dependency list on a path that is not guarded by "<dir>/package.toml is not a file" (decisions: %s)'
                                   % (', '.join('%s %s' % (oc, vstr(gv)[:60]) for oc, gv in a.guards) or 'none')))
            elif b.kind == 'built':
                built += 1
                X, ps = dependencies_total(prog, sl, b)
                dprobs.extend(ps)
                if X is not None and not read_from(peel_refs(X), dirv, 'package.toml'):
                    nprobs.append(('unproven', 'the dependencies are not those of the descriptor read from <dir>/package.toml: ' + vstr(X)[:160]))
                if b.frame is not None:
                    rep.analysed(b.frame)
            else:
                nprobs.extend(b.problems or [('unproven', 'unrecognised value for `dependencies`')])
        if not built and not nprobs:
            nprobs.append(('violated', 'the node\'s dependency list is never computed from package.toml'))
        untouched(prog, sl, [g] + ([wrapped[0]] if wrapped is not None else []), BPID, sites, pushes, 'dependency list', nprobs)
        untouched(prog, sl, [h for h in P.frames.values() if h is not g and not (wrapped is not None and h is wrapped[0])], BPID, sites, pushes, 'dependency list', dprobs if built else nprobs)
        conclude(rep, 'node-dependencies' + sfx, w(g), nprobs, 'dependencies = libcnb dependency ids of <dir>/package.toml; empty only when that file does not exist')
        if built:
            conclude(rep, 'dependencies-total' + sfx, w(g), dprobs, 'every dependency of the package descriptor is handed to buildpack_id_from_libcnb_dependency; only Ok(None) is dropped; errors propagate')
        else:
            rep.unproven('R6', 'dependencies-total' + sfx, w(g), 'no computed dependency list to decide')
    # ---- nodes-total -------------------------------------------------------------------------------------------------
    bg = prog.fn(BG)
    rep.analysed(bg)
    keep = keep | frozenset(nb.path for nb in builders)     # the node constructor is one entity here
    P = H.Payloads(prog, sl, keep)
    seen, creates = set(), []
    for e in E.expand(bg, 'may'):
        if e.kind == 'CREATE' and e.call is not None and e.args and (e.call.fn.path, e.call.bb) not in seen:
            seen.add((e.call.fn.path, e.call.bb))
            creates.append(e)
    if not creates:
        rep.unproven('R6', 'nodes-total', w(bg), 'create_dependency_graph is not reached from build_libcnb_buildpacks_dependency_graph')
    for n, e in enumerate(creates):
        sfx = '' if len(creates) == 1 else '#%d' % n
        probs = []
        alts = P.of_value(bg, e.args[0], {}, ())
        sites, pushes = set(P.sites), []
        for a in alts:
            if a.guards:
                probs.append(('unproven', 'the node list depends on decisions: %s' % ', '.join('%s %s' % (oc, vstr(gv)[:60]) for oc, gv in a.guards)))
            b = H.build_of(prog, sl, E, a, keep)
            sites |= b.sites
            pushes.append(b.push)
            if b.kind == 'empty':
                probs.append(('violated', 'create_dependency_graph receives an empty node list'))
                continue
            if b.kind != 'built':
                probs.extend(b.problems or [('unproven', 'unrecognised node list')])
                continue
            probs.extend(b.problems)
            coll = core(b.coll)
            if not (coll[0] == 'call' and coll[1] == DIRS and coll[2] and peel(coll[2][0])[:3] == ('param', bg.path, 0)):
                probs.append(('unproven', 'the iterated collection is not find_buildpack_dirs(<workspace root>): ' + vstr(coll)[:120]))
            fr = None
            for nb in builders:
                fr = fr or result_of(b.elem, nb.path)
            want = (0 if b.form == 'pipeline' else 1) + (builder_levels.get(fr[0][1], 0) if fr is not None else 0)
            # helpers inlined: the node is constructed in the body of the very loop that pushes it — it is the node of that
            # loop's element (what it is made of is decided by node-id / node-path / node-dependencies on that element)
            inl = [x for x in inline_nodes if x[0] is b.frame]
            inlined = fr is None and b.form == 'loop' and b.push is not None and bool(inl) and peel(b.elem)[0] == 'agg' and peel(b.elem)[1] == NODE \
                and all(b.push.bb in x[3].body for x in inl) and len({x[3].header for x in inl}) == 1 \
                and not any(b.push.bb in L2.body and len(L2.body) < len(inl[0][3].body) for L2 in H.nat_loops(b.frame))
            if inlined:
                fr = None
            elif not of_elem(fr, b) or fr[1] != want:
                probs.append(('unproven', 'the value added per directory is not the node built for that directory: ' + vstr(b.elem)[:160]))
                fr = None
            kinds = None
            conds = []
            for k in b.conds:
                # round 5: the builder itself says "no node for this directory" by returning None (filter + map fused into
                # filter_map): the decisions under which it returns Some(..) are the per-directory conditions
                kb, T = None, None
                if fr is not None and builder_levels.get(fr[0][1]) and fr[0][1] in prog.fns and prog.fns[fr[0][1]].kind != 'Closure':
                    T = prog.fns[fr[0][1]]
                    own = 1 if T.ret.startswith('std::result::Result<') else 0      # Result<Option<Node>>: the Option is the payload
                    if k.kind == 'some':
                        # filter_map(T) / filter_map(|d| T(d).transpose()): the element is kept when T's Option is Some
                        kb = result_of(peel(k.value), T.path)
                        kb = kb if (kb is not None and kb[1] == 0 and (own == 0 or any(is_call(y, '::transpose') for y in walk(peel(k.value))))) else None
                    elif k.kind == 'variant' and k.enum == 'std::option::Option' and k.outcome == frozenset(['Some']):
                        # `if let Some(node) = T(d)?` / `let Some(r) = T(d) else { continue }`
                        kb = result_of(k.subject, T.path)
                        kb = kb if (kb is not None and kb[1] == own) else None
                if kb is not None and of_elem(kb, b):
                    sw = H.some_when(prog, sl, T, {(T.path, 0): b.x}, keep - {T.path})
                    ks = H.merge_alternatives([(x[0], x[1]) for x in sw], T.path, None) if sw else None
                    if ks is None:
                        probs.append(('unproven', 'when %s returns Some(..) is not a set of plain decisions' % T.path))
                    else:
                        conds.extend(H.Keep(x.kind, x.outcome, H.reduce(sl, x.subject, keep) if x.subject is not None else None, x.enum,
                                            H.reduce(sl, x.value, keep) if x.value is not None else None, x.origin, x.total) for x in ks)
                else:
                    conds.append(k)
            for k in conds:
                kr = result_of(k.subject, KIND) if k.kind == 'variant' else None
                nr = result_of(k.subject, fr[0][1]) if (k.kind == 'variant' and fr is not None) else None
                if of_elem(kr, b) and k.enum == 'std::option::Option' and k.outcome == frozenset(['Some']) and kr[1] == 0:
                    pass
                elif of_elem(kr, b) and kr[1] == 1 and (k.enum or '').endswith('BuildpackKind'):
                    kinds = k.outcome if kinds is None else (kinds & k.outcome)
                    if not k.total:
                        probs.append(('unproven', 'the kind test is necessary for keeping a directory but not shown to be sufficient (%s)' % k.origin))
                elif of_elem(nr, b) and nr[1] == 0 and ((k.enum == 'std::ops::ControlFlow' and k.outcome == frozenset(['Continue'])) or (k.enum == 'std::result::Result' and k.outcome == frozenset(['Ok']))):
                    pass
                elif k.kind == 'variant' and k.enum == 'std::ops::ControlFlow' and k.outcome == frozenset(['Continue']) and fallible_source(k.subject) is not None:
                    # a `?` inside the body is not a selection of directories: the step failed, and so must the caller
                    errors_fail(prog, sl, call_of(prog, fallible_source(k.subject)), 'a step of the node construction', probs)
                elif mentions(prog, k, KIND):
                    probs.append(('unproven', 'a test involving determine_buildpack_kind that is not a plain variant decision on its result: %r' % k))
                else:
                    probs.append(('violated', 'directories are dropped by a condition that is not their buildpack kind: %r' % k))
            if kinds is None:
                if not any(s == 'violated' for s, _ in probs):
                    probs.append(('unproven', 'no decision on the buildpack kind of a directory found'))
            elif not GRAPH_KINDS <= kinds:
                probs.append(('violated', 'directories of kind %s do not become nodes (kept kinds: %s)' % ('|'.join(sorted(GRAPH_KINDS - kinds)), '|'.join(sorted(kinds)))))
            elif kinds != GRAPH_KINDS:
                probs.append(('unproven', 'directories of other kinds become nodes as well: %s' % '|'.join(sorted(kinds - GRAPH_KINDS))))
            if fr is not None:
                if b.form == 'pipeline':
                    if sink_short_circuits(b, 'results of node construction', probs):
                        errors_fail(prog, sl, b.sink, 'node construction (collected results)', probs)
                else:
                    errors_fail(prog, sl, call_of(prog, fr[0]), 'node construction', probs)
        if not alts:
            probs.append(('unproven', 'no value for the node list'))
        untouched(prog, sl, [bg, e.call.fn] + list(P.frames.values()), NODE, sites, pushes + [e.call], 'node list', probs)
        conclude(rep, 'nodes-total' + sfx, e.where(), probs, 'every LibCnbRs / Composite directory of find_buildpack_dirs becomes a node of the graph; node errors propagate')


class SubReport:
    """reports of an obligation stated by another module, under this property's rule / subject names"""

    def __init__(self, rep, rule, prefix):
        self._rep, self._rule, self._prefix = rep, rule, prefix

    def rule(self, rule, doc):
        pass

    def floor(self, rule, name, measured):
        pass

    def holds(self, rule, subject, where, msg, detail=None, nontrivial=True):
        self._rep.holds(self._rule, self._prefix + subject, where, msg, detail, nontrivial)

    def violated(self, rule, subject, where, msg, detail=None):
        self._rep.violated(self._rule, self._prefix + subject, where, msg, detail)

    def unproven(self, rule, subject, where, msg, detail=None):
        self._rep.unproven(self._rule, self._prefix + subject, where, msg, detail)

    def check(self, cond, rule, subject, where, ok_msg, bad_msg, detail=None):
        (self.holds if cond else self.violated)(rule, subject, where, ok_msg if cond else bad_msg, detail)
        return cond

    def __getattr__(self, name):
        return getattr(self._rep, name)


def graph_sources(ctx, rep):
    """R6 (continued): the three functions the graph's input is read through — they are opaque anchors in the Build normal
    forms above, so what they return is decided here:
      discovery/walk            find_buildpack_dirs = every directory with a buildpack.toml found by an ignore-file honouring
                                walk below the start directory (no depth limit, no truncation, no further per-entry test);
      discovery/workspace-root  the start directory is cargo's workspace root for the invocation directory
                                — the obligations C15 states on the same functions (C15_helpers.rules_discovery),
                                reported here under C13 keys
      kind/*                    determine_buildpack_kind(<dir>), for the descriptor read from <dir>/buildpack.toml:
                                Composite <=> composite descriptor; LibCnbRs <=> component descriptor and <dir>/Cargo.toml
                                exists; Other <=> component descriptor and no Cargo.toml (nothing else decides; whether the
                                descriptor could be read at all is the `Option`)
      dependency-id             buildpack_id_from_libcnb_dependency(d) = Ok(Some(parse(path of d.uri)?)) exactly when the
                                scheme is present and equals "libcnb", Ok(None) otherwise; a parse failure is Err"""
    prog, sl = ctx.prog, ctx.slicer
    from . import C15_helpers as H15
    for fn_, prefix in ((H15.rules_discovery, 'discovery/'), (buildpack_kind, 'kind/')):
        try:
            fn_(ctx, SubReport(rep, 'R6', prefix))
        except Exception as ex:     # (fail closed)
            rep.unproven('R6', prefix + 'analysis', '-', 'the analysis did not complete: %r' % (ex,))
    try:
        dependency_id(ctx, rep)
    except Exception as ex:
        rep.unproven('R6', 'dependency-id', '-', 'the analysis did not complete: %r' % (ex,))


STAT = ('std::path::Path::is_file', 'std::path::Path::exists', 'std::path::Path::try_exists')


def all_closures(prog, f):
    out = []
    for c in prog.closures_of(f):
        out.append(c)
        out.extend(all_closures(prog, c))
    return out


def buildpack_kind(ctx, rep):
    """decision table of determine_buildpack_kind from the branch decisions that dominate every construction of a BuildpackKind
    value (match arms, guards, if/else, closures of Option::map alike)"""
    from .lib.guards import conditions_ctx
    prog, sl = ctx.prog, ctx.slicer
    kf = prog.fn(KIND)
    rep.analysed(kf)
    where = '%s:%d' % (kf.file, kf.line)
    dirv = ('param', kf.path, 0, kf.local_name(1))
    fns = [kf] + all_closures(prog, kf)
    reads = [c for g in fns for c in g.calls if c.name == READ and c.args and is_path_in(sl.operand(g, c.args[0]), dirv, 'buildpack.toml')]
    table = {}
    for g in fns:
        for bi, b in enumerate(g.blocks):
            for st in b['s']:
                if not (st[0] == '=' and st[2]['r'] == 'agg' and str(st[2].get('adt', '')).endswith('BuildpackKind')):
                    continue
                desc, cargo, extra = None, [], []
                for cd in conditions_ctx(prog, g, bi, sl):
                    if cd.kind == 'variant' and (cd.enum or '').startswith(('std::result::Result', 'std::option::Option', 'std::ops::ControlFlow')):
                        continue        # (the descriptor could be read)
                    if cd.kind == 'variant' and (cd.enum or '').endswith('BuildpackDescriptor'):
                        desc = set(cd.outcome) if desc is None else (desc & set(cd.outcome))
                        continue
                    hit = False
                    if cd.kind == 'bool':
                        for v, oc in cd.views():
                            v = peel(v)
                            while v[0] == 'un' and v[1] == 'Not':
                                v, oc = peel(v[2]), (not oc) if isinstance(oc, bool) else oc
                            if v[0] == 'call' and v[1] in STAT and v[2] and is_path_in(v[2][0], dirv, 'Cargo.toml') and isinstance(oc, bool):
                                cargo.append(oc)
                                hit = True
                                break
                    if not hit:
                        extra.append(vstr(cd.subject if cd.subject is not None else cd.value)[:80])
                table.setdefault(st[2].get('variant'), []).append((desc, cargo, extra))
    show_ = lambda rows: '; '.join('descriptor=%s Cargo.toml=%s other=%s' % (sorted(d) if d else 'any', c, x) for d, c, x in rows) or 'never constructed'
    want = {'Composite': ({'Composite'}, []), 'LibCnbRs': ({'Component'}, [True]), 'Other': ({'Component'}, [False])}
    text = {'Composite': 'Composite <=> composite descriptor', 'LibCnbRs': 'LibCnbRs <=> component descriptor and <dir>/Cargo.toml exists',
            'Other': 'Other <=> component descriptor without <dir>/Cargo.toml'}
    for k, (d, c) in want.items():
        rows = table.get(k, [])
        ok = bool(rows) and bool(reads) and all(rd == d and rc == c and not rx for rd, rc, rx in rows)
        rep.check(ok, 'R6', k.lower(), where, text[k], 'determine_buildpack_kind yields %s under other conditions than "%s" (a buildpack directory of the workspace is then missing from, or wrongly part of, the graph): %s'
                  % (k, text[k], show_(rows) if reads else 'the descriptor is not read from <dir>/buildpack.toml'))
    for k in table:
        if k not in want:
            rep.unproven('R6', 'kind-' + str(k), where, 'a buildpack kind the graph rules do not know')


def dependency_id(ctx, rep):
    """case analysis of buildpack_id_from_libcnb_dependency (C14_helpers.Cases: combinator chains, `?`, early returns and
    match arms give the same (conditions, result shape) table)"""
    prog, sl = ctx.prog, ctx.slicer
    from .C14_helpers import Cases, POS, NEG, shape_sig, mentions as sh_mentions
    from .C14 import atoms_values, is_param, show
    from .lib.paths import strip
    idf = prog.fn(F_DEP)
    rep.analysed(idf)
    ics = Cases(prog, sl, idf).fn_cases(idf)
    is_uri = lambda x: strip(x)[0] == 'field' and strip(x)[2] == 'uri' and is_param(strip(x)[1], idf, 0)
    schemes = {canon(x) for x in atoms_values(ics) if x[0] == 'call' and x[1].endswith('::scheme') and len(x[2]) == 1 and is_uri(x[2][0])}
    parses = {canon(x) for x in atoms_values(ics) if x[0] == 'call' and x[1].endswith('::parse') and len(x[2]) == 1 and strip(x[2][0])[0] == 'call' and
              strip(x[2][0])[1].endswith('::path') and is_uri(strip(x[2][0])[2][0])}
    sch = next(iter(schemes)) if len(schemes) == 1 else None
    prs = next(iter(parses)) if len(parses) == 1 else None

    def lt(a):
        if a == ('is', sch, POS):
            return 1
        if a[0] == 'bool' and a[2] is True and a[1][0] == 'eq':
            x, y = a[1][1], a[1][2]
            if x == ('const', 'libcnb'):
                x, y = y, x
            if y == ('const', 'libcnb') and x[0] == 'call' and x[1].endswith('::as_str') and len(x[2]) == 1 and x[2][0] == ('unwrap', sch):
                return 2
        return 0
    is_libcnb = lambda atoms: {lt(a) for a in atoms} >= {1, 2}
    not_libcnb = lambda atoms: any(a == ('is', sch, NEG) or (a[0] == 'bool' and lt((a[0], a[1], True)) == 2 and a[2] is False) or
                                   (a[0] == 'nall' and a[1] and all(lt(x) for x in a[1])) for a in atoms)
    kinds = {'some': [], 'none': [], 'err': [], 'other': []}
    for atoms, sh in ics:
        sig = shape_sig(sh)
        if sig == 'Ok(Some(_))':
            kinds['some'].append(is_libcnb(atoms) and canon(sh[1][1][1]) == ('unwrap', prs))
        elif sig == 'Ok(None)':
            kinds['none'].append(not_libcnb(atoms))
        elif sh[0] == 'Err':
            kinds['err'].append(is_libcnb(atoms) and sh_mentions(sh, ('unwrap_err', prs)))
        else:
            kinds['other'].append(False)
    w = '%s:%d' % (idf.file, idf.line)
    dropped = sch is not None and kinds['none'] and not all(kinds['none'])
    lost_err = prs is not None and not kinds['err']
    ok = sch is not None and prs is not None and not kinds['other'] and all(kinds[k] and all(kinds[k]) for k in ('some', 'none', 'err'))
    if ok:
        rep.holds('R6', 'dependency-id', w, 'scheme present and == "libcnb" => Ok(Some(path.parse()?)); otherwise Ok(None)')
    elif dropped or lost_err:
        rep.violated('R6', 'dependency-id', w, 'a `libcnb:` dependency can come out as Ok(None) (it is then silently left out of the graph) or its invalid id is not an error: ' + show(ics)[:400])
    else:
        rep.unproven('R6', 'dependency-id', w, 'the id of a libcnb dependency is not recognised as "scheme == libcnb => Ok(Some(parse(path)?)), else Ok(None)": ' + show(ics)[:400])


def peel_refs(v):
    while v[0] == 'updated':
        v = v[1]
    return v
