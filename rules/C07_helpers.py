"""Helpers of C07.

R4 (or-group queue discipline) is stated on an *abstract queue* rather than on `VecDeque<(Vec, Vec)>`:

  open group       the two places of the builder provides() / requires() append to, as field paths from self, read from the
                   adders themselves (`current_slots`): two private lists, or the components of one private record / pair
                   (`current: Or`, `current: (Vec, Vec)`)
  queue            the field of BuildPlanBuilder that holds neither of them (whatever its container type: VecDeque or
                   Vec) — `queue_names`, `is_queue`
  queue effects    VecDeque::push_back / Vec::push on the queue = append at the BACK; push_front / insert = FRONT insert;
                   pop_front / Vec::remove(0) = take from the FRONT; pop_back / Vec::pop / swap_remove / remove(i>0) = take
                   out of order.  Vec operations count only when their (substituted) receiver is the queue — `queue_effects`
  group record     what is appended: a two-component record carrying exactly the two open-group places — the tuple
                   `(p, r)` (components '0' / '1') or the struct `Or { provides: p, requires: r }` (components 'provides' /
                   'requires'), each directly or through mem::take / mem::replace, or the private record / pair that holds
                   both of them as a whole — `group_shape`, `roles`
  consumption      top level <- front.<provides component> / front.<requires component>; every remaining element e, in
                   order, becomes Or{provides <- e.<provides component>, requires <- e.<requires component>}; when the queue
                   already holds `Or` records under the components 'provides' / 'requires', handing the remaining elements
                   through unchanged (collect) is that mapping.

R6 (builders) is stated on *slots*: the private place build() reads each field of the built record from (`state_slots`,
`read_slots`: an embedded record, one private field per slot, a nested group, private names, an Option read with a
fallback = lazy slot, an element-wise copy = the list itself).  Adders / setters / new() are checked against those very
places (`on_slot`), so the private layout is free but a method that changes state build() never reads is not an adder.
Record literals are read with the field stores made after they were built applied (`fold_updates`: only unconditional,
single stores; anything else is undecided -> UNPROVEN, never the stale literal value).

R5: `owners` attributes a call site inside private helpers to the public functions they are reachable from; `fd_effects`
reads the raw file descriptors opened on the paths of a function through helpers (interprocedural effects).
"""
from .lib import iters
from .lib.effects import Effects
from .lib.paths import strip
from .lib.value import walk

BUILDER = 'libcnb_data::build_plan::BuildPlanBuilder'
PLAN = 'libcnb_data::build_plan::BuildPlan'
OR = 'libcnb_data::build_plan::Or'
CURRENT = ('current_provides', 'current_requires')

QV = {
    'std::collections::VecDeque::<T, A>::push_back': ('QPUSH_BACK', 1),
    'std::collections::VecDeque::<T, A>::push_front': ('QPUSH_FRONT', 1),
    'std::collections::VecDeque::<T, A>::pop_front': ('QPOP_FRONT', 0),
    'std::collections::VecDeque::<T, A>::pop_back': ('QPOP_BACK', 0),
    'std::collections::VecDeque::<T, A>::insert': ('QPUSH_FRONT', 1),
    # a Vec used as the queue: only when the receiver is the queue (see queue_effects)
    'std::vec::Vec::<T, A>::push': ('VEC:QPUSH_BACK', 1),
    'std::vec::Vec::<T, A>::insert': ('VEC:QPUSH_FRONT', 1),
    'std::vec::Vec::<T, A>::pop': ('VEC:QPOP_BACK', 0),
    'std::vec::Vec::<T, A>::swap_remove': ('VEC:QPOP_BACK', 0),
    'std::vec::Vec::<T, A>::remove': ('VEC:REMOVE', 0),
}
# order-changing / element-dropping operations that must not occur on the way from the queue to the written groups
REORDER = ('rev', 'reverse', 'sort', 'sort_by', 'sort_by_key', 'filter', 'filter_map', 'skip', 'take', 'step_by', 'dedup',
           'rotate_left', 'rotate_right', 'swap', 'make_contiguous', 'next_back', 'nth_back', 'skip_while', 'take_while',
           'map_while')


def _fields(prog, adt):
    a = prog.adts.get(adt)
    if not a or not a.get('variants'):
        return []
    return a['variants'][0]['fields']


# the two "current group" places of the builder, as field paths from self: where provides() / requires() append
# (current_slots).  By default the two private lists of the present layout; a builder that keeps the open group as one
# record (`current: Or`) has (('current', 'provides'), ('current', 'requires')).
SLOTS = {'P': ('current_provides',), 'R': ('current_requires',)}


def current_slots(prog, sl):
    """(P, R) read from the adders themselves: the place of the one unconditional push of provides() / requires(); the
    present names when an adder has no such push (R6/BuildPlanBuilder/<adder> reports that)"""
    out = []
    for m, dflt in (('provides', ('current_provides',)), ('requires', ('current_requires',))):
        f = prog.fns.get(BUILDER + '::' + m)
        got = None
        if f is not None:
            S = Summary(prog, sl, f)
            mp = [e for e in S.on_self(S.must) if e.kind == 'ACC:PUSH' and e.forall is None]
            if len(mp) == 1:
                got = tuple(fpath(mp[0].args[0])[1])
        out.append(got or dflt)
    if out[0] == out[1]:
        return ('current_provides',), ('current_requires',)
    return out[0], out[1]


def _current_heads():
    return {SLOTS['P'][0], SLOTS['R'][0]}


def queue_names(prog):
    ns = {f['name'] for f in _fields(prog, BUILDER) if f['name'] not in _current_heads()}
    return ns or {'acc'}


def queue_holds_or(prog):
    """the queue's element type is the written struct `Or` itself"""
    tys = [f['ty'] for f in _fields(prog, BUILDER) if f['name'] not in _current_heads()]
    return bool(tys) and all(t.endswith('<' + OR + '>') for t in tys)


def _root(v):
    v = strip(v)
    while v[0] == 'field':
        v = strip(v[1])
    return v


def is_queue(prog, v):
    """v denotes the builder's queue field (of self, or of the builder returned by another builder method)"""
    v = strip(v)
    if v[0] == 'call' and v[1].endswith(('::into_iter', '::iter', '::iter_mut', '::drain')) and v[2]:
        v = strip(v[2][0])
    if v[0] != 'field' or v[2] not in queue_names(prog):
        return False
    if v[2] not in {f['name'] for f in _fields(prog, PLAN)}:
        return True
    r = _root(v)
    return (r[0] == 'param' and r[1].startswith(BUILDER + '::')) or (r[0] == 'call' and r[1].startswith(BUILDER + '::'))


def queue_effects(E, prog, fn, mode):
    """queue effects of fn with Vec operations on the queue renamed to the abstract kinds (others dropped)"""
    out = []
    for e in E.expand(fn, mode):
        if not e.kind.startswith('VEC:'):
            out.append(e)
            continue
        if not e.args or not is_queue(prog, e.args[0]):
            continue
        k = e.kind[4:]
        if k == 'REMOVE':
            k = 'QPOP_FRONT' if len(e.args) > 1 and strip(e.args[1]) == ('const', 0) else 'QPOP_BACK'
        e.kind = k
        out.append(e)
    return out


def _components(v):
    v = strip(v)
    if v[0] == 'tuple':
        return [(str(i), x) for i, x in enumerate(v[1])]
    if v[0] == 'agg' and v[1] == OR:
        return list(v[3])
    return None


def _self_place(x):
    """field path from the builder (parameter 0) that x denotes — directly or moved out with mem::take / mem::replace"""
    x = strip(x)
    if x[0] == 'call' and x[1] in ('std::mem::take', 'std::mem::replace') and x[2]:
        x = strip(x[2][0])
    names = []
    while x[0] == 'field':
        names.append(x[2])
        x = strip(x[1])
    if x[0] == 'param' and x[2] == 0 and names:
        return tuple(names[::-1])
    return None


def group_shape(v):
    """{component name: builder place carried} of an appended group record, None when v is not such a record: a tuple /
    an Or literal of the two current places, or the record place that holds both of them (`self.current`)"""
    comps = _components(v)
    if comps is None:
        whole = _self_place(v)
        if whole is None:
            return None
        return {s_[-1]: s_ for s_ in (SLOTS['P'], SLOTS['R']) if s_[:-1] == whole} or None
    if len(comps) != 2:
        return None
    return {name: _self_place(x) for name, x in comps}


def roles(shape):
    """(component holding the current provides, component holding the current requires) or (None, None)"""
    if not shape or len(shape) != 2 or set(shape.values()) != {SLOTS['P'], SLOTS['R']}:
        return None, None
    inv = {v: k for k, v in shape.items()}
    return inv[SLOTS['P']], inv[SLOTS['R']]


def all_taken(v):
    comps = _components(v)
    if comps is None:
        v = strip(v)
        return v[0] == 'call' and v[1] == 'std::mem::take' and _self_place(v) is not None
    return bool(comps) and all(strip(x)[0] == 'call' and strip(x)[1] == 'std::mem::take' for _, x in comps)


def r4(prog, sl, rep):
    # Queue discipline, stated over interprocedural MUST / MAY effects so that helper extraction does not matter:
    #   or():    on every path pushes the group record of (current_provides, current_requires) at the BACK and leaves
    #            both lists empty
    #   build(): on every path first closes the current group the same way (also when it is empty), then takes the
    #            FRONT as the top-level group; nothing is ever pushed at the front or popped from the back
    SLOTS['P'], SLOTS['R'] = current_slots(prog, sl)
    E = Effects(prog, sl, vocab=QV)
    orf = prog.fn(BUILDER + '::or')
    bf = prog.fn(BUILDER + '::build')
    rep.analysed(orf)
    rep.analysed(bf)
    qnames = queue_names(prog)

    def resets_ok(e):
        """both current lists are empty after the push: assigned Vec::new()/default in the pushing function, or taken"""
        f = e.call.fn
        if all_taken(sl.operand(f, e.call.args[1])):
            return True
        got = set()
        for key, defs in f.defs().items():
            if isinstance(key, tuple):
                for d in defs:
                    if d[0] == 'stmt':
                        fld = tuple(p_.lstrip('.') for p_ in d[4][1:] if p_ != '*')
                        val = strip(sl._rvalue(f, d[3], set(), 0, None))
                        if not fld or not f.dominates(e.call.bb, d[1]):
                            continue
                        if val[0] == 'call' and val[1] in ('std::vec::Vec::<T>::new', 'std::default::Default::default'):
                            got.add(fld)
                        elif (val[0] == 'agg' and val[3] and all(is_empty_value(x) for _, x in val[3])) or (val[0] == 'tuple' and val[1] and all(is_empty_value(x) for x in val[1])):
                            # the record / pair that holds both current lists is replaced by an all-empty one
                            got.add(fld)
        return all(any(s_[:len(g)] == g for g in got) for s_ in (SLOTS['P'], SLOTS['R']))

    om = [e for e in queue_effects(E, prog, orf, 'must') if e.kind == 'QPUSH_BACK']
    pc, rc = roles(group_shape(om[0].path)) if len(om) == 1 else (None, None)
    ok = len(om) == 1 and pc is not None
    rep.check(ok, 'R4', 'or/push_back', '%s:%d' % (orf.file, orf.line), 'or() always appends (current_provides, current_requires) at the back',
              'or() does not unconditionally push (current_provides, current_requires) at the back of the queue')
    rep.check(ok and resets_ok(om[0]), 'R4', 'or/reset', '%s:%d' % (orf.file, orf.line), 'both current lists are left empty', 'or() does not reset both current lists')
    bm = queue_effects(E, prog, bf, 'must')
    bmay = queue_effects(E, prog, bf, 'may')
    closes = [e for e in bm if e.kind == 'QPUSH_BACK']
    order = [id(e) for e in bm]
    # the close pushes the record of the *current* lists (in build()'s own terms), with the same component roles
    ok = len(closes) == 1 and pc is not None and roles(group_shape(closes[0].path)) == (pc, rc)
    if ok:
        mp = [e for e in bm if e.kind == 'QPOP_FRONT']
        if mp:
            ok = order.index(id(closes[0])) < order.index(id(mp[0]))
        else:
            # front taken through queue.into_iter().next(): the conversion must happen after the close
            conv = [c for c in bf.calls if c.decl == 'std::iter::IntoIterator::into_iter' and strip(sl.operand(bf, c.args[0]))[0] == 'field'
                    and strip(sl.operand(bf, c.args[0]))[2] in qnames]
            top_close = closes[0].chain[0] if closes[0].chain else closes[0].call
            ok = len(conv) == 1 and bf.dominates(top_close.bb, conv[0].bb)
    rep.check(ok, 'R4', 'build/head', '%s:%d' % (bf.file, bf.line), 'build() always closes the current group (even an empty one), then takes the front group as top level',
              'build() does not unconditionally close the current group before taking the front of the queue: a trailing (empty) alternative can be lost')
    bad = [e for e in bmay + queue_effects(E, prog, orf, 'may') if e.kind in ('QPUSH_FRONT', 'QPOP_BACK')]
    rep.check(not bad, 'R4', 'fifo', '%s:%d' % (bf.file, bf.line), 'groups are only appended at the back and taken from the front', 'queue used out of FIFO order: %s' % [e.call.name for e in bad[:2]])
    # top-level group <- front element (provides / requires component); remaining elements mapped in order to
    # Or{provides <- provides component, requires <- requires component}.
    # Accepted idioms: pop_front() + `for alt in queue { or.push(Or{..}) }`, or queue.into_iter(): next() + map(..).collect(),
    # or (queue of Or records) next() + collect()
    reach = [bf] + [f for f in prog.reach([bf]).values() if f.path != bf.path and f.crate == 'libcnb_data']

    def front_elem(v):
        """v is the element taken from the FRONT of the queue: unwrap(pop_front(queue)) / unwrap(next(into_iter(queue)))"""
        v = strip(v)
        if v[0] == 'call' and v[1].endswith('::pop_front'):
            return True
        if v[0] == 'call' and v[1].endswith('::remove') and len(v[2]) == 2 and strip(v[2][1]) == ('const', 0) and is_queue(prog, v[2][0]):
            return True
        if v[0] == 'call' and v[1] == 'std::iter::Iterator::next':
            src = strip(v[2][0])
            return (src[0] == 'field' and src[2] in qnames) or (src[0] == 'call' and src[1].endswith('into_iter'))
        return False
    top = {}
    vals_all = []
    for f in reach:
        vals = []
        for key, defs in f.defs().items():
            if isinstance(key, tuple):
                for d in defs:
                    if d[0] == 'stmt' and f.locals[d[4][0]].get('head') == PLAN:
                        fld = [p_ for p_ in d[4][1:] if p_ != '*'][0]
                        vals.append((fld, sl._rvalue(f, d[3], set(), 0, None)))
        for b in f.blocks:
            for st in b['s']:
                if st[0] == '=' and st[2]['r'] == 'agg' and st[2].get('adt') == PLAN:
                    v = sl._rvalue(f, st[2], set(), 0, None)
                    vals += [('.' + n, fv) for n, fv in v[3]]
        vals_all.extend(vals)
        for fld, v in vals:
            v0 = strip(v)
            if fld in ('.provides', '.requires') and v0[0] == 'field' and front_elem(v0[1]):
                top[fld] = v0[2]
    rep.check(pc is not None and top.get('.provides') == pc and top.get('.requires') == rc, 'R4', 'build/top-level', '%s:%d' % (bf.file, bf.line),
              'top level provides <- front.%s, requires <- front.%s' % (pc, rc), 'top-level group is assigned from %s' % top)
    ors = []
    cands = {}
    for f in reach + [g for f0 in reach for g in prog.closures_of(f0)]:
        cands[f.path] = f
    for f in cands.values():
        for b in f.blocks:
            for st in b['s']:
                if st[0] == '=' and st[2]['r'] == 'agg' and st[2].get('adt') == OR:
                    ors.append((f, st))
    # Or literals that ARE the appended group record (a queue of Or records) are not conversions of queue elements
    typed = queue_holds_or(prog) and (pc, rc) == ('provides', 'requires')
    # (an Or literal of two fresh empty lists is the reset value of the open group, not the conversion of a queue element)
    ors = [(f, st) for f, st in ors if not all(is_empty_value(x) for _, x in sl._rvalue(f, st[2], set(), 0, None)[3])]
    if typed:
        pushed = [(e.call.fn.path, strip(sl.operand(e.call.fn, e.call.args[1]))) for e in bmay + queue_effects(E, prog, orf, 'may') if e.kind == 'QPUSH_BACK']
        ors = [(f, st) for f, st in ors if (f.path, sl._rvalue(f, st[2], set(), 0, None)) not in pushed]

    def elem_roles_ok(p_, r_):
        return p_[0] == 'field' and r_[0] == 'field' and pc is not None and p_[2] == pc and r_[2] == rc and strip(p_[1]) == strip(r_[1])
    how = None

    def loop_each(f):
        """the one Vec::push inside a loop of f happens on EVERY iteration, and the loop runs to exhaustion: no `continue`
        around the push, no `break` / `return` out of the body (an empty alternative is an alternative)"""
        in_loop = [c for c in f.calls if c.name == 'std::vec::Vec::<T, A>::push' and f.in_loop(c.bb)]
        if len(in_loop) != 1:
            return False
        pb = in_loop[0].bb
        Ls = [L for L in E.loops(f) if pb in L.body]
        L = min(Ls, key=lambda l: len(l.body)) if Ls else None
        each = L is not None and all(f.dominates(pb, l) or pb == l for l in L.latches) and getattr(L, 'exhaust', None) is not None \
            and {b for b in L.exit_bb if f.blocks[b]['t']['t'] != 'unreachable'} <= {L.exhaust[1]}
        rep.check(each, 'R4', 'build/alternatives-each', '%s:%d' % (f.file, f.line), 'the loop appends one Or per remaining group, for every group',
                  'build() does not append an Or for every remaining group (conditional push / early exit): an empty alternative is lost')
        return True
    if typed and not ors:
        # the remaining Or records are handed through unchanged: the `or` field is the collection of the queue's
        # (one and only) iterator, every element, unfiltered
        ok = False
        srcs = [c for g in reach for c in g.calls if (c.decl or c.name or '').endswith(('::into_iter', '::iter', '::iter_mut', '::drain'))
                and c.args and is_queue(prog, sl.operand(g, c.args[0]))]
        for fld, v in vals_all:
            if fld != '.or':
                continue
            al = iters.alts(sl, v)
            if len(al) == 1 and not al[0][2] and al[0][1] is not None and is_queue(prog, al[0][1]) \
                    and strip(al[0][0]) == strip(iters.elem_of(al[0][1])) and len(srcs) == 1:
                ok = True
                how = 'collect of Or records'
        if not ok:
            # ... or appended one by one: a push of the current element of the queue's (one and only) iteration onto the
            # `or` list of the plan, for every element (MUST effect quantified over the queue), and no other push onto it
            Sb = Summary(prog, sl, bf)
            onto_or = [e for e in Sb.may if e.args and fpath(e.args[0])[1][-1:] == ['or'] and not rooted_at_self(e.args[0], bf)]
            if len(onto_or) == 1 and onto_or[0].kind == 'ACC:PUSH' and len(srcs) == 1 and not Sb.extends:
                ev = peel(sl.inline_deep(onto_or[0].args[1]))
                if ev[0] == 'call' and ev[1] == 'std::iter::Iterator::next' and len(ev[2]) == 1 and is_queue(prog, ev[2][0]):
                    how = 'loop over Or records'
                    ok = loop_each(onto_or[0].call.fn)
    else:
        ok = len(ors) == 1
    if ok and how is None:
        f, st = ors[0]
        v = sl._rvalue(f, st[2], set(), 0, None)
        fl = dict(v[3])
        p_, r_ = strip(fl['provides']), strip(fl['requires'])
        same = elem_roles_ok(p_, r_)
        elem = strip(p_[1]) if same else ('unknown',)
        if same and elem[0] == 'call' and elem[1] == 'std::iter::Iterator::next':
            how = 'loop'
            ok = loop_each(f)
        elif same and elem[0] == 'param' and f.kind == 'Closure':
            # closure handed to Iterator::map whose result is collected
            parent = prog.fns.get(f.parent)
            mp = [c for c in (parent.calls if parent else []) if c.decl == 'std::iter::Iterator::map' and any(y[0] == 'closure' and y[1] == f.path for y in walk(sl.operand(parent, c.args[1])))]
            how = 'map-collect'
            ok = len(mp) == 1 and any(c.decl == 'std::iter::Iterator::collect' for c in parent.calls)
        else:
            # Or built by a helper handed to Iterator::map (fn item), collected into the `or` field: read the elements of
            # that field's value with the iterator algebra
            ok = False
            for fld, v in vals_all:
                if fld != '.or':
                    continue
                al = iters.alts(sl, v)
                if len(al) == 1 and not al[0][2] and al[0][1] is not None:
                    ev = strip(sl.inline_deep(al[0][0]))
                    if ev[0] == 'agg' and ev[1] == OR:
                        fl2 = dict(ev[3])
                        p2, r2 = strip(fl2['provides']), strip(fl2['requires'])
                        ok = elem_roles_ok(p2, r2) and strip(p2[1])[0] == 'call' and strip(p2[1])[1] == 'std::iter::Iterator::next'
                        how = 'map(helper)-collect'
    if ok:
        names = [c.decl or '' for g in reach for c in g.calls if (c.decl or '').startswith(('std::iter::Iterator::', 'std::iter::DoubleEndedIterator::'))]
        names += [c.name or '' for g in reach for c in g.calls if (c.name or '').startswith(('std::collections::VecDeque', 'core::slice::', 'std::vec::Vec'))]
        ok = not any(n.split('::')[-1] in REORDER for n in names)
    rep.check(ok, 'R4', 'build/alternatives', '%s:%d' % (bf.file, bf.line), 'every remaining group mapped in order to Or{provides <- .%s, requires <- .%s} (%s)' % (pc, rc, how),
              'alternatives are not mapped one-to-one in order')


# ---- R5 ----------------------------------------------------------------------------------------------------
def owners(prog, fn, allowed, _seen=None):
    """the functions a call site inside fn is attributable to: fn itself when it is one of `allowed`, public, or never
    called; otherwise (private helper / closure) the owners of every workspace function that calls or mentions it"""
    _seen = _seen if _seen is not None else set()
    if fn.path in allowed:
        return {fn.path}
    if fn.path in _seen:
        return set()
    _seen.add(fn.path)
    if fn.kind == 'Closure':
        p = prog.fns.get(fn.parent)
        return owners(prog, p, allowed, _seen) if p is not None else {fn.path}
    if fn.vis == 'pub':
        return {fn.path}
    cs = [c for c in prog.callers().get(fn.path, []) if c.fn.path != fn.path]
    if not cs:
        return {fn.path}
    out = set()
    for c in cs:
        out |= owners(prog, c.fn, allowed, _seen)
    return out


SER_CALLS = ('toml::to_string', 'toml::to_string_pretty', 'toml::ser::to_string')


def writer_contract(prog, sl, E, w, path_idx=None, strict=False):
    """w is a TOML file writer: one file WRITE on every success path, at a path parameter (parameter path_idx when
    given), of toml::to_string(<another parameter>)? — whether spelled fs::write(path, s) or
    File::create(path)?.write_all(s.as_bytes()), `?` / match / map_err, directly or with the serialising / the writing
    half in a private helper — with the result of the write propagated.  strict: additionally no other file system
    mutation on any path and exactly one serialising call site within reach"""
    from .lib.discard import result_fates, verdict
    fw = [e for e in E.expand(w, 'must') if e.kind == 'WRITE']
    if len(fw) != 1 or len(fw[0].args or ()) < 2:
        return False
    e = fw[0]

    def text_of(dv):
        while dv[0] == 'call' and dv[1].endswith(('::as_bytes', '::as_str', '::as_ref')) and dv[2]:
            dv = dv[2][0]
        return dv
    dv = text_of(e.args[1])
    if not (dv[0] == 'unwrap' and strip(dv)[0] == 'call' and strip(dv)[1] == 'toml::to_string'):
        # the text computed by a private helper (`fn toml_text(v) -> Result<String, _>`): what that helper returns
        dv = text_of(sl.inline_deep(e.args[1]))
    top = e.chain[0] if e.chain else e.call
    if not (dv[0] == 'unwrap' and strip(dv)[0] == 'call' and strip(dv)[1] == 'toml::to_string' and len(strip(dv)[2]) == 1):
        return False
    val, path = strip(strip(dv)[2][0]), strip(e.path)
    if val[0] != 'param' or path[0] != 'param' or val[1] != w.path or path[1] != w.path or val[2] == path[2]:
        return False
    if path_idx is not None and path[2] != path_idx:
        return False
    if verdict(result_fates(prog, top.fn, top.call if hasattr(top, 'call') else top)) != 'ok':
        return False
    if strict:
        from .lib.effects import MUTATING
        if any(x[0] == 'updated' for x in walk(dv)):
            return False    # the value is modified between the parameter and the serialising call
        may = [x for x in E.expand(w, 'may') if x.kind in MUTATING]
        fns = dict(prog.reach([w]))
        fns[w.path] = w
        for g in list(fns.values()):
            for cl in prog.closures_of(g):
                fns[cl.path] = cl
        sites = [c for g in fns.values() for c in g.calls if c.is_(*SER_CALLS)]
        if len(may) != 1 or may[0].call is not e.call or len(sites) != 1:
            return False
    return True


def toml_writers(prog, sl, E, allowed, crates=('libcnb', 'libcnb_common')):
    """(the functions the TOML serialising call sites are attributable to, the additional writers among them).
    A serialising call inside a private helper / closure belongs to the public functions it is reachable from — unless
    a function on the way up is itself a writer in the sense of `writer_contract` (strict): a second spelling of
    write_toml_file (inlined next to its callers, say) produces the same bytes under the same error discipline, and its
    callers then use *a* checked writer exactly as the callers of write_toml_file do"""
    memo = {}
    extra = set()

    def is_writer(g):
        if g.path not in memo:
            memo[g.path] = writer_contract(prog, sl, E, g, strict=True)
        return memo[g.path]

    def attribute(fn, seen):
        """`owners`, stopping at functions that meet the writer contract"""
        while fn is not None and fn.kind == 'Closure' and fn.path not in allowed:
            fn = prog.fns.get(fn.parent)
        if fn is None:
            return set()
        if fn.path in allowed:
            return {fn.path}
        if fn.path in seen:
            return set()
        seen.add(fn.path)
        if is_writer(fn):
            extra.add(fn.path)
            return set()
        if fn.vis == 'pub':
            return {fn.path}
        cs = [c for c in prog.callers().get(fn.path, []) if c.fn.path != fn.path]
        if not cs:
            return {fn.path}
        out = set()
        for c in cs:
            out |= attribute(c.fn, seen)
        return out
    users = set()
    for f in prog.fns.values():
        if f.crate not in crates or f.path.startswith('libcnb::tracing'):
            continue
        for c in f.calls:
            if c.is_(*SER_CALLS):
                users |= attribute(f, set())
    return sorted(users), sorted(extra)


def fd_effects(prog, sl, fn):
    """(raw fds opened on every path of fn, raw fds opened on some path) — through private helpers, arguments substituted"""
    names = set()
    for g in prog.reach([fn]).values():
        for c in g.calls:
            for n in (c.res, c.decl):
                if n and n.endswith('from_raw_fd'):
                    names.add(n)
    E = Effects(prog, sl, vocab={n: ('RAWFD', 0) for n in names})
    must = [strip(e.path) for e in E.expand(fn, 'must') if e.kind == 'RAWFD']
    may = [strip(e.path) for e in E.expand(fn, 'may') if e.kind == 'RAWFD']
    return must, may


# ---- R6: the public builders / constructors carry exactly what they were given -------------------------------
# Stated on a *mutation summary* of each method: every change of state reachable from the receiver, found as
#   ACC:PUSH / ACC:INSERT / ACC:MUT   container calls (interprocedural MUST / MAY effects, arguments substituted into the
#                                     method's own terms, loops and iterator pipelines as FORALL)
#   extend                            `Extend::extend(recv, iter)` in the method itself, its elements read with the
#                                     iterator algebra
#   assign                            a store to a field place rooted at the receiver
# An adder appends exactly one element built from its argument (plural adders: one per element of the argument, every
# element, in order), a setter stores its argument unconditionally, build() hands out every accumulated field.
LAUNCH = 'libcnb_data::launch::'
CONVERSIONS = ('std::convert::Into::into', 'std::convert::From::from', 'std::convert::AsRef::as_ref', 'std::string::ToString::to_string',
               'std::borrow::ToOwned::to_owned', 'std::clone::Clone::clone', 'std::string::String::from', 'std::borrow::Borrow::borrow',
               'std::ops::Deref::deref', 'std::str::<impl str>::to_string', 'std::str::<impl str>::to_owned')
import re as _re
_CONTAINER = _re.compile(r'^(std::vec::Vec|std::collections::(?:hash_map::|btree_map::|vec_deque::)?(?:HashMap|BTreeMap|VecDeque|HashSet|BTreeSet)|toml::map::Map|indexmap::IndexMap|(?:std|core)::slice)::<')
READONLY = {'len', 'is_empty', 'iter', 'as_slice', 'first', 'last', 'get', 'contains', 'capacity', 'new', 'with_capacity', 'clone',
            'to_vec', 'as_ptr', 'binary_search', 'starts_with', 'ends_with', 'join', 'concat', 'contains_key', 'keys', 'values',
            'reserve', 'reserve_exact', 'shrink_to_fit', 'with_capacity_and_hasher', 'with_hasher', 'default', 'into_iter', 'is_sorted',
            'windows', 'chunks', 'split_first', 'split_last', 'into_boxed_slice', 'from_iter', 'into_vec'}
EMPTY_CTORS = ('std::vec::Vec::<T>::new', 'std::default::Default::default', '<std::vec::Vec<T> as std::default::Default>::default',
               'std::collections::HashMap::<K, V>::new', 'std::collections::HashMap::<K, V, S>::default', 'toml::map::Map::<K, V>::new',
               'toml::map::Map::<std::string::String, toml::Value>::new', 'std::vec::Vec::<T>::with_capacity',
               'std::collections::HashMap::<K, V>::with_capacity', '<toml::map::Map<K, V> as std::default::Default>::default')


def peel(v):
    """v without value-preserving conversions (`x.into()`, `String::from(x)`, `x.as_ref()`, clones) and success wrappers"""
    while True:
        v = strip(v)
        if v[0] == 'call' and v[1] in CONVERSIONS and len(v[2]) == 1:
            v = v[2][0]
        elif v[0] == 'call' and v[2] and len(v[2]) == 1 and (v[1].endswith(('>::from', '>::into', '>::as_ref', '>::to_string', '>::to_owned', '>::clone',
                                                                           '::as_bytes', '::as_str', '::into_bytes', '::into_string', '::as_slice', '::to_vec', '::into_vec', '::into_boxed_slice'))):
            v = v[2][0]
        else:
            return v


def fpath(v):
    """(root, [field names from the root]) of a field projection chain"""
    names = []
    v = strip(v)
    while v[0] == 'field':
        names.append(v[2])
        v = strip(v[1])
    return v, names[::-1]


def is_param(v, fn, idx):
    v = peel(v)
    return v[0] == 'param' and v[1] == fn.path and v[2] == idx


def rooted_at_self(v, fn):
    r, names = fpath(v)
    return r[0] == 'param' and r[1] == fn.path and r[2] == 0 and bool(names)


def is_empty_value(v):
    v = strip(v)
    if v[0] == 'array' and not v[1]:
        return True
    if v[0] == 'concat':
        return False
    return v[0] == 'call' and (v[1] in EMPTY_CTORS or (v[1].endswith(('::new', '::default')) and not v[2]))


def _mut_kind(name):
    last = name.split('::')[-1]
    if last in READONLY:
        return None
    if last == 'push' and 'Vec' in name:
        return 'ACC:PUSH'
    if last == 'insert' and 'Map' in name:
        return 'ACC:INSERT'
    return 'ACC:MUT'


def _target_of(sl, fn, pl):
    """symbolic place a store `pl = ..` writes to: the base local's referent plus the field projections"""
    base = strip(sl.local(fn, pl[0]))
    v = base
    for p in pl[1:]:
        if p == '*':
            continue
        if p.startswith('.'):
            v = ('field', v, p[1:])
        else:
            v = ('field', v, p)
    return v


class Summary:
    """mutation summary of one method (see above)"""

    def __init__(self, prog, sl, fn):
        self.fn = fn
        self.prog, self.sl = prog, sl
        self._sites = None
        vocab = {}
        fns = dict(prog.reach([fn]))
        fns[fn.path] = fn
        for g in fns.values():
            for c in g.calls:
                for n in (c.res, c.decl):
                    if n and _CONTAINER.match(n):
                        k = _mut_kind(n)
                        if k:
                            vocab[n] = (k, 0)
        E = Effects(prog, sl, vocab=vocab)
        self.E = E
        self.must = [e for e in E.expand(fn, 'must') if e.kind.startswith('ACC:')]
        self.may = [e for e in E.expand(fn, 'may') if e.kind.startswith('ACC:')]
        self.extends = []
        self.assigns = []
        rets = fn.return_blocks()
        for c in fn.calls:
            if not c.indirect and c.decl == 'std::iter::Extend::extend' and len(c.args) == 2:
                self.extends.append((sl.operand(fn, c.args[0]), sl.operand(fn, c.args[1]), c, all(fn.dominates(c.bb, r) for r in rets)))
        normal = fn.reachable(0)
        for key, defs in fn.defs().items():
            if not isinstance(key, tuple):
                continue
            for d in defs:
                if d[1] not in normal:
                    continue    # the copy of a store in an unwind (drop elaboration) block
                tgt = _target_of(sl, fn, d[4])
                if d[0] == 'stmt':
                    val = sl._rvalue(fn, d[3], set(), 0, (d[1], d[2]))
                elif d[0] == 'call':
                    val = sl._call_value(fn, d[3], set(), 0)
                else:
                    val = ('unknown', d[0])
                self.assigns.append((tgt, val, d[1]))
        # stores made by helpers through a `&mut` parameter are not summarised: name them so the caller fails closed
        self.helper_stores = []
        for g in fns.values():
            if g.path == fn.path or g.crate != fn.crate:
                continue
            for key, defs in g.defs().items():
                if isinstance(key, tuple) and 1 <= key[0] <= g.argc and g.args[key[0] - 1].startswith('&mut '):
                    self.helper_stores.append(g.path)

    def on_self(self, evs):
        return [e for e in evs if e.args and rooted_at_self(e.args[0], self.fn)]

    def self_assigns(self):
        return [a for a in self.assigns if rooted_at_self(a[0], self.fn)]

    def self_extends(self):
        return [x for x in self.extends if rooted_at_self(x[0], self.fn)]


def _elem_of_param(v, fn, idx):
    """v is `the current element` of iterating parameter idx"""
    v = peel(v)
    return v[0] == 'call' and v[1] == 'std::iter::Iterator::next' and len(v[2]) == 1 and is_param(v[2][0], fn, idx)


def check_push(prog, sl, rep, fn, field, subject, slots=None):
    if _unclear(rep, fn, field, subject, slots, container=True):
        return
    S = Summary(prog, sl, fn)
    where = '%s:%d' % (fn.file, fn.line)
    rep.analysed(fn)
    mp = S.on_self(S.must)
    ok = len(mp) == 1 and mp[0].kind == 'ACC:PUSH' and mp[0].forall is None and on_slot(fpath(mp[0].args[0])[1], field, slots)
    why = 'no unconditional single push onto %s' % _slot_str(field, slots)
    if ok:
        v = sl.inline_deep(mp[0].args[1])
        ok = carries(v, fn, 1)
        why = 'the pushed element is not the argument: %s' % _vs(v)
    if ok:
        other = [e for e in S.may if e.call is not mp[0].call] + S.self_assigns() + S.extends
        ok = not other and not S.helper_stores
        why = 'the accumulated state is also changed otherwise (%d other mutation(s))' % (len(other) + len(S.helper_stores))
    rep.check(ok, 'R6', subject, where, 'appends exactly its argument at the back of .%s' % field, '%s: %s' % (fn.path.split('::')[-1], why))


def carries(v, fn, idx):
    """v is parameter idx itself (modulo conversions) or a record whose data fields are that parameter / fresh empties,
    with no other computation on the way"""
    v = peel(v)
    if is_param(v, fn, idx):
        return True
    if v[0] == 'agg':
        vals = [peel(x) for _, x in v[3]]
        return any(is_param(x, fn, idx) for x in vals) and all(is_param(x, fn, idx) or is_empty_value(x) for x in vals)
    return False


def _vs(v):
    from .lib.value import vstr
    return vstr(v)[:120]


def check_push_each(prog, sl, rep, fn, field, subject, slots=None):
    if _unclear(rep, fn, field, subject, slots, container=True):
        return
    S = Summary(prog, sl, fn)
    where = '%s:%d' % (fn.file, fn.line)
    rep.analysed(fn)
    mp = S.on_self(S.must)
    ex = S.self_extends()
    ok, why, how = False, 'no push onto %s for every element of the argument' % _slot_str(field, slots), None
    if len(mp) == 1 and not S.extends:
        e = mp[0]
        how = 'loop'
        ok = e.kind == 'ACC:PUSH' and e.forall is not None and is_param(e.forall, fn, 1) and on_slot(fpath(e.args[0])[1], field, slots)
        if ok:
            v = sl.inline_deep(e.args[1])
            ok = _elem_of_param(v, fn, 1) or (peel(v)[0] == 'agg' and all(_elem_of_param(x, fn, 1) or is_empty_value(x) for _, x in peel(v)[3]))
            why = 'the pushed element is not the current element of the argument: %s' % _vs(v)
        other = [x for x in S.may if x.call is not e.call] + S.self_assigns()
    elif len(ex) == 1 and len(S.extends) == 1 and not mp:
        recv, itv, c, dom = ex[0]
        how = 'extend'
        al = iters.alts(sl, itv)
        ok = dom and on_slot(fpath(recv)[1], field, slots) and len(al) == 1 and not al[0][2] and al[0][1] is not None and is_param(al[0][1], fn, 1)
        if ok:
            ok = _elem_of_param(sl.inline_deep(al[0][0]), fn, 1)
            why = 'extended by something else than the elements of the argument: %s' % _vs(al[0][0])
        elif len(al) == 1 and al[0][2]:
            why = 'not every element of the argument is appended (%s)' % ('truncated' if al[0][2] == 'trunc' else 'filtered')
        other = S.may + S.self_assigns()
    else:
        other = []
    if ok:
        ok = not other and not S.helper_stores
        why = 'the accumulated state is also changed otherwise (%d other mutation(s))' % (len(other) + len(S.helper_stores))
    rep.check(ok, 'R6', subject, where, 'appends every element of its argument, in order, to .%s (%s)' % (field, how), '%s: %s' % (fn.path.split('::')[-1], why))


def check_set(prog, sl, rep, fn, field, subject, value_ok=None, sites=None, slots=None):
    """the field is unconditionally assigned the argument (value_ok(v) overrides `is parameter 1`)"""
    if _unclear(rep, fn, field, subject, slots, container=False):
        return
    if value_ok is None and slots is not None and field in getattr(slots, 'lazy', ()):
        # a lazy slot reads back Some(x) as x
        value_ok = lambda val: is_param(lazy_decode(val, ('unknown', 'fallback')), fn, 1)
    S = Summary(prog, sl, fn)
    where = '%s:%d' % (fn.file, fn.line)
    rep.analysed(fn)
    asg = S.self_assigns()
    ends = sites if sites is not None else fn.return_blocks()
    ok = len(asg) == 1 and on_slot(fpath(asg[0][0])[1], field, slots)
    why = '%s is not assigned exactly once' % _slot_str(field, slots)
    if ok:
        tgt, val, bb = asg[0]
        ok = bool(ends) and all(fn.dominates(bb, r) for r in ends)
        why = '.%s is assigned only on some paths' % field
        if ok:
            ok = value_ok(val) if value_ok else is_param(val, fn, 1)
            why = '.%s is assigned %s, not the argument' % (field, _vs(val))
    if ok:
        other = S.may + S.extends
        ok = not other and not S.helper_stores
        why = 'the state is also changed otherwise (%d other mutation(s))' % (len(other) + len(S.helper_stores))
    rep.check(ok, 'R6', subject, where, '.%s := argument, on every path' % field, '%s: %s' % (fn.path.split('::')[-1], why))


def check_snapshot(prog, sl, rep, fn, state_adt, subject):
    """build(): every field of the returned state is read, untouched, from a slot of the receiver of its own (a field path
    from self; no two fields from the same or overlapping places).  Which private place that is — `self.process.args`,
    `self.args`, `self.tunables.args`, a private name — is the builder's business: the adders, setters and new() are
    checked against the very same slots (state_slots / on_slot)"""
    where = '%s:%d' % (fn.file, fn.line)
    rep.analysed(fn)
    slots, bad = read_slots(prog, sl, fn, state_adt)
    unclear = sorted(slots.unclear.values())
    for a, pa in sorted(slots.items()):
        for b_, pb in sorted(slots.items()):
            if a < b_ and (pa[:len(pb)] == pb or pb[:len(pa)] == pa):
                bad.append('%s and %s are both read from self.%s' % (a, b_, '.'.join(min(pa, pb, key=len))))
    S = Summary(prog, sl, fn)
    touched = len(S.may) + len(S.assigns) + len(S.extends) + len(S.helper_stores)
    if touched:
        bad.append('%d container mutation(s) / store(s) between the accumulated state and the returned value' % touched)
    ok = not bad and bool(_fields(prog, state_adt))
    if ok and unclear:
        rep.unproven('R6', subject, where, 'build() computes part of the returned state from the accumulated state in a way that is not modelled: %s' % (unclear,))
        return
    rep.check(ok, 'R6', subject, where, 'build() returns every accumulated field', 'build() does not hand out the accumulated state: %s' % (bad,))


def _single_collect_of(sl, v, fn, idx):
    """v collects every element of parameter idx, unfiltered: the element value (in terms of the current element) or None"""
    al = iters.alts(sl, v)
    if len(al) == 1 and not al[0][2] and al[0][1] is not None and is_param(al[0][1], fn, idx):
        return al[0][0]
    return None


BUILDER_METHODS = {
    LAUNCH + 'LaunchBuilder': (LAUNCH + 'Launch', {
        'new': ('init',), 'build': ('snapshot',),
        'process': ('push', 'processes'), 'processes': ('push_each', 'processes'),
        'label': ('push', 'labels'), 'labels': ('push_each', 'labels'),
        'slice': ('push', 'slices'), 'slices': ('push_each', 'slices')}),
    LAUNCH + 'ProcessBuilder': (LAUNCH + 'Process', {
        'new': ('ctor',), 'build': ('snapshot',),
        'arg': ('push', 'args'), 'args': ('push_each', 'args'),
        'default': ('set', 'default'), 'working_directory': ('set', 'working_directory')}),
    BUILDER: (None, {
        'new': ('init',), 'or': ('r4',), 'build': ('r4',),
        'provides': ('push', 'current_provides'), 'requires': ('push', 'current_requires')}),
}


def r6(prog, sl, rep):
    n = 0
    for b, (state, methods) in BUILDER_METHODS.items():
        short = b.split('::')[-1]
        slots = state_slots(prog, sl, b, state) if state else None
        if b == BUILDER:
            # the open group of BuildPlanBuilder is wherever its two adders append (current_slots); R4 ties or() / build() to
            # the same two places (or/push_back: the appended group record carries exactly them)
            P_, R_ = current_slots(prog, sl)
            slots = Slots({'current_provides': P_, 'current_requires': R_})
        found = {}
        for p_, f in prog.fns.items():
            if p_.startswith(b + '::') and '::' not in p_[len(b) + 2:] and f.kind != 'Closure':
                found[p_[len(b) + 2:]] = f
        for name, f in sorted(found.items()):
            spec = methods.get(name)
            subj = '%s/%s' % (short, name)
            if spec is None:
                # a method of a builder that is not modelled may change the accumulated state in any way
                if f.vis == 'pub' or (f.args and f.args[0].startswith('&mut ')):
                    rep.unproven('R6', subj, '%s:%d' % (f.file, f.line), 'builder method without a model: its effect on the accumulated state is not decided')
                continue
            n += 1
            if spec[0] == 'push':
                check_push(prog, sl, rep, f, spec[1], subj, slots)
            elif spec[0] == 'push_each':
                check_push_each(prog, sl, rep, f, spec[1], subj, slots)
            elif spec[0] == 'set':
                check_set(prog, sl, rep, f, spec[1], subj, slots=slots)
            elif spec[0] == 'snapshot':
                check_snapshot(prog, sl, rep, f, state, subj)
            elif spec[0] == 'init':
                check_init(prog, sl, rep, f, b, subj)
            elif spec[0] == 'ctor' and short == 'ProcessBuilder':
                check_process_new(prog, sl, rep, f, subj)
        for name in methods:
            if name not in found:
                rep.unproven('R6', '%s/%s' % (short, name), '-', 'builder method not found')
    rep.check(n >= 19, 'R6', 'floor', '-', '%d builder methods modelled' % n, 'only %d builder methods found (19 were confirmed by hand)' % n)
    check_data_ctors(prog, sl, rep)


def check_init(prog, sl, rep, fn, builder, subject):
    """new(): the derived Default of the builder (every list empty) — or an explicit literal of empty fields; field stores
    made after that value was built are applied (fold_updates) and nothing is appended on the way"""
    where = '%s:%d' % (fn.file, fn.line)
    rep.analysed(fn)
    S = Summary(prog, sl, fn)
    raw = fold_updates(fn, S, sl.local(fn, 0))
    v = peel(raw)
    ok = v[0] == 'call' and v[1] in ('<%s as std::default::Default>::default' % builder, 'std::default::Default::default')
    if ok and v[1] in prog.fns:
        # a hand-written Default impl: must itself be all-empty
        dv = peel(sl.inline_deep(v))
        ok = dv[0] == 'agg' and all(_all_empty(sl, x) for _, x in dv[3])
    elif not ok and v[0] == 'agg':
        ok = all(_all_empty(sl, x) for _, x in v[3])
    # stores into a value that is not a literal here (`let mut b = Self::default(); b.labels = ..; b`): only of empties
    r = raw
    while r[0] in ('unwrap', 'updated'):
        if r[0] == 'updated':
            ok = ok and all(_all_empty(sl, uv) for _, uv in r[2])
        r = r[1]
    touched = len(S.may) + len(S.extends) + len(S.helper_stores)
    ok = ok and not touched
    und = undecided(raw)
    if ok and und:
        rep.unproven('R6', subject, where, 'the initial state is not decided: %s' % ', '.join(und))
        return
    rep.check(ok, 'R6', subject, where, 'a new builder is empty', 'a new builder does not start from the empty state: %s%s' % (_vs(raw), ' (+ %d container mutation(s))' % touched if touched else ''))


def _all_empty(sl, v):
    v = peel(sl.inline_deep(v))
    if is_empty_value(v):
        return True
    return v[0] == 'agg' and all(_all_empty(sl, x) for _, x in v[3])


def state_slots(prog, sl, builder, state_adt):
    """{field of the built record: field path from the builder by which build() reads it} — the builder's private layout
    (an embedded record `self.process.args`, one private field per slot `self.args`, a nested group, private names of its
    own) is whatever build() reads the built value from; no entry for a field build() does not hand out from the receiver
    (R6/<builder>/build reports it).  Adders / setters / new() are then stated on these slots (on_slot), which also ties
    them to build(): a method that mutates a private field build() never reads is not an adder"""
    b = prog.fns.get(builder + '::build')
    if b is None:
        return Slots()
    return read_slots(prog, sl, b, state_adt)[0]


class Slots(dict):
    """field -> path; .unclear: fields build() computes from the receiver in a way that is not modelled (methods on them are
    UNPROVEN, not VIOLATED: where their slot is and how it is read back is not known); .lazy: fields kept as an Option that
    build() reads with a fallback (`self.s.unwrap_or(D)`): the slot holds None for D and Some(x) for x"""
    unclear = ()
    lazy = ()


def _lazy_read(sl, fn, fv):
    """fv = `<self.path>.unwrap_or(D)` / `.unwrap_or_else(|| D)` with D independent of the receiver: (path, D)"""
    from .lib.value import walk
    if not (fv[0] == 'call' and len(fv[2]) == 2 and _re.match(r'^std::option::Option::<.*>::unwrap_or(_else)?$', fv[1])):
        return None
    r, names = fpath(peel(fv[2][0]))
    if not (r[0] == 'param' and r[1] == fn.path and r[2] == 0 and names):
        return None
    d = fv[2][1]
    if fv[1].endswith('_else'):
        d = sl.apply_closure(strip(d), ()) if strip(d)[0] == 'closure' else None
        if d is None:
            return None
    d = strip(sl.inline_deep(d))
    if any(x[0] in ('param', 'unknown', 'phi') for x in walk(d)):
        return None
    return tuple(names), d


def lazy_decode(v, d):
    """what build() reads from a lazy slot holding v"""
    v = peel(v)
    if v[0] == 'agg' and v[1] == 'std::option::Option':
        if v[2] == 'None':
            return d
        if v[2] == 'Some' and len(v[3]) == 1:
            return v[3][0][1]
    return ('unknown', 'not an Option literal: %s' % _vs(v))


def copy_source(sl, fv):
    """fv without element-wise copying: `xs.iter().cloned().collect()` / `xs.iter().map(Clone::clone).collect()` — every
    element of xs, unfiltered, in order, unchanged — is xs (iterator algebra)"""
    fv = peel(fv)
    if fv[0] == 'call' and fv[1] in iters.COLLECTING:
        al = iters.alts(sl, fv)
        if len(al) == 1 and not al[0][2] and al[0][1] is not None \
                and peel(sl.inline_deep(al[0][0])) == peel(iters.elem_of(al[0][1])) \
                and not any(x[0] == 'call' and x[1].split('::')[-1] in REORDER for x in walk(fv)):
            return peel(al[0][1])
    return fv


def read_slots(prog, sl, fn, state_adt):
    """(Slots, bad): how build() = fn reads each field of the built record"""
    from .lib.value import walk
    ret = sl.inline_deep(sl.local(fn, 0))
    slots, unclear, bad, lazy = Slots(), {}, [], {}
    for f in _fields(prog, state_adt):
        fv = copy_source(sl, sl._field(strip(ret), f['name']))
        r, names = fpath(fv)
        if r[0] == 'param' and r[1] == fn.path and r[2] == 0 and names:
            slots[f['name']] = tuple(names)
        elif _lazy_read(sl, fn, fv) is not None:
            slots[f['name']], lazy[f['name']] = _lazy_read(sl, fn, fv)
        elif fv[0] in ('call', 'phi', 'select', 'unknown') and any(x[0] == 'param' and x[1] == fn.path and x[2] == 0 for x in walk(fv) if len(x) > 2):
            # computed from the receiver in a way that is not modelled (not a breach by itself: undecided) ...
            unclear[f['name']] = '%s <- %s' % (f['name'], _vs(fv))
        else:
            # ... vs. a value that does not come from the accumulated state at all
            bad.append('%s <- %s' % (f['name'], _vs(fv)))
    slots.unclear = unclear
    slots.lazy = lazy
    return slots, bad


def _unclear(rep, fn, field, subject, slots, container=False):
    if container and slots is not None and field in getattr(slots, 'lazy', ()):
        rep.analysed(fn)
        rep.unproven('R6', subject, '%s:%d' % (fn.file, fn.line), 'the list %s is kept as an Option that build() reads with a fallback: appending to it is not modelled' % field)
        return True
    if slots is not None and field in getattr(slots, 'unclear', ()):
        rep.analysed(fn)
        rep.unproven('R6', subject, '%s:%d' % (fn.file, fn.line), 'build() reads %s in a way that is not modelled (%s): which private state this method has to change is not decided'
                     % (field, slots.unclear[field]))
        return True
    return False


def on_slot(names, field, slots):
    """the place `self.<names>` is the slot of `field`: the place build() reads it from — by the field's own name when
    build() does not tell (builders without a state record; a build() R6 reports anyway)"""
    if slots and field in slots:
        return list(names) == list(slots[field])
    return list(names[-1:]) == [field]


FOLD = 'fold: '


def fold_updates(fn, S, v, used=None):
    """Record literals with the field stores made after they were built applied: `let mut p = P { a, b: X }; p.b = Y; p` is
    P { a, b: Y }.  The slicer lists such stores flow-insensitively (('updated', base, ((projection, value)..))), so a store
    is applied only when it is the one store to that field and its block is on every path to the return (Summary.assigns);
    otherwise the field is ('unknown', 'fold: ..') — undecided, never the stale literal value.  `used` collects the stores
    that were accounted for this way"""
    k = v[0]
    if k == 'agg':
        return ('agg', v[1], v[2], tuple((n, fold_updates(fn, S, x, used)) for n, x in v[3]))
    if k == 'unwrap' and len(v) == 2:
        return ('unwrap', fold_updates(fn, S, v[1], used))
    if k != 'updated':
        return v
    base = fold_updates(fn, S, v[1], used)
    if base[0] != 'agg':
        return (v[0], base) + tuple(v[2:])
    rets = fn.return_blocks()
    # (drop elaboration repeats a store of a value with a destructor in the unwind path: the same store, listed twice)
    ups = list(dict.fromkeys(v[2]))
    projs = [tuple(x for x in proj.split('.') if x) for proj, _ in ups]
    for names, (proj, uv) in zip(projs, ups):
        why = None
        if not names or not all(_re.match(r'^\w+$', n) for n in names):
            why = 'store through %s' % proj
        elif sum(1 for o in projs if o[:len(names)] == names or names[:len(o)] == o) != 1:
            why = '%s is assigned more than once' % proj
        else:
            # the store site: in fn itself, or in the private function the literal was inlined from (its value is then
            # already expressed in fn's terms: the site is identified by the record type and the field)
            st = []
            for g, asg in _store_sites(S, fn):
                for a in asg:
                    r, an = fpath(a[0])
                    if r[0] == 'agg' and r[1] == base[1] and tuple(an) == names:
                        st.append((g, a))
            if len(st) != 1 or not st[0][0].return_blocks() or not all(st[0][0].dominates(st[0][1][2], r) for r in st[0][0].return_blocks()):
                why = '%s is assigned on some paths only' % proj if st else 'the store to %s was not found' % proj
            elif used is not None:
                used.append(st[0][1])
        nv = fold_updates(fn, S, uv, used) if why is None else ('unknown', FOLD + why)
        base = _set_field(base, names or ('?',), nv)
    return base


def assigns_of(sl, fn):
    """[(target place, value, block)] of the field stores of fn on its normal paths"""
    out = []
    normal = fn.reachable(0)
    for key, defs in fn.defs().items():
        if not isinstance(key, tuple):
            continue
        for d in defs:
            if d[1] not in normal:
                continue    # the copy of a store in an unwind (drop elaboration) block
            tgt = _target_of(sl, fn, d[4])
            if d[0] == 'stmt':
                val = sl._rvalue(fn, d[3], set(), 0, (d[1], d[2]))
            elif d[0] == 'call':
                val = sl._call_value(fn, d[3], set(), 0)
            else:
                val = ('unknown', d[0])
            out.append((tgt, val, d[1]))
    return out


def _store_sites(S, fn):
    if getattr(S, '_sites', None) is None:
        S._sites = [(fn, S.assigns)]
        for g in dict(S.prog.reach([fn])).values():
            if g.path != fn.path and g.crate == fn.crate:
                S._sites.append((g, assigns_of(S.sl, g)))
    return S._sites


def _set_field(agg, names, nv):
    if agg[0] != 'agg' or not any(n == names[0] for n, _ in agg[3]):
        return ('unknown', FOLD + 'store to .%s of something that is not a record literal' % '.'.join(names))
    return ('agg', agg[1], agg[2], tuple((n, (nv if len(names) == 1 else _set_field(x, names[1:], nv)) if n == names[0] else x) for n, x in agg[3]))


def undecided(v):
    """the reasons for which parts of a folded value are not decided"""
    from .lib.value import walk
    return [x[1][len(FOLD):] for x in walk(v) if x[0] == 'unknown' and len(x) > 1 and isinstance(x[1], str) and x[1].startswith(FOLD)]


def _slot_str(field, slots):
    if slots and field in slots:
        return 'self.%s (where build() reads %s from)' % ('.'.join(slots[field]), field)
    return '.%s' % field


def _project(sl, v, names):
    for n in names:
        v = peel(v)
        if v[0] != 'agg':
            return ('unknown', 'no literal to read .%s from' % n)
        v = sl._field(v, n)
    return v


def _by_name(v, name, _depth=0):
    """the values of the data field `name` in a (nested) record literal: used when build() does not say where the slot is"""
    v = peel(v)
    if v[0] != 'agg' or _depth > 3:
        return []
    out = [x for n, x in v[3] if n == name]
    if not out:
        for _, x in v[3]:
            out += _by_name(x, name, _depth + 1)
    return out


def check_process_new(prog, sl, rep, fn, subject):
    """new(type, command): the INITIAL STATE of the builder, read slot by slot the way build() reads it (state_slots), is
    {type, every command element in order, no args, not default, app directory} — whether the builder embeds a Process
    literal or keeps one private field per slot"""
    where = '%s:%d' % (fn.file, fn.line)
    rep.analysed(fn)
    S = Summary(prog, sl, fn)
    ret = peel(fold_updates(fn, S, sl.inline_deep(sl.local(fn, 0))))
    bad = []
    state = LAUNCH + 'Process'
    names = [f['name'] for f in _fields(prog, state)]
    slots = state_slots(prog, sl, LAUNCH + 'ProcessBuilder', state)
    fl = {}
    if ret[0] != 'agg' or not names:
        bad.append('no Process literal: %s' % _vs(ret))
    else:
        for n in names:
            if n in slots:
                fl[n] = _project(sl, ret, slots[n])
                if n in slots.lazy:
                    fl[n] = lazy_decode(fl[n], slots.lazy[n])
            else:
                cands = _by_name(ret, n)
                fl[n] = cands[0] if len(cands) == 1 else ('unknown', 'slot %s not found in the new builder' % n)
        if all(strip(x)[0] == 'unknown' for x in fl.values()):
            bad.append('no Process literal: %s' % _vs(ret))
    # fields build() computes in a way that is not modelled: their initial value cannot be read back -> UNPROVEN below
    unclear = sorted(n for n in names if n in getattr(slots, 'unclear', ()))
    # ... and fields stored to after the literal was built on some paths only / repeatedly (fold_updates)
    und = {n: undecided(fl[n]) for n in fl if undecided(fl[n])}
    unclear = sorted(set(unclear) | set(und))
    if not bad:
        if 'type' not in unclear and not is_param(fl.get('type', ('unknown',)), fn, 0):
            bad.append('type <- %s' % _vs(fl.get('type')))
        el = _single_collect_of(sl, fl.get('command', ('unknown',)), fn, 1)
        if 'command' not in unclear and (el is None or not _elem_of_param(sl.inline_deep(el), fn, 1)):
            bad.append('command is not every element of the argument, in order: %s' % _vs(fl.get('command')))
        if 'args' not in unclear and not is_empty_value(fl.get('args', ('unknown',))):
            bad.append('args <- %s' % _vs(fl.get('args')))
        tys = {f['name']: f.get('ty') for f in _fields(prog, state)}

        def is_class(v, cls, ty):
            """v is a nullary constructor call (`bool::default()`, `WorkingDirectory::default()`, a private const fn) that
            produces a value of that class (default_class: std ones by type, workspace ones by what they return)"""
            v = strip(v)
            return v[0] == 'call' and not v[2] and default_class(prog, sl, v[1], ty) == cls
        dv = strip(fl.get('default', ('unknown',)))
        if 'default' not in unclear and dv != ('const', False) and not is_class(dv, ('bool', False), tys.get('default') or 'bool'):
            bad.append('default <- %s' % _vs(fl.get('default')))
        wd = strip(fl.get('working_directory', ('unknown',)))
        if 'working_directory' not in unclear and not (wd[0] == 'agg' and wd[2] == 'App') \
                and not is_class(wd, ('variant', LAUNCH + 'WorkingDirectory', frozenset({'App'})), tys.get('working_directory')):
            bad.append('working_directory <- %s' % _vs(wd))
        for n in names:
            if n not in ('type', 'command', 'args', 'default', 'working_directory'):
                bad.append('unmodelled Process field %s' % n)
    if S.may or S.extends or S.helper_stores:
        bad.append('%d container mutation(s) on the way' % (len(S.may) + len(S.extends) + len(S.helper_stores)))
    if not bad and unclear:
        rep.unproven('R6', subject, where, 'the initial value of %s is not decided: %s' % (unclear, '; '.join('%s: %s' % (n, ', '.join(w)) for n, w in sorted(und.items()))
                                                                                              or 'build() reads it in a way that is not modelled'))
        return
    rep.check(not bad, 'R6', subject, where, 'new(type, command) = {type, every command element, no args, not default, app directory}',
              'ProcessBuilder::new does not build the process it was given: %s' % bad)


def check_data_ctors(prog, sl, rep):
    """Provide::new / Require::new / From<S> for Require / Require::metadata / ExecDProgramOutput::new / From<A>"""
    BP = 'libcnb_data::build_plan::'

    def one(path_rx, subject, pred, ok_msg, own_mutation_check=False):
        fs = prog.find(path_rx)
        if len(fs) != 1:
            rep.unproven('R6', subject, '-', 'constructor not found (%d candidates)' % len(fs))
            return
        f = fs[0]
        rep.analysed(f)
        S0 = Summary(prog, sl, f)
        used = []
        raw = fold_updates(f, S0, sl.inline_deep(sl.local(f, 0)), used)
        v = peel(raw)
        bad = pred(f, v)
        if not bad and not own_mutation_check:
            # (field stores into the literal that fold_updates applied are part of the value just checked)
            left = [a for a in S0.assigns if not any(a is u for u in used)]
            if S0.may or S0.extends or left or S0.helper_stores:
                bad = 'the value is modified after it was built (%d mutation(s))' % (len(S0.may) + len(S0.extends) + len(left) + len(S0.helper_stores))
        if bad and undecided(raw):
            rep.unproven('R6', subject, '%s:%d' % (f.file, f.line), 'the constructed value is not decided: %s' % ', '.join(undecided(raw)))
            return
        rep.check(not bad, 'R6', subject, '%s:%d' % (f.file, f.line), ok_msg, '%s does not carry its argument: %s' % (f.path, bad))

    def provide(f, v):
        if v[0] != 'agg' or v[1] != BP + 'Provide' or len(v[3]) != 1 or not is_param(v[3][0][1], f, 0):
            return _vs(v)

    def require(f, v):
        if v[0] != 'agg' or v[1] != BP + 'Require':
            return _vs(v)
        fl = dict(v[3])
        if not is_param(fl.get('name', ('unknown',)), f, 0) or not is_empty_value(fl.get('metadata', ('unknown',))):
            return _vs(v)
    one('^' + BP.replace('::', '::') + r'Provide::new$', 'Provide/new', provide, 'Provide::new(name) = {name}')
    one('^' + BP + r'Require::new$', 'Require/new', require, 'Require::new(name) = {name, empty metadata}')
    one(r'^<libcnb_data::build_plan::Require as std::convert::From<S>>::from$', 'Require/from', require, 'Require::from(name) = {name, empty metadata}')
    # Require::metadata(m): on success the metadata IS the table m serialises to (not merged into / kept from earlier calls)
    ms = prog.find('^' + BP + r'Require::metadata$')
    if len(ms) != 1:
        rep.unproven('R6', 'Require/metadata', '-', 'Require::metadata not found')
    else:
        f = ms[0]
        E = Effects(prog, sl)

        def table_of_arg(val):
            val = strip(val)
            if not (val[0] == 'field' and val[2] == '0'):
                return False
            b = strip(val[1])
            if not (b[0] == 'variant' and b[2] == 'Table'):
                return False
            src = strip(sl.inline_deep(b[1]))
            return src[0] == 'call' and src[1].endswith('Value::try_from') and len(src[2]) == 1 and is_param(src[2][0], f, 1)
        check_set(prog, sl, rep, f, 'metadata', 'Require/metadata', value_ok=table_of_arg, sites=[s.bb for s in E.sites(f)])
    # exec.d output
    XD = 'libcnb_data::exec_d::ExecDProgramOutput'

    def xd_new(f, v):
        if v[0] != 'agg' or v[1] != XD or len(v[3]) != 1 or not is_param(v[3][0][1], f, 0):
            return _vs(v)

    def xd_from(f, v):
        if v[0] != 'agg' or v[1] != XD or len(v[3]) != 1:
            return _vs(v)
        mv = v[3][0][1]

        def pair_ok(k, x):
            k, x = peel(sl.inline_deep(k)), peel(sl.inline_deep(x))
            return k[0] == 'field' and x[0] == 'field' and (k[2], x[2]) == ('0', '1') and _elem_of_param(k[1], f, 0) and _elem_of_param(x[1], f, 0)
        el = _single_collect_of(sl, mv, f, 0)
        S = Summary(prog, sl, f)
        if el is not None and (S.may or S.extends or S.assigns or S.helper_stores):
            return 'the collected map is modified afterwards'
        if el is not None:
            t = peel(sl.inline_deep(el))
            if t[0] == 'tuple' and len(t[1]) == 2 and pair_ok(t[1][0], t[1][1]):
                return None
            if _elem_of_param(t, f, 0):
                return None
            return 'collected entries are %s' % _vs(t)
        # a map filled by a loop over the argument
        ins = [e for e in S.must if e.kind == 'ACC:INSERT']
        others = [e for e in S.may if not any(e.call is i.call for i in ins)]
        base = strip(mv)
        if base[0] == 'concat':
            base = strip(base[1])
        if len(ins) == 1 and not others and not S.extends and not S.helper_stores and is_empty_value(base) and ins[0].forall is not None and is_param(ins[0].forall, f, 0) \
                and len(ins[0].args) == 3 and pair_ok(ins[0].args[1], ins[0].args[2]) and strip(ins[0].args[0])[0] == 'call' \
                and strip(ins[0].args[0])[3] == base[3]:
            return None
        return 'entries are not every (key, value) of the argument: %s' % _vs(mv)
    one('^' + XD + r'::new$', 'ExecDProgramOutput/new', xd_new, 'ExecDProgramOutput::new(map) = map')
    one(r'^<libcnb_data::exec_d::ExecDProgramOutput as std::convert::From<A>>::from$', 'ExecDProgramOutput/from', xd_from,
        'every (key, value) of the argument becomes an entry', own_mutation_check=True)
    # package descriptor references: TryFrom<&str> parses exactly the given text, TryFrom<PathBuf> the text of the path
    PD = 'libcnb_data::package_descriptor::'
    n = 0
    for f in prog.find(r'^<' + PD + r'PackageDescriptor(BuildpackReference|Dependency) as std::convert::TryFrom<.*>>::try_from$'):
        n += 1
        rep.analysed(f)
        short = f.path.split(' as ')[0].split('::')[-1] + '/try_from<' + f.args[0].split('::')[-1] + '>'
        v = peel(sl.mk_unwrap(sl.inline_deep(sl.local(f, 0)), 1))
        why = None
        if v[0] != 'agg' or len(v[3]) != 1 or not v[1].startswith(PD):
            why = 'no reference literal on success: %s' % _vs(v)
        else:
            u = peel(v[3][0][1])
            while u[0] == 'call' and u[1].endswith(('::into_owned', '::to_owned')) and len(u[2]) == 1:
                u = peel(u[2][0])
            if not (u[0] == 'call' and u[1].endswith('try_from') and len(u[2]) == 1):
                why = 'uri <- %s' % _vs(u)
            else:
                x = peel(u[2][0])
                while x[0] == 'call' and x[1] in ('std::path::Path::to_string_lossy', 'std::path::Path::to_str', 'std::ffi::OsStr::to_string_lossy', 'std::ffi::OsStr::to_str',
                                                 'std::path::Path::display', 'std::path::PathBuf::into_os_string', 'std::ffi::OsString::into_string') and len(x[2]) == 1:
                    x = peel(x[2][0])
                if not is_param(x, f, 0):
                    why = 'the parsed text is %s, not the argument' % _vs(x)
        rep.check(why is None, 'R6', short, '%s:%d' % (f.file, f.line), 'parses exactly the given text', '%s: %s' % (f.path, why))
    rep.check(n >= 3, 'R6', 'uri-ctors/floor', '-', '%d URI constructors' % n, 'only %d URI constructors found (3 were confirmed by hand)' % n)


# ---- R1: value shapes that are not key tables ------------------------------------------------------------------
NEWTYPES = {
    'libcnb_data::exec_d::ExecDProgramOutput': 'the map of variables itself (a TOML table of key = "value" pairs)',
    'libcnb_data::exec_d::ExecDProgramOutputKey': 'the key string',
    'libcnb_data::launch::ProcessType': 'the process type string',
}
# the content must be of a kind that TOML writes as the expected value kind: a string-keyed map (table) / a string
NEWTYPE_CONTENT = {
    'libcnb_data::exec_d::ExecDProgramOutput': r'^(std::collections::(\w+::)?(HashMap|BTreeMap)|indexmap::(map::)?IndexMap|toml::map::Map)<(libcnb_data::exec_d::ExecDProgramOutputKey|std::string::String), ?std::string::String\b',
    'libcnb_data::exec_d::ExecDProgramOutputKey': r'^std::string::String$',
    'libcnb_data::launch::ProcessType': r'^std::string::String$',
}


def find_ser_impl(prog, t):
    """the Serialize::serialize of type t, derived (`<mod>::_::<impl ..Serialize for T>::serialize`) or hand-written
    (`<T as ..Serialize>::serialize`): which of the two wrote the impl is not an obligation, what it calls is"""
    from .lib import serde_schema as S
    fs = S._find(prog, r"Serialize for %s>::serialize$" % S._ty_rx(t))
    if not fs:
        fs = S._find(prog, r"^<%s as (?:[\w:]+::)?Serialize>::serialize$" % S._ty_rx(t))
    return fs


def ser_struct(prog, sl, t):
    """serde_schema.ser_struct, also for a hand-written `impl Serialize for T` (read the same way: the keys are the
    constants handed to serialize_field / serialize_entry, the skip predicates the guards of those calls)"""
    from .lib import serde_schema as S
    se = S.ser_struct(prog, sl, t)
    if se is not None:
        return se
    fs = find_ser_impl(prog, t)
    if len(fs) != 1:
        return None
    orig = S._find
    S._find = lambda prog_, rx: fs if rx.startswith('Serialize for ') else orig(prog_, rx)
    try:
        return S.ser_struct(prog, sl, t)
    finally:
        S._find = orig


def r1_shapes(prog, sl, rep):
    """single-field wrapper types are written as their content (serde newtype / transparent), and a `serialize_with`
    function writes the Display text of the field it is given, unmodified"""
    from .lib import serde_schema as S
    for t, what in NEWTYPES.items():
        a = prog.adts.get(t)
        where = '%s:%s' % (a['file'], a['line']) if a else '-'
        fs = find_ser_impl(prog, t)
        if len(fs) != 1 or a is None:
            rep.unproven('R1', 'newtype/' + t, where, 'Serialize impl not found')
            continue
        f = fs[0]
        rep.analysed(f)
        fields = _fields(prog, t)
        sc = [c for c in f.calls if not c.indirect and c.decl and (c.decl.split('::')[-2:-1] == ['Serializer'] or c.decl.endswith(('Serialize::serialize', 'SerializeStruct::serialize_field', 'SerializeMap::serialize_entry')))]
        ok = len(fields) == 1 and len(sc) == 1
        why = 'written through %s' % [c.decl.split('::')[-1] for c in sc]
        if ok and not _re.match(NEWTYPE_CONTENT[t], fields[0]['ty']):
            ok = False
            why = 'its content is a %s' % fields[0]['ty']
            sc = []
        if ok and sc:
            c = sc[0]
            last = c.decl.split('::')[-1]
            if last == 'serialize_newtype_struct':
                v = peel(sl.operand(f, c.args[2]))
            elif last in ('serialize_str', 'collect_str'):
                v = peel(sl.inline_deep(sl.operand(f, c.args[1])))
            elif c.decl.endswith('Serialize::serialize'):
                v = peel(sl.operand(f, c.args[0]))
            else:
                v = ('unknown', last)
            r, names = fpath(v)
            ok = r[0] == 'param' and r[2] == 0 and names == [fields[0]['name']] and bool(c.dest) and c.dest[0] == 0
            why = '%s(%s)' % (last, _vs(v))
        rep.check(ok, 'R1', 'newtype/' + t, where, '%s is written as %s' % (t.split('::')[-1], what),
                  '%s is not written as its single content value (%s): an independent reader does not find %s' % (t.split('::')[-1], why, what))
    # serialize_with functions
    seen = set()
    for w in prog.find(r"^<libcnb_data::.*::serialize::__SerializeWith.* as .*Serialize>::serialize$"):
        for c in w.calls:
            for g in prog.callee_fns(c):
                if g.path in seen:
                    continue
                seen.add(g.path)
                rep.analysed(g)
                where = '%s:%d' % (g.file, g.line)
                arg0 = peel(sl.operand(w, c.args[0])) if c.args else ('unknown',)
                r, names = fpath(arg0)
                wired = r[0] == 'param' and names[:1] == ['values']
                E = Effects(prog, sl, vocab={n: ('SER', 1) for h in list(prog.reach([g]).values()) + [g] for cc in h.calls for n in (cc.decl,)
                                             if n and n.split('::')[-2:-1] == ['Serializer']})
                must = [e for e in E.expand(g, 'must') if e.kind == 'SER']
                may = [e for e in E.expand(g, 'may') if e.kind == 'SER']
                ok = wired and len(must) == 1 and len(may) == 1 and must[0].call.decl.endswith(('::serialize_str', '::collect_str'))
                v = peel(sl.inline_deep(must[0].path)) if ok else None
                ok = ok and is_param(v, g, 0)
                rep.check(ok, 'R1', 'with/' + g.path.split('::')[-1], where, 'writes the text of the field, unmodified',
                          '%s does not write the text of its field unmodified: %s' % (g.path.split('::')[-1], _vs(v) if v else [e.call.decl for e in may]))
    rep.check(len(seen) >= 1, 'R1', 'with/floor', '-', '%d serialize_with function(s)' % len(seen), 'no serialize_with function found (1 was confirmed by hand)')


def r2_readback(prog, sl, rep, types):
    """a type libcnb also reads back accepts every key it writes, for the same field"""
    from .lib import serde_schema as S
    for t in types:
        se, de = ser_struct(prog, sl, t), S.deser_struct(prog, sl, t)
        if se is None or de is None or de['kind'] != 'struct' or se['kind'] != 'struct':
            continue
        a = prog.adts.get(t)
        where = '%s:%s' % (a['file'], a['line']) if a else '-'
        bad = []
        for key, k in se['keys'].items():
            dk = de['keys'].get(key)
            if dk is None:
                bad.append('%s is written but read as %s' % (key, sorted(x.key for x in de['keys'].values() if x.field == k.field) or 'nothing'))
            elif k.field and dk.field and '{' not in k.field and k.field != dk.field:
                bad.append('%s is written from .%s but read into .%s' % (key, k.field, dk.field))
        rep.check(not bad, 'R2', 'readback/' + t, where, 'every written key is read back into the same field',
                  '%s does not read back what it writes: %s' % (t.split('::')[-1], '; '.join(bad)))


# ---- R2: what a skip predicate is true for / what a Deserialize default produces -------------------------------
# Both sides of the pairing are reduced to a *value class*:
#   ('empty',)                  a collection / string without elements
#   ('bool', b)                 the boolean b
#   ('variant', enum, {V..})    any value of one of the listed variants (for a default: the unit variant V itself)
# The std predicates / constructors are axioms; a workspace function (private helper named in the serde attribute,
# hand-written or derived Default impl, `default = "path"` function) is classified by the value it returns, in terms of
# its parameter — so `std::ops::Not::not`, `fn is_false(b: &bool) -> bool { !*b }`, `*b == false` and
# `if *b { false } else { true }` are one predicate, and `matches!(self, Self::App)` / an exhaustive `match` another.
_EMPTY_TY = _re.compile(r'^(&(mut )?)?(std::vec::Vec|std::string::String|std::collections::\w+(::\w+)*|toml::map::Map|indexmap::(map::)?IndexMap|\[)')
_STD = ('std::', 'core::', 'alloc::', 'toml::', 'indexmap::', '<std::', '<core::', '<alloc::', '<[', '<bool', '<toml::', '<indexmap::')


def _deref(v):
    """v without conversions and without the reference / copy plumbing a `&T` predicate argument goes through"""
    while True:
        v = peel(v)
        if v[0] in ('ref', 'deref', 'copy') and len(v) > 1 and isinstance(v[1], tuple):
            v = v[1]
        else:
            return v


def _is_p0(v, fn):
    v = _deref(v)
    return v[0] == 'param' and v[1] == fn.path and v[2] == 0


def _ty_class(ty):
    """the class `Default::default()` produces for a field of type ty"""
    ty = (ty or '').strip()
    if ty == 'bool':
        return ('bool', False)
    if _EMPTY_TY.match(ty) and not ty.startswith('['):
        return ('empty',)
    return None


def _all_variants(prog, enum):
    a = prog.adts.get(enum)
    return {v['name'] for v in a['variants']} if a and a.get('variants') else None


def _const_bool(v):
    v = strip(v)
    return v[1] if v[0] == 'const' and isinstance(v[1], bool) else None


def _neg(cls, prog=None):
    """the class the negated predicate is true for (the complement within bool / within the enum's variants)"""
    if cls and cls[0] == 'bool':
        return ('bool', not cls[1])
    if cls and cls[0] == 'variant' and prog is not None and _all_variants(prog, cls[1]):
        return ('variant', cls[1], frozenset(_all_variants(prog, cls[1]) - cls[2]))
    return None


def truth_class(prog, sl, name, _depth=0):
    """the class of values the one-argument predicate `name` is true for (None: not decided)"""
    if not name or _depth > 4:
        return None
    f = prog.fns.get(name)
    if f is None:
        last = name.split('::')[-1]
        if name.startswith(_STD) and last == 'is_empty':
            return ('empty',)
        if name in ('std::ops::Not::not', '<&bool as std::ops::Not>::not', '<bool as std::ops::Not>::not'):
            return ('bool', False)
        return None
    if f.argc != 1 or (f.ret or 'bool') != 'bool':
        return None
    return _truth_of(prog, sl, f, sl.inline_deep(sl.local(f, 0)), _depth)


def _truth_of(prog, sl, f, v, depth):
    v = strip(v)
    if _is_p0(v, f):
        return ('bool', True)
    if v[0] == 'un' and v[1] == 'Not':
        return _neg(_truth_of(prog, sl, f, v[2], depth), prog)
    if v[0] == 'bin' and v[1] in ('Eq', 'Ne'):
        for a, b in ((v[2], v[3]), (v[3], v[2])):
            cb = _const_bool(_deref(b))
            if cb is not None:
                inner = _truth_of(prog, sl, f, a, depth)
                if inner and inner[0] == 'bool':
                    same = (v[1] == 'Eq') == cb
                    return inner if same else _neg(inner)
            a0, b0 = _deref(a), _deref(b)
            if v[1] == 'Eq' and b0 == ('const', 0) and a0[0] == 'call' and a0[1].split('::')[-1] == 'len' and a0[1].startswith(_STD) \
                    and len(a0[2]) == 1 and _is_p0(a0[2][0], f):
                return ('empty',)
        return None
    if v[0] == 'call' and len(v[2]) == 1 and _is_p0(v[2][0], f):
        return truth_class(prog, sl, v[1], depth + 1)
    if v[0] == 'call' and v[1].endswith('::eq') and v[1].startswith(_STD) and len(v[2]) == 2:
        # `*b == false` through PartialEq
        for a, b in ((v[2][0], v[2][1]), (v[2][1], v[2][0])):
            cb = _const_bool(_deref(b))
            if cb is not None and _is_p0(a, f):
                return ('bool', cb)
        return None
    if v[0] == 'select' and _is_p0(v[1], f):
        allv = _all_variants(prog, v[2])
        listed = [n for names, _ in v[3] for n in names]
        if allv is None or set(listed) != allv or len(listed) != len(set(listed)):
            return None
        trues = set()
        for names, val in v[3]:
            cb = _const_bool(val)
            if cb is None:
                return None
            if cb:
                trues |= set(names)
        return ('variant', v[2], frozenset(trues))
    if v[0] == 'phi':
        return _truth_by_arms(prog, sl, f)
    return None


def _truth_by_arms(prog, sl, f):
    """`if *b { false } else { true }` / `match *b { true => false, false => true }`: every definition of the result is
    a boolean literal under one decision on the parameter itself"""
    from .lib.tables import arm_defs
    by = {}
    for bi, v, conds in arm_defs(f, 0, sl):
        if bi not in f.reachable(0):
            continue
        cb = _const_bool(v)
        cds = [c for c in conds if c.kind in ('bool', 'int')]
        if cb is None or len(cds) != 1 or len(conds) != 1:
            return None
        c = cds[0]
        if not _is_p0(c.value, f):
            return None
        oc = c.outcome
        if c.kind == 'int':
            oc = {0: False, 1: True}.get(oc if not isinstance(oc, (set, frozenset)) else (next(iter(oc)) if len(oc) == 1 else None))
        if not isinstance(oc, bool) or by.get(oc, cb) != cb:
            return None
        by[oc] = cb
    if set(by) != {True, False} or by[True] == by[False]:
        return None
    return ('bool', True) if by[True] else ('bool', False)


def default_class(prog, sl, name, ty, _depth=0):
    """the class of the value the Deserialize default callee `name` produces for a field of type ty"""
    if not name or name == 'None' or _depth > 4:
        return None
    f = prog.fns.get(name)
    if f is None:
        if name == 'std::default::Default::default':
            return _ty_class(ty)
        m = _re.match(r'^<(.+) as std::default::Default>::default$', name)
        if m:
            return _ty_class(m.group(1)) if m.group(1) not in ('T',) else _ty_class(ty)
        if name.startswith(_STD) and name.split('::')[-1] == 'new' and _EMPTY_TY.match(name.replace('::<', '<')):
            return ('empty',)
        return None
    if f.argc != 0:
        return None
    v = peel(sl.inline_deep(sl.local(f, 0)))
    cb = _const_bool(v)
    if cb is not None:
        return ('bool', cb)
    if v[0] == 'agg' and v[2] and not v[3] and _all_variants(prog, v[1]) and v[2] in _all_variants(prog, v[1]) and prog.adts[v[1]].get('kind') == 'enum':
        return ('variant', v[1], frozenset({v[2]}))
    if v[0] == 'call':
        # another constructor: a workspace one is classified in turn, a std one by name / by this function's return type
        return default_class(prog, sl, v[1], f.ret or ty, _depth + 1) if not v[2] else None
    if is_empty_value(v):
        return ('empty',)
    return None


def class_str(c):
    if c is None:
        return 'undecided'
    if c[0] == 'variant':
        return '/'.join(sorted(c[2])) or 'nothing'
    return 'empty' if c[0] == 'empty' else str(c[1]).lower()


# ---- R5: exec.d payload ----------------------------------------------------------------------------------------
def execd_payload(prog, sl, rep, fn):
    """what reaches the fd-3 file: on every path exactly one complete write (write_all / write!) of
    toml::to_string(<the argument>.into()), its result not dropped"""
    from .lib.discard import result_fates, verdict
    W = 'std::io::Write::'
    vocab = {W + 'write_all': ('FDW:all', 0), W + 'write': ('FDW:partial', 0), W + 'write_vectored': ('FDW:partial', 0),
             W + 'write_fmt': ('FDW:fmt', 0), W + 'write_all_vectored': ('FDW:all', 0)}
    E = Effects(prog, sl, vocab=vocab)
    must = [e for e in E.expand(fn, 'must') if e.kind.startswith('FDW:')]
    may = [e for e in E.expand(fn, 'may') if e.kind.startswith('FDW:')]
    where = '%s:%d' % (fn.file, fn.line)

    def on_fd(e):
        # (the descriptor may be opened by a private helper: look through it)
        return any(x[0] == 'call' and x[1].endswith('from_raw_fd') for x in walk(sl.inline_deep(e.args[0]))) if e.args else False
    ok = len(must) == 1 and len(may) == 1 and on_fd(must[0])
    why = 'writes: always %s, possibly %s' % ([e.call.decl.split('::')[-1] for e in must], [e.call.decl.split('::')[-1] for e in may])
    if ok:
        e = must[0]
        ok = e.kind in ('FDW:all', 'FDW:fmt')
        why = '%s may write only a prefix of the document' % e.call.decl.split('::')[-1]
    if ok:
        dv = sl.inline_deep(e.args[1])
        if e.kind == 'FDW:fmt':
            dv0 = strip(dv)
            dv = dv0[1][0] if dv0[0] == 'fmt' and len(dv0[1]) == 1 and isinstance(dv0[1][0], tuple) else ('unknown', 'formatted')
        d = peel(dv)
        ok = d[0] == 'call' and d[1] in ('toml::to_string', 'toml::to_string_pretty', 'toml::ser::to_string') and len(d[2]) == 1 and is_param(d[2][0], fn, 0)
        why = 'the bytes written are %s, not toml::to_string(argument)' % _vs(dv)
    if ok:
        # the write's own result, and the result of every helper on the way up that hands a Result back, is propagated
        # or unwrapped (a helper returning () has already dealt with it)
        links = [l.call if hasattr(l, 'call') else l for l in e.chain] + [e.call]
        fates = [verdict(result_fates(prog, c.fn, c)) for c in links
                 if c is e.call or (c.dty or '').startswith(('std::result::Result<', 'std::io::Result<', 'std::option::Option<'))]
        ok = all(v in ('ok', 'panics') for v in fates)
        why = 'the result of the write is %s' % ' / '.join(fates)
    rep.check(ok, 'R5', 'exec_d/payload', where, 'fd 3 receives one complete write of toml::to_string(output), failure not ignored',
              'exec.d output is not one complete, checked write of the serialised argument: %s' % why)
