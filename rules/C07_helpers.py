"""Helpers of C07.

R4 (or-group queue discipline) is stated on an *abstract queue* rather than on `VecDeque<(Vec, Vec)>`:

  queue            the field of BuildPlanBuilder that is not one of the two `current_*` lists (whatever its container
                   type: VecDeque or Vec) — `queue_names`, `is_queue`
  queue effects    VecDeque::push_back / Vec::push on the queue = append at the BACK; push_front / insert = FRONT insert;
                   pop_front / Vec::remove(0) = take from the FRONT; pop_back / Vec::pop / swap_remove / remove(i>0) = take
                   out of order.  Vec operations count only when their (substituted) receiver is the queue — `queue_effects`
  group record     what is appended: a two-component record carrying current_provides and current_requires — the tuple
                   `(p, r)` (components '0' / '1') or the struct `Or { provides: p, requires: r }` (components 'provides' /
                   'requires'), each directly or through mem::take / mem::replace — `group_shape`, `roles`
  consumption      top level <- front.<provides component> / front.<requires component>; every remaining element e, in
                   order, becomes Or{provides <- e.<provides component>, requires <- e.<requires component>}; when the queue
                   already holds `Or` records under the components 'provides' / 'requires', handing the remaining elements
                   through unchanged (collect) is that mapping.

R5: `owners` attributes a call site inside private helpers to the public functions they are reachable from; `fd_effects`
reads the raw file descriptors opened on the paths of a function through helpers (interprocedural effects).
"""
from .lib import iters
from .lib.effects import Effects
from .lib.paths import strip
from .lib.value import walk

BUILDER = 'libcnb_data::build_plan::BuildPlanBuilder'
PLAN = 'libcnb_data::build_plan::BuildPlan'
OR = 'libcnb_data::build_plan::Or'
CURRENT = ('current_provides', 'current_requires')

QV = {
    'std::collections::VecDeque::<T, A>::push_back': ('QPUSH_BACK', 1),
    'std::collections::VecDeque::<T, A>::push_front': ('QPUSH_FRONT', 1),
    'std::collections::VecDeque::<T, A>::pop_front': ('QPOP_FRONT', 0),
    'std::collections::VecDeque::<T, A>::pop_back': ('QPOP_BACK', 0),
    'std::collections::VecDeque::<T, A>::insert': ('QPUSH_FRONT', 1),
    # a Vec used as the queue: only when the receiver is the queue (see queue_effects)
    'std::vec::Vec::<T, A>::push': ('VEC:QPUSH_BACK', 1),
    'std::vec::Vec::<T, A>::insert': ('VEC:QPUSH_FRONT', 1),
    'std::vec::Vec::<T, A>::pop': ('VEC:QPOP_BACK', 0),
    'std::vec::Vec::<T, A>::swap_remove': ('VEC:QPOP_BACK', 0),
    'std::vec::Vec::<T, A>::remove': ('VEC:REMOVE', 0),
}
# order-changing / element-dropping operations that must not occur on the way from the queue to the written groups
REORDER = ('rev', 'reverse', 'sort', 'sort_by', 'sort_by_key', 'filter', 'filter_map', 'skip', 'take', 'step_by', 'dedup',
           'rotate_left', 'rotate_right', 'swap', 'make_contiguous', 'next_back', 'nth_back', 'skip_while', 'take_while',
           'map_while')


def _fields(prog, adt):
    a = prog.adts.get(adt)
    if not a or not a.get('variants'):
        return []
    return a['variants'][0]['fields']


def queue_names(prog):
    ns = {f['name'] for f in _fields(prog, BUILDER) if f['name'] not in CURRENT}
    return ns or {'acc'}


def queue_holds_or(prog):
    """the queue's element type is the written struct `Or` itself"""
    tys = [f['ty'] for f in _fields(prog, BUILDER) if f['name'] not in CURRENT]
    return bool(tys) and all(t.endswith('<' + OR + '>') for t in tys)


def _root(v):
    v = strip(v)
    while v[0] == 'field':
        v = strip(v[1])
    return v


def is_queue(prog, v):
    """v denotes the builder's queue field (of self, or of the builder returned by another builder method)"""
    v = strip(v)
    if v[0] == 'call' and v[1].endswith(('::into_iter', '::iter', '::iter_mut', '::drain')) and v[2]:
        v = strip(v[2][0])
    if v[0] != 'field' or v[2] not in queue_names(prog):
        return False
    if v[2] not in {f['name'] for f in _fields(prog, PLAN)}:
        return True
    r = _root(v)
    return (r[0] == 'param' and r[1].startswith(BUILDER + '::')) or (r[0] == 'call' and r[1].startswith(BUILDER + '::'))


def queue_effects(E, prog, fn, mode):
    """queue effects of fn with Vec operations on the queue renamed to the abstract kinds (others dropped)"""
    out = []
    for e in E.expand(fn, mode):
        if not e.kind.startswith('VEC:'):
            out.append(e)
            continue
        if not e.args or not is_queue(prog, e.args[0]):
            continue
        k = e.kind[4:]
        if k == 'REMOVE':
            k = 'QPOP_FRONT' if len(e.args) > 1 and strip(e.args[1]) == ('const', 0) else 'QPOP_BACK'
        e.kind = k
        out.append(e)
    return out


def _components(v):
    v = strip(v)
    if v[0] == 'tuple':
        return [(str(i), x) for i, x in enumerate(v[1])]
    if v[0] == 'agg' and v[1] == OR:
        return list(v[3])
    return None


def group_shape(v):
    """{component name: builder field carried} of an appended group record, None when v is not such a record"""
    comps = _components(v)
    if comps is None or len(comps) != 2:
        return None
    shape = {}
    for name, x in comps:
        x = strip(x)
        if x[0] == 'call' and x[1] in ('std::mem::take', 'std::mem::replace') and x[2]:
            x = strip(x[2][0])
        shape[name] = x[2] if x[0] == 'field' and strip(x[1])[0] == 'param' and strip(x[1])[2] == 0 else None
    return shape


def roles(shape):
    """(component holding current_provides, component holding current_requires) or (None, None)"""
    if not shape or sorted(v or '' for v in shape.values()) != sorted(CURRENT):
        return None, None
    inv = {v: k for k, v in shape.items()}
    return inv['current_provides'], inv['current_requires']


def all_taken(v):
    comps = _components(v)
    return bool(comps) and all(strip(x)[0] == 'call' and strip(x)[1] == 'std::mem::take' for _, x in comps)


def r4(prog, sl, rep):
    # Queue discipline, stated over interprocedural MUST / MAY effects so that helper extraction does not matter:
    #   or():    on every path pushes the group record of (current_provides, current_requires) at the BACK and leaves
    #            both lists empty
    #   build(): on every path first closes the current group the same way (also when it is empty), then takes the
    #            FRONT as the top-level group; nothing is ever pushed at the front or popped from the back
    E = Effects(prog, sl, vocab=QV)
    orf = prog.fn(BUILDER + '::or')
    bf = prog.fn(BUILDER + '::build')
    rep.analysed(orf)
    rep.analysed(bf)
    qnames = queue_names(prog)

    def resets_ok(e):
        """both current lists are empty after the push: assigned Vec::new()/default in the pushing function, or taken"""
        f = e.call.fn
        if all_taken(sl.operand(f, e.call.args[1])):
            return True
        got = set()
        for key, defs in f.defs().items():
            if isinstance(key, tuple):
                for d in defs:
                    if d[0] == 'stmt':
                        fld = [p_ for p_ in d[4][1:] if p_ != '*']
                        val = strip(sl._rvalue(f, d[3], set(), 0, None))
                        if fld and val[0] == 'call' and val[1] in ('std::vec::Vec::<T>::new', 'std::default::Default::default') and f.dominates(e.call.bb, d[1]):
                            got.add(fld[0])
        return {'.current_provides', '.current_requires'} <= got

    om = [e for e in queue_effects(E, prog, orf, 'must') if e.kind == 'QPUSH_BACK']
    pc, rc = roles(group_shape(om[0].path)) if len(om) == 1 else (None, None)
    ok = len(om) == 1 and pc is not None
    rep.check(ok, 'R4', 'or/push_back', '%s:%d' % (orf.file, orf.line), 'or() always appends (current_provides, current_requires) at the back',
              'or() does not unconditionally push (current_provides, current_requires) at the back of the queue')
    rep.check(ok and resets_ok(om[0]), 'R4', 'or/reset', '%s:%d' % (orf.file, orf.line), 'both current lists are left empty', 'or() does not reset both current lists')
    bm = queue_effects(E, prog, bf, 'must')
    bmay = queue_effects(E, prog, bf, 'may')
    closes = [e for e in bm if e.kind == 'QPUSH_BACK']
    order = [id(e) for e in bm]
    # the close pushes the record of the *current* lists (in build()'s own terms), with the same component roles
    ok = len(closes) == 1 and pc is not None and roles(group_shape(closes[0].path)) == (pc, rc)
    if ok:
        mp = [e for e in bm if e.kind == 'QPOP_FRONT']
        if mp:
            ok = order.index(id(closes[0])) < order.index(id(mp[0]))
        else:
            # front taken through queue.into_iter().next(): the conversion must happen after the close
            conv = [c for c in bf.calls if c.decl == 'std::iter::IntoIterator::into_iter' and strip(sl.operand(bf, c.args[0]))[0] == 'field'
                    and strip(sl.operand(bf, c.args[0]))[2] in qnames]
            top_close = closes[0].chain[0] if closes[0].chain else closes[0].call
            ok = len(conv) == 1 and bf.dominates(top_close.bb, conv[0].bb)
    rep.check(ok, 'R4', 'build/head', '%s:%d' % (bf.file, bf.line), 'build() always closes the current group (even an empty one), then takes the front group as top level',
              'build() does not unconditionally close the current group before taking the front of the queue: a trailing (empty) alternative can be lost')
    bad = [e for e in bmay + queue_effects(E, prog, orf, 'may') if e.kind in ('QPUSH_FRONT', 'QPOP_BACK')]
    rep.check(not bad, 'R4', 'fifo', '%s:%d' % (bf.file, bf.line), 'groups are only appended at the back and taken from the front', 'queue used out of FIFO order: %s' % [e.call.name for e in bad[:2]])
    # top-level group <- front element (provides / requires component); remaining elements mapped in order to
    # Or{provides <- provides component, requires <- requires component}.
    # Accepted idioms: pop_front() + `for alt in queue { or.push(Or{..}) }`, or queue.into_iter(): next() + map(..).collect(),
    # or (queue of Or records) next() + collect()
    reach = [bf] + [f for f in prog.reach([bf]).values() if f.path != bf.path and f.crate == 'libcnb_data']

    def front_elem(v):
        """v is the element taken from the FRONT of the queue: unwrap(pop_front(queue)) / unwrap(next(into_iter(queue)))"""
        v = strip(v)
        if v[0] == 'call' and v[1].endswith('::pop_front'):
            return True
        if v[0] == 'call' and v[1].endswith('::remove') and len(v[2]) == 2 and strip(v[2][1]) == ('const', 0) and is_queue(prog, v[2][0]):
            return True
        if v[0] == 'call' and v[1] == 'std::iter::Iterator::next':
            src = strip(v[2][0])
            return (src[0] == 'field' and src[2] in qnames) or (src[0] == 'call' and src[1].endswith('into_iter'))
        return False
    top = {}
    vals_all = []
    for f in reach:
        vals = []
        for key, defs in f.defs().items():
            if isinstance(key, tuple):
                for d in defs:
                    if d[0] == 'stmt' and f.locals[d[4][0]].get('head') == PLAN:
                        fld = [p_ for p_ in d[4][1:] if p_ != '*'][0]
                        vals.append((fld, sl._rvalue(f, d[3], set(), 0, None)))
        for b in f.blocks:
            for st in b['s']:
                if st[0] == '=' and st[2]['r'] == 'agg' and st[2].get('adt') == PLAN:
                    v = sl._rvalue(f, st[2], set(), 0, None)
                    vals += [('.' + n, fv) for n, fv in v[3]]
        vals_all.extend(vals)
        for fld, v in vals:
            v0 = strip(v)
            if fld in ('.provides', '.requires') and v0[0] == 'field' and front_elem(v0[1]):
                top[fld] = v0[2]
    rep.check(pc is not None and top.get('.provides') == pc and top.get('.requires') == rc, 'R4', 'build/top-level', '%s:%d' % (bf.file, bf.line),
              'top level provides <- front.%s, requires <- front.%s' % (pc, rc), 'top-level group is assigned from %s' % top)
    ors = []
    cands = {}
    for f in reach + [g for f0 in reach for g in prog.closures_of(f0)]:
        cands[f.path] = f
    for f in cands.values():
        for b in f.blocks:
            for st in b['s']:
                if st[0] == '=' and st[2]['r'] == 'agg' and st[2].get('adt') == OR:
                    ors.append((f, st))
    # Or literals that ARE the appended group record (a queue of Or records) are not conversions of queue elements
    typed = queue_holds_or(prog) and (pc, rc) == ('provides', 'requires')
    if typed:
        pushed = [(e.call.fn.path, strip(sl.operand(e.call.fn, e.call.args[1]))) for e in bmay + queue_effects(E, prog, orf, 'may') if e.kind == 'QPUSH_BACK']
        ors = [(f, st) for f, st in ors if (f.path, sl._rvalue(f, st[2], set(), 0, None)) not in pushed]

    def elem_roles_ok(p_, r_):
        return p_[0] == 'field' and r_[0] == 'field' and pc is not None and p_[2] == pc and r_[2] == rc and strip(p_[1]) == strip(r_[1])
    how = None
    if typed and not ors:
        # the remaining Or records are handed through unchanged: the `or` field is the collection of the queue's
        # (one and only) iterator, every element, unfiltered
        ok = False
        srcs = [c for g in reach for c in g.calls if (c.decl or c.name or '').endswith(('::into_iter', '::iter', '::iter_mut', '::drain'))
                and c.args and is_queue(prog, sl.operand(g, c.args[0]))]
        for fld, v in vals_all:
            if fld != '.or':
                continue
            al = iters.alts(sl, v)
            if len(al) == 1 and not al[0][2] and al[0][1] is not None and is_queue(prog, al[0][1]) \
                    and strip(al[0][0]) == strip(iters.elem_of(al[0][1])) and len(srcs) == 1:
                ok = True
                how = 'collect of Or records'
    else:
        ok = len(ors) == 1
    if ok and how is None:
        f, st = ors[0]
        v = sl._rvalue(f, st[2], set(), 0, None)
        fl = dict(v[3])
        p_, r_ = strip(fl['provides']), strip(fl['requires'])
        same = elem_roles_ok(p_, r_)
        elem = strip(p_[1]) if same else ('unknown',)
        if same and elem[0] == 'call' and elem[1] == 'std::iter::Iterator::next':
            how = 'loop'
            in_loop = [c for c in f.calls if c.name == 'std::vec::Vec::<T, A>::push' and f.in_loop(c.bb)]
            ok = len(in_loop) == 1
        elif same and elem[0] == 'param' and f.kind == 'Closure':
            # closure handed to Iterator::map whose result is collected
            parent = prog.fns.get(f.parent)
            mp = [c for c in (parent.calls if parent else []) if c.decl == 'std::iter::Iterator::map' and any(y[0] == 'closure' and y[1] == f.path for y in walk(sl.operand(parent, c.args[1])))]
            how = 'map-collect'
            ok = len(mp) == 1 and any(c.decl == 'std::iter::Iterator::collect' for c in parent.calls)
        else:
            # Or built by a helper handed to Iterator::map (fn item), collected into the `or` field: read the elements of
            # that field's value with the iterator algebra
            ok = False
            for fld, v in vals_all:
                if fld != '.or':
                    continue
                al = iters.alts(sl, v)
                if len(al) == 1 and not al[0][2] and al[0][1] is not None:
                    ev = strip(sl.inline_deep(al[0][0]))
                    if ev[0] == 'agg' and ev[1] == OR:
                        fl2 = dict(ev[3])
                        p2, r2 = strip(fl2['provides']), strip(fl2['requires'])
                        ok = elem_roles_ok(p2, r2) and strip(p2[1])[0] == 'call' and strip(p2[1])[1] == 'std::iter::Iterator::next'
                        how = 'map(helper)-collect'
    if ok:
        names = [c.decl or '' for g in reach for c in g.calls if (c.decl or '').startswith(('std::iter::Iterator::', 'std::iter::DoubleEndedIterator::'))]
        names += [c.name or '' for g in reach for c in g.calls if (c.name or '').startswith(('std::collections::VecDeque', 'core::slice::', 'std::vec::Vec'))]
        ok = not any(n.split('::')[-1] in REORDER for n in names)
    rep.check(ok, 'R4', 'build/alternatives', '%s:%d' % (bf.file, bf.line), 'every remaining group mapped in order to Or{provides <- .%s, requires <- .%s} (%s)' % (pc, rc, how),
              'alternatives are not mapped one-to-one in order')


# ---- R5 ----------------------------------------------------------------------------------------------------
def owners(prog, fn, allowed, _seen=None):
    """the functions a call site inside fn is attributable to: fn itself when it is one of `allowed`, public, or never
    called; otherwise (private helper / closure) the owners of every workspace function that calls or mentions it"""
    _seen = _seen if _seen is not None else set()
    if fn.path in allowed:
        return {fn.path}
    if fn.path in _seen:
        return set()
    _seen.add(fn.path)
    if fn.kind == 'Closure':
        p = prog.fns.get(fn.parent)
        return owners(prog, p, allowed, _seen) if p is not None else {fn.path}
    if fn.vis == 'pub':
        return {fn.path}
    cs = [c for c in prog.callers().get(fn.path, []) if c.fn.path != fn.path]
    if not cs:
        return {fn.path}
    out = set()
    for c in cs:
        out |= owners(prog, c.fn, allowed, _seen)
    return out


def fd_effects(prog, sl, fn):
    """(raw fds opened on every path of fn, raw fds opened on some path) — through private helpers, arguments substituted"""
    names = set()
    for g in prog.reach([fn]).values():
        for c in g.calls:
            for n in (c.res, c.decl):
                if n and n.endswith('from_raw_fd'):
                    names.add(n)
    E = Effects(prog, sl, vocab={n: ('RAWFD', 0) for n in names})
    must = [strip(e.path) for e in E.expand(fn, 'must') if e.kind == 'RAWFD']
    may = [strip(e.path) for e in E.expand(fn, 'may') if e.kind == 'RAWFD']
    return must, may
