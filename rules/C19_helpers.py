"""Helpers of rule C19: spelling-independent views of the facts.

  nf(sl, v)            deep value normal form: private helpers inlined, `unwrap` re-normalised (map / and_then / `?` /
                       early-return phis), Option/Result eliminators with closures (`map_or_else`, `unwrap_or_else`, ..)
                       turned into the alternatives they select between
  fn_alts(sl, S, fn)   success-dependency analysis: the success alternatives of a Result/Option-returning function as
                       [(payload value, [values that must have been Ok/Some])] — the same answer for
                       `a?; b?; Ok(x)`, `a.and(b).map(|_| x)`, `a.and_then(|_| b).map(|_| x)` and
                       `match (a, b) { (Ok(_), Ok(_)) => Ok(x), .. }`
  partitions(..)       loops that visit an in-order partition of a slice parameter (its bytes; its `split_inclusive`
                       segments) together with the test that says "this part ends with the marker"
  guard_views(..)      boolean facts implied by the guards of an effect (incl. `Option::filter(p)` being Some => p)
"""
from .lib.mir import op_place
from .lib.value import Slicer, subst, walk, canon, _phi, _err_like
from .lib.guards import conditions
from .lib.paths import strip
from .lib.effects import guards_of
from .lib import iters

LEAF = ('const', 'param', 'fnitem', 'constitem', 'unknown', 'closure_env', 'upvar')
OPT, RES = 'std::option::Option::<T>::', 'std::result::Result::<T, E>::'
OKISH = {'Continue', 'Ok', 'Some'}


def sym_slicer(sl):
    """slicer that keeps captured variables symbolic (they are bound to a concrete closure value afterwards)"""
    if getattr(sl, '_sym', None) is None:
        sl._sym = Slicer(sl.prog, sl.max_depth)
        sl._sym.symbolic_upvars = True
    return sl._sym


def _diverged(v):
    return v is None or (v[0] == 'unknown' and len(v) > 1 and str(v[1]).startswith('no-def _0'))


# ---- value normal form --------------------------------------------------------------------------------------------
def nf(sl, v, keep=(), d=0):
    if not isinstance(v, tuple) or not v or d > 10:
        return v
    if not isinstance(v[0], str):
        return tuple(nf(sl, x, keep, d) if isinstance(x, tuple) else x for x in v)
    k = v[0]
    if k in LEAF:
        return v
    if k == 'agg' and len(v) == 4:
        return ('agg', v[1], v[2], tuple((n, nf(sl, x, keep, d)) for n, x in v[3]))
    out = tuple(nf(sl, x, keep, d) if isinstance(x, tuple) else x for x in v)
    if k == 'unwrap':
        r = sl.mk_unwrap(out[1], 1)
        if r != out and r[0] != 'unwrap':
            return nf(sl, r, keep, d + 1)
        return r
    if k == 'field' and len(out) == 3:
        return sl._field(out[1], out[2])
    if k == 'variant' and len(out) == 3:
        return sl._variant(out[1], out[2])
    if k == 'phi':
        return _phi(list(out[1]))
    if k == 'call' and len(out) == 4:
        name, args = out[1], out[2]
        g = sl.prog.fns.get(name)
        if g is not None and name not in keep and g.kind != 'Closure':
            iv = sl.inline_call(out)
            if iv is not None and iv != out and not _diverged(iv):
                return nf(sl, iv, keep, d + 1)
        alts = eliminator_alts(sl, name, args)
        if alts is not None:
            return _phi([nf(sl, a, keep, d + 1) for a in alts]) if alts else out
    return out


def eliminator_alts(sl, name, args):
    """`x.map_or_else(d, f)` is `d()` or `f(payload of x)`; `x.unwrap_or_else(f)` is the payload or `f(..)`; alternatives
    whose closure never returns (resume_unwind / panic / exit) do not produce a value"""
    ap = sl.apply_closure
    ok = lambda x: sl.mk_unwrap(x, 1)
    alts = None
    if name in (OPT + 'map_or_else', RES + 'map_or_else') and len(args) == 3:
        alts = [ap(args[1], () if name.startswith(OPT) else (('unwrap_err', args[0]),)), ap(args[2], (ok(args[0]),))]
    elif name in (OPT + 'map_or', RES + 'map_or') and len(args) == 3:
        alts = [args[1], ap(args[2], (ok(args[0]),))]
    elif name == RES + 'unwrap_or_else' and len(args) == 2:
        alts = [ok(args[0]), ap(args[1], (('unwrap_err', args[0]),))]
    elif name == OPT + 'unwrap_or_else' and len(args) == 2:
        alts = [ok(args[0]), ap(args[1], ())]
    elif name in (OPT + 'unwrap_or', RES + 'unwrap_or') and len(args) == 2:
        alts = [ok(args[0]), args[1]]
    if alts is None:
        return None
    if any(a is None for a in alts):
        return None
    return [a for a in alts if not _diverged(a)]


# ---- success-dependency analysis ----------------------------------------------------------------------------------
def cond_deps(S, fn, bb):
    """values that were Ok / Some / Continue on every path to bb"""
    out = []
    for cd in conditions(fn, bb, S):
        if cd.kind == 'variant' and cd.outcome and set(cd.outcome) <= OKISH and cd.subject is not None:
            s = cd.subject
            if s[0] == 'call' and s[1] == 'std::ops::Try::branch' and s[2]:
                s = s[2][0]
            out.append(s)
    return out


def fn_alts(sl, S, fn, local=0, depth=0, seen=()):
    """[(payload, deps)] for every way the value in `local` (default: the return place) can be a success"""
    alts = []
    if depth > 8:
        return alts
    for d in fn.whole_defs(local):
        bb = d[1]
        cdeps = cond_deps(S, fn, bb)
        if d[0] == 'stmt':
            rv = d[3]
            if rv['r'] == 'agg' and rv.get('adt') in ('std::result::Result', 'std::option::Option'):
                if rv.get('variant') in ('Err', 'None'):
                    continue
                alts.append((S.operand(fn, rv['ops'][0]), cdeps))
                continue
            if rv['r'] == 'use':
                pl = op_place(rv['o'])
                if pl and len(pl) == 1 and not (1 <= pl[0] <= fn.argc) and fn.whole_defs(pl[0]) and (fn.path, pl[0]) not in seen:
                    for p, ds in fn_alts(sl, S, fn, pl[0], depth + 1, seen + ((fn.path, pl[0]),)):
                        alts.append((p, cdeps + ds))
                    continue
            v = S._rvalue(fn, rv, set(), 0, None)
        elif d[0] == 'call':
            c = d[3]
            if c.decl and c.decl.endswith('FromResidual::from_residual'):
                continue
            v = S._call_value(fn, c, set(), 0)
        else:
            continue
        for p, ds in value_alts(sl, v, depth + 1):
            alts.append((p, cdeps + ds))
    return alts


def closure_alts(sl, clv, args, depth):
    """success alternatives of calling closure / fn item `clv` (a value in outer terms) with `args`"""
    g = sl.prog.fns.get(clv[1]) if clv and clv[0] in ('closure', 'fnitem') else None
    if g is None:
        v = ('call', clv[1], tuple(args), None) if clv and clv[0] == 'fnitem' else ('unknown', 'callee')
        return [(('unwrap', v), [v])]
    if clv[0] == 'closure':
        S, off = sym_slicer(sl), 1
        m = {('upvar', g.path, i): uv for i, uv in enumerate(clv[2])}
    else:
        S, off, m = sl, 0, {}
    for i, a in enumerate(args):
        m[(g.path, off + i)] = a
    return [(subst(p, m, sl), [subst(x, m, sl) for x in ds]) for p, ds in fn_alts(sl, S, g, 0, depth + 1)]


PASS_OK = {RES + 'map_err', RES + 'inspect_err', RES + 'inspect', OPT + 'inspect', OPT + 'ok_or', OPT + 'ok_or_else'}


def value_alts(sl, v, depth=0):
    """success alternatives of a Result/Option-typed value expression"""
    leaf = [(sl.mk_unwrap(v, 1), [v])]
    if depth > 10 or not isinstance(v, tuple) or not v:
        return leaf
    k = v[0]
    if k == 'phi':
        out = []
        for x in v[1]:
            if not _err_like(x):
                out.extend(value_alts(sl, x, depth + 1))
        return out
    if k == 'agg' and v[1] in ('std::result::Result', 'std::option::Option') and v[2] in ('Ok', 'Some', 'Err', 'None'):
        return [(v[3][0][1], [])] if v[2] in ('Ok', 'Some') and v[3] else []
    if k != 'call' or len(v) != 4:
        return leaf
    name, args = v[1], v[2]
    if name in (RES + 'map', OPT + 'map') and len(args) == 2:
        out = []
        for p, ds in value_alts(sl, args[0], depth + 1):
            r = sl.apply_closure(args[1], (p,))
            out.append((r if r is not None else ('unknown', 'map-closure'), ds))
        return out
    if name in (RES + 'and_then', OPT + 'and_then') and len(args) == 2:
        out = []
        for p, ds in value_alts(sl, args[0], depth + 1):
            for p2, ds2 in closure_alts(sl, args[1], (p,), depth + 1):
                out.append((p2, ds + ds2))
        return out
    if name in (RES + 'and', OPT + 'and') and len(args) == 2:
        return [(pb, da + db) for _, da in value_alts(sl, args[0], depth + 1) for pb, db in value_alts(sl, args[1], depth + 1)]
    if name in PASS_OK and args:
        return value_alts(sl, args[0], depth + 1)
    return leaf


# ---- effects ------------------------------------------------------------------------------------------------------
def top_call(e, fn=None):
    """the call site through which effect e is reached inside `fn` (default: the entry function of the expansion)"""
    calls = [l.call for l in e.chain] + [e.call]
    if fn is None:
        return calls[0]
    for c in calls:
        if c.fn is fn:
            return c
    return None


def guard_views(E, e):
    """[(value, outcome, Cond)] boolean facts that hold whenever effect e runs: the guards at every level of its call
    chain (private boolean helpers inlined), plus what a Some-tested `Option::filter(x, p)` says about p"""
    sl = E.slicer
    out = []
    for cd, views, subj in guards_of(E, e):
        if cd.kind == 'bool':
            out.extend((v, oc, cd) for v, oc in views)
        elif cd.kind == 'variant' and subj is not None and cd.outcome and set(cd.outcome) <= {'Some'}:
            s = strip(subj)
            if s[0] == 'call' and s[1] == OPT + 'filter' and len(s[2]) == 2:
                r = sl.apply_closure(s[2][1], (sl.mk_unwrap(s[2][0], 1),))
                oc = True
                while r is not None and r[0] == 'un' and r[1] == 'Not':
                    r, oc = r[2], not oc
                if r is not None:
                    out.append((r, oc, cd))
    return out


# ---- in-order partitions of a slice parameter -----------------------------------------------------------------------
IT = iters.IT
ORDERED_SAME = {IT + 'copied', IT + 'cloned', IT + 'by_ref', IT + 'peekable', IT + 'fuse'}


def peel_same(v):
    """the slice behind `xs`, `xs.iter()`, `xs.iter().copied()`, `(&xs).into_iter()` .. (same elements, same order)"""
    v = strip(v)
    while v[0] == 'call' and v[2] and (v[1] in ORDERED_SAME or (v[1].endswith(('::iter', '::into_iter')) and not v[1].startswith(IT))):
        v = strip(v[2][0])
    return v


def is_param(v, fn, idx):
    v = strip(v)
    return v[0] == 'param' and v[1] == fn.path and v[2] == idx


class Partition:
    """a loop of fn whose elements are, in order, parts of parameter `buf` whose concatenation is `buf`:
       kind 'bytes'     every byte                       (for b in buf)
       kind 'segments'  buf.split_inclusive(|b| b == M)  every segment ends right after its first (and only) M, the last
                        one may lack it"""

    def __init__(self, fn, loop, kind, marker=None):
        self.fn, self.loop, self.kind, self.marker = fn, loop, kind, marker

    def is_elem(self, v):
        v = strip(v)
        while v[0] == 'cast':
            v = strip(v[1])
        return v[0] == 'call' and v[1] == IT + 'next' and len(v) == 4 and v[3] == (self.fn.path, self.loop.header)

    APPEND = {'bytes': ('std::vec::Vec::<T, A>::push',), 'segments': ('std::vec::Vec::<T, A>::extend_from_slice',)}

    def ends_with_marker(self, v, is_marker):
        """is boolean value v the statement "this part ends with the marker byte" (marker recognised by is_marker)"""
        v = strip(v)
        if self.kind == 'bytes':
            if v[0] == 'bin' and v[1] == 'Eq':
                a, b = v[2], v[3]
                return (self.is_elem(a) and is_marker(b)) or (self.is_elem(b) and is_marker(a))
            return False
        if v[0] == 'call' and 'slice::<impl [T]>::ends_with' in v[1] and len(v[2]) == 2 and self.is_elem(v[2][0]):
            suffix = strip(v[2][1])
            return suffix[0] == 'array' and len(suffix[1]) == 1 and is_marker(suffix[1][0]) and \
                canon(strip(suffix[1][0])) == canon(strip(self.marker))
        return False


def partitions(sl, E, fn, idx, is_marker):
    out = []
    for L in E.loops(fn):
        if L.collection is None:
            continue
        coll = peel_same(L.collection)
        if is_param(coll, fn, idx):
            out.append(Partition(fn, L, 'bytes'))
        elif coll[0] == 'call' and 'slice::<impl [T]>::split_inclusive' in coll[1] and len(coll[2]) == 2 and is_param(peel_same(coll[2][0]), fn, idx):
            b = ('unknown', 'element')
            pred = sl.apply_closure(coll[2][1], (b,))
            if pred is not None and pred[0] == 'bin' and pred[1] == 'Eq' and b in (strip(pred[2]), strip(pred[3])):
                m = pred[3] if strip(pred[2]) == b else pred[2]
                if is_marker(m):
                    out.append(Partition(fn, L, 'segments', m))
    return out
