"""Helpers of rule C19: spelling-independent views of the facts.

  nf(sl, v)            deep value normal form: private helpers inlined, `unwrap` re-normalised (map / and_then / `?` /
                       early-return phis), Option/Result eliminators with closures (`map_or_else`, `unwrap_or_else`, ..)
                       turned into the alternatives they select between
  fn_alts(sl, S, fn)   success-dependency analysis: the success alternatives of a Result/Option-returning function as
                       [(payload value, [values that must have been Ok/Some])] — the same answer for
                       `a?; b?; Ok(x)`, `a.and(b).map(|_| x)`, `a.and_then(|_| b).map(|_| x)` and
                       `match (a, b) { (Ok(_), Ok(_)) => Ok(x), .. }`
                       and for `for x in [a, b] { x? } Ok(..)` (a loop over a decomposable table that ran to exhaustion:
                       one dependency per element) and `let mut e = None; for x in [a, b] { if let Err(y) = x { e.get_or_insert(y); } }
                       match e { None => Ok(..), Some(y) => Err(y) }` (a monotone error accumulator found empty)
  unroll(E, effs)      effects inside a loop over a table that only decomposes once private helpers are inlined
                       (`for w in self.writers()`): one effect per element
  partitions(..)       loops that visit an in-order partition of a slice parameter (its bytes; its `split_inclusive`
                       segments; the parts a cursor loop cuts off) together with the test that says "this part ends with
                       the marker"
  cursor_loops(..)     `while let Some(i) = rest.iter().position(|b| b == M) { (part, rest) = rest.split_at(i + 1) .. }`:
                       the template whose loop invariant (parts so far ++ rest == buf, every part ends with its only M, the
                       rest is M-free on exit) holds by construction; cut_function: a private function that returns the
                       collected parts and the rest
  guard_views(..)      boolean facts implied by the guards of an effect (incl. `Option::filter(p)` being Some => p)
  option_fn_guards(..) the branch decisions under which a private Option/Result-returning function (literal Some / None at
                       every return, or `cond.then(f)`) answers Some resp. None, in the caller's terms
  origins(..)          statement-level provenance; follows a value into the private function that hands it out (plain result,
                       `(x as Some).0` payload, the closure of `cond.then(..)`)
  field_mutations(..), whole_ref_mutations(..)   every way a field (by name; skip_next: except on into a sub-field) / a
                       `&mut` borrow as a whole can be changed in place by a function
"""
from .lib.mir import op_place
from .lib.value import Slicer, subst, walk, canon, _phi, _err_like
import re
from .lib.guards import conditions, edge_dominates, _discr_info
from .lib.paths import strip
from .lib.effects import guards_of, find_loops, Eff
from .lib import iters

LEAF = ('const', 'param', 'fnitem', 'constitem', 'unknown', 'closure_env', 'upvar')
OPT, RES = 'std::option::Option::<T>::', 'std::result::Result::<T, E>::'
OKISH = {'Continue', 'Ok', 'Some'}
BOOL_THEN = 'core::bool::<impl bool>::then'


def sym_slicer(sl):
    """slicer that keeps captured variables symbolic (they are bound to a concrete closure value afterwards)"""
    if getattr(sl, '_sym', None) is None:
        sl._sym = Slicer(sl.prog, sl.max_depth)
        sl._sym.symbolic_upvars = True
    return sl._sym


def _diverged(v):
    return v is None or (v[0] == 'unknown' and len(v) > 1 and str(v[1]).startswith('no-def _0'))


# ---- value normal form --------------------------------------------------------------------------------------------
def nf(sl, v, keep=(), d=0):
    if not isinstance(v, tuple) or not v or d > 10:
        return v
    if not isinstance(v[0], str):
        return tuple(nf(sl, x, keep, d) if isinstance(x, tuple) else x for x in v)
    k = v[0]
    if k in LEAF:
        return v
    if k == 'agg' and len(v) == 4:
        return ('agg', v[1], v[2], tuple((n, nf(sl, x, keep, d)) for n, x in v[3]))
    out = tuple(nf(sl, x, keep, d) if isinstance(x, tuple) else x for x in v)
    if k == 'unwrap':
        t = out[1]
        if t[0] == 'call' and t[1] == BOOL_THEN and len(t[2]) == 2:      # the payload of `cond.then(f)` is what f returns
            r = sl.apply_closure(t[2][1], ())
            if r is not None and not _diverged(r):
                return nf(sl, r, keep, d + 1)
        r = sl.mk_unwrap(out[1], 1)
        if r != out and r[0] != 'unwrap':
            return nf(sl, r, keep, d + 1)
        return r
    if k == 'field' and len(out) == 3:
        return sl._field(out[1], out[2])
    if k == 'variant' and len(out) == 3:
        return sl._variant(out[1], out[2])
    if k == 'phi':
        return _phi(list(out[1]))
    if k == 'call' and len(out) == 4:
        name, args = out[1], out[2]
        g = sl.prog.fns.get(name)
        if g is not None and name not in keep and g.kind != 'Closure':
            iv = sl.inline_call(out)
            if iv is not None and iv != out and not _diverged(iv):
                return nf(sl, iv, keep, d + 1)
        alts = eliminator_alts(sl, name, args)
        if alts is not None:
            return _phi([nf(sl, a, keep, d + 1) for a in alts]) if alts else out
    return out


def eliminator_alts(sl, name, args):
    """`x.map_or_else(d, f)` is `d()` or `f(payload of x)`; `x.unwrap_or_else(f)` is the payload or `f(..)`; alternatives
    whose closure never returns (resume_unwind / panic / exit) do not produce a value"""
    ap = sl.apply_closure
    ok = lambda x: sl.mk_unwrap(x, 1)
    alts = None
    if name in (OPT + 'map_or_else', RES + 'map_or_else') and len(args) == 3:
        alts = [ap(args[1], () if name.startswith(OPT) else (('unwrap_err', args[0]),)), ap(args[2], (ok(args[0]),))]
    elif name in (OPT + 'map_or', RES + 'map_or') and len(args) == 3:
        alts = [args[1], ap(args[2], (ok(args[0]),))]
    elif name == RES + 'unwrap_or_else' and len(args) == 2:
        alts = [ok(args[0]), ap(args[1], (('unwrap_err', args[0]),))]
    elif name == OPT + 'unwrap_or_else' and len(args) == 2:
        alts = [ok(args[0]), ap(args[1], ())]
    elif name in (OPT + 'unwrap_or', RES + 'unwrap_or') and len(args) == 2:
        alts = [ok(args[0]), args[1]]
    if alts is None:
        return None
    if any(a is None for a in alts):
        return None
    return [a for a in alts if not _diverged(a)]


# ---- success-dependency analysis ----------------------------------------------------------------------------------
def cond_deps(S, fn, bb):
    """values that were Ok / Some / Continue on every path to bb"""
    out = []
    for cd in conditions(fn, bb, S):
        if cd.kind == 'variant' and cd.outcome and set(cd.outcome) <= OKISH and cd.subject is not None:
            s = cd.subject
            if s[0] == 'call' and s[1] == 'std::ops::Try::branch' and s[2]:
                s = s[2][0]
            out.append(s)
    return out


def fn_alts(sl, S, fn, local=0, depth=0, seen=(), thru=None, optional=False):
    """[(payload, deps)] for every way the value in `local` (default: the return place) can be a success"""
    alts = []
    if depth > 8:
        return alts
    for d in fn.whole_defs(local):
        bb = d[1]
        cdeps = cond_deps(S, fn, bb) + loop_deps(sl, S, fn, bb, optional) + acc_deps(sl, S, fn, bb, optional)
        if d[0] == 'stmt':
            rv = d[3]
            if rv['r'] == 'agg' and rv.get('adt') in ('std::result::Result', 'std::option::Option'):
                if rv.get('variant') in ('Err', 'None'):
                    continue
                alts.append((S.operand(fn, rv['ops'][0]), cdeps))
                continue
            if rv['r'] == 'use':
                pl = op_place(rv['o'])
                if pl and len(pl) == 1 and not (1 <= pl[0] <= fn.argc) and fn.whole_defs(pl[0]) and (fn.path, pl[0]) not in seen:
                    for p, ds in fn_alts(sl, S, fn, pl[0], depth + 1, seen + ((fn.path, pl[0]),), thru, optional):
                        alts.append((p, cdeps + ds))
                    continue
            v = S._rvalue(fn, rv, set(), 0, None)
        elif d[0] == 'call':
            c = d[3]
            if c.decl and c.decl.endswith('FromResidual::from_residual'):
                continue
            v = S._call_value(fn, c, set(), 0)
        else:
            continue
        for p, ds in value_alts(sl, v, depth + 1, thru):
            alts.append((p, cdeps + ds))
    return alts


def closure_alts(sl, clv, args, depth, thru=None):
    """success alternatives of calling closure / fn item `clv` (a value in outer terms) with `args`"""
    g = sl.prog.fns.get(clv[1]) if clv and clv[0] in ('closure', 'fnitem') else None
    if g is None:
        v = ('call', clv[1], tuple(args), None) if clv and clv[0] == 'fnitem' else ('unknown', 'callee')
        return [(('unwrap', v), [v])]
    if clv[0] == 'closure':
        S, off = sym_slicer(sl), 1
        m = {('upvar', g.path, i): uv for i, uv in enumerate(clv[2])}
    else:
        S, off, m = sl, 0, {}
    for i, a in enumerate(args):
        m[(g.path, off + i)] = a
    return [(subst(p, m, sl), [subst(x, m, sl) for x in ds]) for p, ds in fn_alts(sl, S, g, 0, depth + 1, (), thru)]


PASS_OK = {RES + 'map_err', RES + 'inspect_err', RES + 'inspect', OPT + 'inspect', OPT + 'ok_or', OPT + 'ok_or_else'}


def value_alts(sl, v, depth=0, thru=None):
    """success alternatives of a Result/Option-typed value expression"""
    leaf = [(sl.mk_unwrap(v, 1), [v])]
    if depth > 10 or not isinstance(v, tuple) or not v:
        return leaf
    k = v[0]
    if k == 'phi':
        out = []
        for x in v[1]:
            if not _err_like(x):
                out.extend(value_alts(sl, x, depth + 1, thru))
        return out
    if k == 'agg' and v[1] in ('std::result::Result', 'std::option::Option') and v[2] in ('Ok', 'Some', 'Err', 'None'):
        return [(v[3][0][1], [])] if v[2] in ('Ok', 'Some') and v[3] else []
    if k != 'call' or len(v) != 4:
        return leaf
    name, args = v[1], v[2]
    if name in (RES + 'map', OPT + 'map') and len(args) == 2:
        out = []
        for p, ds in value_alts(sl, args[0], depth + 1, thru):
            r = sl.apply_closure(args[1], (p,))
            out.append((r if r is not None else ('unknown', 'map-closure'), ds))
        return out
    if name in (RES + 'and_then', OPT + 'and_then') and len(args) == 2:
        out = []
        for p, ds in value_alts(sl, args[0], depth + 1, thru):
            for p2, ds2 in closure_alts(sl, args[1], (p,), depth + 1, thru):
                out.append((p2, ds + ds2))
        return out
    if name in (RES + 'and', OPT + 'and') and len(args) == 2:
        return [(pb, da + db) for _, da in value_alts(sl, args[0], depth + 1, thru) for pb, db in value_alts(sl, args[1], depth + 1, thru)]
    if name in PASS_OK and args:
        return value_alts(sl, args[0], depth + 1, thru)
    g = sl.prog.fns.get(name)
    if thru is not None and g is not None and g.kind != 'Closure' and g.ret.startswith(('std::result::Result<', 'std::option::Option<')) and thru(name):
        # a workspace function: it succeeds the ways its body does (parameters bound to the arguments)
        r = closure_alts(sl, ('fnitem', name), args, depth + 1, thru)
        if r:
            return r
    return leaf


# ---- loops over decomposable tables: per-element success dependencies -------------------------------------------------
IT_NEXT = 'std::iter::Iterator::next'
OPT_FLATTEN = re.compile(r"^std::iter::Flatten<std::(array::IntoIter|vec::IntoIter|slice::Iter)<('[a-z_]+, )?&?std::option::Option<")
SETTERS = (OPT + 'get_or_insert', OPT + 'insert', OPT + 'get_or_insert_with')


def loops_of(sl, fn):
    cache = sl.__dict__.setdefault('_c19_loops', {})
    if fn.path not in cache:
        cache[fn.path] = find_loops(fn, sl)
    return cache[fn.path]


def elem_keys(fn, L, v):
    """canonical forms of the sub-values of v that denote the element visited by loop L"""
    site = (fn.path, L.header)
    return {canon(x) for x in walk(v) if x[0] == 'unwrap' and x[1][0] == 'call' and x[1][1] == IT_NEXT and len(x[1]) == 4 and x[1][3] == site}


def elements(sl, fn, L, optional=False):
    """[(element value, always there?)] when the collection iterated by L is a table of concrete elements (private helpers
    returning the table inlined); with optional=True also `[a, b].into_iter().flatten()` over Options: the payload of
    each entry that is Some.  None when the collection does not decompose (or is filtered in any other way)."""
    if L.collection is None:
        return None
    coll = nf(sl, L.collection)
    al = iters.alts(sl, coll)
    if al and not iters.trivial(al, coll) and all(f is None and not fl for _, f, fl in al):
        return [(e, True) for e, _, _ in al]
    if optional:
        v = strip(coll)
        while v[0] == 'call' and len(v[2]) == 1 and v[1].endswith(iters.SAME_ELEMS) and not v[1].startswith(IT):
            v = strip(v[2][0])
        if v[0] == 'call' and v[1] == IT + 'flatten' and len(v[2]) == 1 and len(v) == 4 and v[3]:
            g = sl.prog.fns.get(v[3][0])
            c = g.call_at(v[3][1]) if g is not None else None
            if c is not None and OPT_FLATTEN.match(c.dty or ''):
                inner = iters.alts(sl, v[2][0])
                if inner and all(f is None and not fl for _, f, fl in inner):
                    return [(sl.mk_unwrap(e, 1), False) for e, _, _ in inner]
    return None


def per_element(sl, fn, L, v, optional=False):
    """v (a value mentioning L's element) once per element of L's table; None if the table does not decompose"""
    els = elements(sl, fn, L, optional)
    keys = elem_keys(fn, L, v)
    if els is None or not keys:
        return None
    return [subst(v, {'__repl__': [(k, e) for k in keys]}, sl) for e, _ in els]


def _is_next_cond(fn, L, cd):
    s = cd.subject if cd.subject is not None else cd.value
    s = strip(s) if s is not None else ('unknown',)
    return s[0] == 'call' and s[1] == IT_NEXT and len(s) == 4 and s[3] == (fn.path, L.header)


def _reach_avoiding(fn, start, avoid):
    seen, work = set(), [start]
    while work:
        b = work.pop()
        if b in seen or b == avoid:
            continue
        seen.add(b)
        work.extend(fn.succs(b))
    return seen


def _try_subject(s):
    if s[0] == 'call' and s[1] == 'std::ops::Try::branch' and s[2]:
        s = s[2][0]
    return s


def loop_deps(sl, S, fn, bb, optional=False):
    """values that were Ok / Some because bb is only reached after a loop over a table ran to exhaustion and every
    completed iteration passed an Ok-test on them (`for x in [a, b] { f(x)?; }`): one value per element"""
    out = []
    for L in loops_of(S, fn):
        if bb in L.body or getattr(L, 'exhaust', None) is None or not edge_dominates(fn, L.exhaust[0], L.exhaust[1], bb):
            continue
        per = None
        for latch in L.latches:
            cur = {}
            for cd in conditions(fn, latch, S):
                if cd.sw_bb in L.body and cd.kind == 'variant' and cd.outcome and set(cd.outcome) <= OKISH and cd.subject is not None \
                        and not _is_next_cond(fn, L, cd):
                    sv = _try_subject(cd.subject)
                    cur[canon(sv)] = sv
            per = cur if per is None else {k: x for k, x in per.items() if k in cur}
        for sv in (per or {}).values():
            out.extend(per_element(sl, fn, L, sv, optional) or ())
    return out


def accumulator(fn, local):
    """is `local` a monotone Option accumulator — initialised to None once (outside any loop) and from then on only ever
    handed to operations that leave it Some (`get_or_insert`, `insert`, `= Some(..)`)?  -> blocks of those operations, or None"""
    if fn.partial_defs(local) or not (fn.local_ty(local) or '').startswith('std::option::Option<'):
        return None
    inits, setters = [], []
    for d in fn.whole_defs(local):
        rv = d[3] if d[0] == 'stmt' else None
        if rv is None or rv['r'] != 'agg' or rv.get('adt') != 'std::option::Option':
            return None
        (inits if rv.get('variant') == 'None' else setters).append(d[1])
    if len(inits) != 1 or fn.in_loop(inits[0]):
        return None

    def borrowed(ref_local, depth=0):
        """the &mut borrow held in ref_local is used exactly once: as the receiver of a setter (reborrows followed)"""
        uses = [u for u in fn.uses_of(ref_local) if u[1] != 'drop']
        if len(uses) != 1 or depth > 3 or len(fn.whole_defs(ref_local)) != 1:
            return False
        bi, kind, idx, how, pl = uses[0]
        if kind == 'arg' and idx == 0 and len(pl) == 1:
            c = fn.call_at(bi)
            if c is not None and not c.indirect and c.is_(*SETTERS):
                setters.append(bi)
                return True
            return False
        if kind == 'stmt' and how == 'refmut' and pl[1:] == ['.*']:
            tgt = fn.blocks[bi]['s'][idx][1]
            return len(tgt) == 1 and borrowed(tgt[0], depth + 1)
        return False
    for bi, kind, idx, how, pl in fn.uses_of(local):
        if kind in ('drop', 'switch') or how in ('discr', 'ref', 'm', 'c'):
            continue
        if kind == 'stmt' and how == 'refmut' and len(pl) == 1:
            tgt = fn.blocks[bi]['s'][idx][1]
            if len(tgt) == 1 and borrowed(tgt[0]):
                continue
        return None
    return setters


def acc_deps(sl, S, fn, bb, optional=False):
    """values that were Ok because bb is only reached with an empty error accumulator: every operation that fills the
    accumulator sits on the Err edge of a test of such a value (inside a loop over a table that ran to exhaustion before
    the accumulator is inspected: one value per element)"""
    out = []
    for cd in conditions(fn, bb, S):
        if not (cd.kind == 'variant' and cd.outcome and set(cd.outcome) <= {'None'}):
            continue
        di = _discr_info(fn, cd.sw_bb, fn.blocks[cd.sw_bb]['t']['o'])
        if not di or len(di[0]) != 1:
            continue
        setters = accumulator(fn, di[0][0])
        if not setters:
            continue
        deps = []
        for sb in setters:
            Ls = [L for L in loops_of(S, fn) if sb in L.body]
            if len(Ls) > 1:
                deps = None
                break
            L = Ls[0] if Ls else None
            if L is not None and (cd.sw_bb in L.body or getattr(L, 'exhaust', None) is None or not edge_dominates(fn, L.exhaust[0], L.exhaust[1], cd.sw_bb)):
                deps = None
                break
            if L is not None:
                inner = [x for x in conditions(fn, sb, S) if x.sw_bb in L.body and not _is_next_cond(fn, L, x)]
            else:
                inner = [x for x in conditions(fn, sb, S) if not edge_dominates(fn, x.sw_bb, x.target, cd.sw_bb)]
            if len(inner) != 1:
                deps = None
                break
            x = inner[0]
            ok = x.kind == 'variant' and x.outcome and set(x.outcome) <= {'Err'} and (x.enum or '').startswith('std::result::Result') and x.subject is not None
            if ok and L is not None:
                # the test runs in every completed iteration, and its Err edge cannot get back to the loop head around the setter
                ok = all(fn.dominates(x.sw_bb, l) for l in L.latches) and L.header not in _reach_avoiding(fn, x.target, sb)
            elif ok:
                # straight-line: the test runs before the accumulator is inspected, and its Err edge cannot get there around the setter
                ok = fn.dominates(x.sw_bb, cd.sw_bb) and cd.sw_bb not in _reach_avoiding(fn, x.target, sb)
            if not ok:
                deps = None
                break
            sv = _try_subject(x.subject)
            if L is not None:
                pe = per_element(sl, fn, L, sv, optional)
                if pe is None:
                    deps = None
                    break
                deps.extend(pe)
            else:
                deps.append(sv)
        if deps:
            out.extend(deps)
    return out


def unroll(E, effs, must=False):
    """effects whose arguments mention the element of a loop over a table that only decomposes once private helpers are
    inlined (`for w in self.writers() { w.flush()? }`): one effect per element, the element substituted"""
    sl = E.slicer
    out = []
    for e in effs:
        fn = e.call.fn if e.call is not None else None
        done = False
        if fn is not None and e.args:
            for L in loops_of(sl, fn):
                if e.call.bb not in L.body or e.call.bb == L.header:
                    continue
                keys = set()
                for a in e.args:
                    keys |= elem_keys(fn, L, a)
                els = elements(sl, fn, L) if keys else None
                if els is None:
                    continue
                for elem, _ in els:
                    m = {'__repl__': [(k, E.subst(elem, e.mapping) if e.mapping else elem) for k in keys]}
                    args = tuple(subst(a, m, sl) for a in e.args)
                    ne = Eff(e.kind, subst(e.path, m, sl) if e.path is not None else None, e.call, e.chain, e.must, None, args)
                    ne.mapping, ne.implied = e.mapping, e.implied
                    out.append(ne)
                done = True
                break
        if not done:
            out.append(e)
    return out


# ---- effects ------------------------------------------------------------------------------------------------------
def top_call(e, fn=None):
    """the call site through which effect e is reached inside `fn` (default: the entry function of the expansion)"""
    calls = [l.call for l in e.chain] + [e.call]
    if fn is None:
        return calls[0]
    for c in calls:
        if c.fn is fn:
            return c
    return None


def guard_views(E, e):
    """[(value, outcome, Cond)] boolean facts that hold whenever effect e runs: the guards at every level of its call
    chain (private boolean helpers inlined), plus what a Some-tested `Option::filter(x, p)` says about p"""
    sl = E.slicer
    out = []
    for cd, views, subj in guards_of(E, e):
        if cd.kind == 'bool':
            out.extend((v, oc, cd) for v, oc in views)
        elif cd.kind == 'variant' and subj is not None and cd.outcome and set(cd.outcome) <= {'Some'}:
            s = strip(subj)
            if s[0] == 'call' and s[1] == OPT + 'filter' and len(s[2]) == 2:
                r = sl.apply_closure(s[2][1], (sl.mk_unwrap(s[2][0], 1),))
                oc = True
                while r is not None and r[0] == 'un' and r[1] == 'Not':
                    r, oc = r[2], not oc
                if r is not None:
                    out.append((r, oc, cd))
    return out


def option_fn_guards(sl, v):
    """v: the call of a private workspace function that returns an Option / Result built as a literal Some / Ok / None / Err
    at every return.  -> (some, none): for every Some/Ok return resp. None/Err return the list of ALL branch decisions that
    dominate it, each as [(value in the caller's terms, outcome)] (bool: every view of the tested value; anything else:
    one opaque entry).  None when v is not such a call."""
    v = strip(v)

    def then_guards(t):
        """`cond.then(f)` is Some exactly when cond is true"""
        c, oc = strip(t[2][0]), True
        while c[0] == 'un' and c[1] == 'Not':
            c, oc = strip(c[2]), not oc
        return [[[(c, oc)]]], [[[(c, not oc)]]]
    if v[0] == 'call' and v[1] == BOOL_THEN and len(v[2]) == 2:
        return then_guards(v)
    g = sl.prog.fns.get(v[1]) if v[0] == 'call' and len(v) == 4 else None
    if g is None or g.kind == 'Closure' or g.vis == 'pub' or g.partial_defs(0) or not g.ret.startswith(('std::option::Option<', 'std::result::Result<')):
        return None
    m = {(g.path, i): a for i, a in enumerate(v[2])}
    some, none = [], []
    ds = g.whole_defs(0)
    if len(ds) == 1 and ds[0][0] == 'call' and not ds[0][3].indirect and ds[0][3].name == BOOL_THEN and not conditions(g, ds[0][1], sl):
        t = strip(subst(sl.local(g, 0), m, sl))
        if t[0] == 'call' and t[1] == BOOL_THEN and len(t[2]) == 2:
            return then_guards(t)
    for d in ds:
        rv = d[3] if d[0] == 'stmt' else None
        if rv is None or rv['r'] != 'agg' or rv.get('adt') not in ('std::option::Option', 'std::result::Result'):
            return None
        cds = []
        for cd in conditions(g, d[1], sl):
            if cd.kind == 'bool':
                cds.append([(subst(x, m, sl), oc) for x, oc in cd.views()])
            else:
                cds.append([(('unknown', 'decision'), None)])
        (none if rv.get('variant') in ('None', 'Err') else some).append(cds)
    return some, none


# lazy adapters (besides iters.LAZY_WITH_CLOSURE) whose closure / inner iterator runs only when the result is pulled
LAZY_MORE = {iters.IT + 'flat_map', iters.IT + 'flatten', iters.IT + 'zip', iters.IT + 'chain', iters.IT + 'enumerate', iters.IT + 'peekable',
             iters.IT + 'skip', iters.IT + 'take', iters.IT + 'step_by', iters.IT + 'fuse', iters.IT + 'rev', iters.IT + 'cycle', iters.IT + 'by_ref'}


# ---- in-order partitions of a slice parameter -----------------------------------------------------------------------
IT = iters.IT
ORDERED_COLLECTIONS = ('std::vec::Vec<', 'std::boxed::Box<[', 'std::collections::VecDeque<')
ORDERED_SAME = {IT + 'copied', IT + 'cloned', IT + 'by_ref', IT + 'peekable', IT + 'fuse'}


def peel_same(v):
    """the slice behind `xs`, `xs.iter()`, `xs.iter().copied()`, `(&xs).into_iter()` .. (same elements, same order)"""
    v = strip(v)
    while v[0] == 'call' and v[2] and (v[1] in ORDERED_SAME or (v[1].endswith(('::iter', '::into_iter')) and not v[1].startswith(IT))):
        v = strip(v[2][0])
    return v


def is_param(v, fn, idx):
    v = strip(v)
    return v[0] == 'param' and v[1] == fn.path and v[2] == idx


class Partition:
    """a place of fn whose elements are, in order, parts of parameter `buf` whose concatenation is `buf`:
       kind 'bytes'     every byte                       (for b in buf)
       kind 'segments'  buf.split_inclusive(|b| b == M)  every segment ends right after its first (and only) M, the last
                        one may lack it
       kind 'cut'       the parts that end right after their first (and only) M, and — a value of its own, `tail` — the
                        M-free rest: the two results of a private cutting function (cut_function), or the parts cut off by
                        a cursor loop in fn itself and what its cursor holds afterwards (CursorPartition)
    The place is either a loop of fn (`for part in <parts>`: body = fn, the per-part statements are the loop body, the part
    is the loop element) or the closure handed to an eager in-order consumer of the same iterator
    (`<parts>.try_for_each(|part| ..)`, for_each, try_fold, fold: body = that closure, the per-part statements are the
    closure body, the part is the closure's element parameter; the consumer calls it once per part, in order, and a
    try_* consumer stops at the first failure exactly like `?` in the loop)."""

    def __init__(self, fn, loop, kind, marker=None, body=None, call=None, elem=None, tail=None, tail_src=None):
        self.fn, self.loop, self.kind, self.marker = fn, loop, kind, marker
        self.body = body if body is not None else fn      # the function the per-part statements live in
        self.call, self.elem = call, elem                 # closure form: the consumer call in fn, the element parameter index
        self.tail, self.tail_src = tail, tail_src         # kind 'cut': the value of the marker-free rest; (call, projection) it is

    # kind 'cut': the parts visited all end with their only marker (no test is needed to know it); what follows the last of
    # them — the marker-free rest, possibly empty — is a value of its own that is available once the parts are exhausted
    terminated = property(lambda self: self.kind == 'cut')
    has_tail = property(lambda self: self.kind == 'cut')

    def is_tail(self, g, call, sl):
        """argument 1 of `call` (in function g) is the marker-free rest"""
        if not (self.tail is not None and g is self.fn and len(call.args) > 1 and strip(sl.operand(g, call.args[1])) == self.tail):
            return False
        src, proj = self.tail_src
        local, pr, _ = root(g, op_place(call.args[1]), call.bb)     # statement level: the cutting function's result itself
        return local is not None and _single_call_def(g, local) is src and pr == proj and not any(how in ('refmut', 'rawptr') for _, _, _, how, _ in g.uses_of(local))

    def after_parts(self, bb):
        """block bb of fn is only reached once every part was visited"""
        if self.loop is None:       # closure form: after the eager consumer returned
            return self.call is not None and bb != self.call.bb and self.fn.dominates(self.call.bb, bb)
        ex = getattr(self.loop, 'exhaust', None)
        return ex is not None and bb not in self.loop.body and edge_dominates(self.fn, ex[0], ex[1], bb)

    def is_exhaust_cond(self, cd):
        """cd says no more than `every part was visited` (closure form: .. and none of the per-part closure calls failed)"""
        if cd.kind != 'variant' or cd.fn is not self.fn:
            return False
        if self.loop is None:
            s = strip(_try_subject(cd.subject)) if cd.subject is not None else ('unknown',)
            return self.call is not None and bool(cd.outcome) and set(cd.outcome) <= OKISH and s[0] == 'call' and len(s) == 4 and s[3] == (self.fn.path, self.call.bb)
        return _is_next_cond(self.fn, self.loop, cd) and set(cd.outcome or ()) == {'None'}

    def is_elem(self, v):
        v = strip(v)
        while v[0] == 'cast':
            v = strip(v[1])
        if self.loop is None:
            return v[0] == 'param' and v[1] == self.body.path and v[2] == self.elem
        return v[0] == 'call' and v[1] == IT + 'next' and len(v) == 4 and v[3] == (self.fn.path, self.loop.header)

    def in_body(self, g, bb):
        """block bb of function g runs once per part (conditions aside)"""
        if g is not self.body:
            return False
        if self.loop is None:
            return not g.in_loop(bb)
        return bb in self.loop.body and g.in_loop(bb)

    def is_next_cond(self, cd):
        """cd is the loop's own `next()` is Some test"""
        return self.loop is not None and _is_next_cond(self.fn, self.loop, cd)

    APPEND = {'bytes': ('std::vec::Vec::<T, A>::push',), 'segments': ('std::vec::Vec::<T, A>::extend_from_slice',),
              'cut': ('std::vec::Vec::<T, A>::extend_from_slice',)}

    def ends_with_marker(self, v, is_marker):
        """is boolean value v the statement "this part ends with the marker byte" (marker recognised by is_marker)"""
        v = strip(v)
        if self.kind == 'bytes':
            if v[0] == 'bin' and v[1] == 'Eq':
                a, b = v[2], v[3]
                return (self.is_elem(a) and is_marker(b)) or (self.is_elem(b) and is_marker(a))
            return False
        if v[0] == 'call' and 'slice::<impl [T]>::ends_with' in v[1] and len(v[2]) == 2 and self.is_elem(v[2][0]):
            suffix = strip(v[2][1])
            return suffix[0] == 'array' and len(suffix[1]) == 1 and is_marker(suffix[1][0]) and \
                canon(strip(suffix[1][0])) == canon(strip(self.marker))
        return False


class CursorPartition(Partition):
    """kind 'cut' spelled as a cursor loop in fn itself: the part is split_at(..).0 of the current iteration, the per-part
    statements are those between the split_at and the back edge, the rest is what the cursor holds after the loop"""

    def __init__(self, fn, CL):
        Partition.__init__(self, fn, None, 'cut', CL.marker)
        self.CL = CL

    def is_elem(self, v):
        v = strip(v)
        while v[0] == 'cast':
            v = strip(v[1])
        return self.CL.is_part(v)

    def in_body(self, g, bb):
        return g is self.fn and self.CL.per_iteration(bb)

    def is_next_cond(self, cd):
        return cd.fn is self.fn and cd.kind == 'variant' and cd.sw_bb == self.CL.sw_bb and set(cd.outcome or ()) == {'Some'}

    def is_tail(self, g, call, sl):
        return g is self.fn and len(call.args) > 1 and op_place(call.args[1]) is not None and self.CL.reads_tail(op_place(call.args[1]), call.bb)

    def after_parts(self, bb):
        return self.CL.after(bb)

    def is_exhaust_cond(self, cd):
        return cd.fn is self.fn and cd.kind == 'variant' and cd.sw_bb == self.CL.sw_bb and cd.target == self.CL.exit


# eager consumers that call their closure once per element, in order: name -> (closure argument, element parameter of the closure)
EACH = {IT + 'try_for_each': (1, 1), IT + 'for_each': (1, 1), IT + 'try_fold': (2, 2), IT + 'fold': (2, 2)}


def _parts_of(sl, fn, coll, idx, is_marker):
    """(kind, marker) when iterating `coll` visits an in-order partition of parameter idx of fn"""
    coll = peel_same(coll)
    # collected into a Vec / boxed slice / VecDeque first (same elements, same order) and iterated afterwards
    stored = []
    for _ in range(4):
        c = sl.prog.fns[coll[3][0]].call_at(coll[3][1]) if coll[0] == 'call' and coll[1] == IT + 'collect' and len(coll) == 4 and coll[3] and coll[3][0] in sl.prog.fns else None
        if c is None or len(coll[2]) != 1 or not (c.dty or '').startswith(ORDERED_COLLECTIONS) or c.fn is not fn:
            break
        stored.append(c)
        coll = peel_same(coll[2][0])
    if is_param(coll, fn, idx):
        return 'bytes', None, stored
    if coll[0] == 'call' and 'slice::<impl [T]>::split_inclusive' in coll[1] and len(coll[2]) == 2 and is_param(peel_same(coll[2][0]), fn, idx):
        b = ('unknown', 'element')
        pred = sl.apply_closure(coll[2][1], (b,))
        if pred is not None and pred[0] == 'bin' and pred[1] == 'Eq' and b in (strip(pred[2]), strip(pred[3])):
            m = pred[3] if strip(pred[2]) == b else pred[2]
            if is_marker(m):
                return 'segments', m, stored
    return None


def reaches_unedited(fn, call, src, proj=()):
    """statement level (in-place mutation does not show in value terms): the receiver of `call` is — through iterator views
    (`iter`, `into_iter`, `copied`, ..), moves and shared borrows — field `proj` of the result of call `src`, and nothing
    on the way (the stored collection included) is ever mutably borrowed, except the iterators themselves by their consumer"""
    mut_borrowed = lambda x: any(how in ('refmut', 'rawptr') for _, _, _, how, _ in fn.uses_of(x))
    place, bb = op_place(call.args[0]) if call.args else None, call.bb
    for hop in range(10):
        if place is None:
            return False
        local, pr, bb = root(fn, place, bb, through_mut=hop == 0)       # the iterator a consumer pulls from is `&mut` by nature
        c2 = _single_call_def(fn, local) if local is not None and not (1 <= local <= fn.argc) else None
        if c2 is None:
            return False
        if c2 is src:
            return pr == tuple(proj) and not mut_borrowed(local)
        if pr or not c2.args or not (c2.name in ORDERED_SAME or ((c2.name or '').endswith(ITER_VIEW) and not c2.name.startswith(IT))):
            return False
        place, bb = op_place(c2.args[0]), c2.bb
    return False


def partitions(sl, E, fn, idx, is_marker):
    out = []
    for L in E.loops(fn):
        if L.collection is None:
            continue
        km = _parts_of(sl, fn, L.collection, idx, is_marker)
        if km is not None:
            # parts stored in a Vec first: the loop visits that Vec as it was collected
            if all(reaches_unedited(fn, L.next_call, c) for c in km[2][:1]) and len(km[2]) <= 1:
                out.append(Partition(fn, L, km[0], km[1]))
            continue
        # the Vec of marker-terminated parts a private cutting function returned for (buf, marker)
        cc = _cut_parts_of(sl, fn, L.collection, idx, is_marker, L.next_call)
        if cc is not None:
            out.append(Partition(fn, L, 'cut', cc[0], tail=cc[1], tail_src=cc[2]))
    # a cursor loop in fn itself
    for CL in cursor_loops(sl, fn, is_marker):
        if CL.buf == idx + 1 and not any(h2 != CL.header and CL.header in b2 for h2, b2, _ in natural_loops(fn)):
            out.append(CursorPartition(fn, CL))
    # the same iteration spelled with an eager consumer and a closure
    for c in fn.calls:
        ci = EACH.get(c.decl) if not c.indirect else None
        if ci is None or len(c.args) <= ci[0]:
            continue
        km = _parts_of(sl, fn, sl.operand(fn, c.args[0]), idx, is_marker)
        if km is not None and (len(km[2]) > 1 or not all(reaches_unedited(fn, c, x) for x in km[2])):
            km = None
        clv = strip(sl.operand(fn, c.args[ci[0]]))
        g = sl.prog.fns.get(clv[1]) if clv[0] == 'closure' else None
        if km is not None and g is not None and g.parent == fn.path and not fn.in_loop(c.bb):
            out.append(Partition(fn, None, km[0], km[1], body=g, call=c, elem=ci[1]))
        cc = _cut_parts_of(sl, fn, sl.operand(fn, c.args[0]), idx, is_marker, c) if km is None else None
        if cc is not None and g is not None and g.parent == fn.path and not fn.in_loop(c.bb):
            out.append(Partition(fn, None, 'cut', cc[0], body=g, call=c, elem=ci[1], tail=cc[1], tail_src=cc[2]))
    return out


def _cut_parts_of(sl, fn, coll, idx, is_marker, consumer):
    """(marker, value of the marker-free rest, (cutting call, projection of the rest)) when iterating `coll` — what
    `consumer` (the loop's next call / an eager consumer) pulls from — visits the marker-terminated parts that a private
    cutting function returned for (parameter idx of fn, the marker)"""
    coll = peel_same(coll)
    cv = strip(coll[1]) if coll[0] == 'field' and len(coll) == 3 else None
    g = sl.prog.fns.get(cv[1]) if cv is not None and cv[0] == 'call' and len(cv) == 4 and cv[3] and cv[3][0] == fn.path else None
    cut = cut_function(sl, g) if g is not None else None
    if cut is not None and coll[2] == cut.segs and len(cv[2]) > max(cut.buf, cut.marker) and is_param(peel_same(cv[2][cut.buf]), fn, idx) \
            and is_marker(cv[2][cut.marker]) and not fn.in_loop(cv[3][1]) and reaches_unedited(fn, consumer, fn.call_at(cv[3][1]), ('.' + cut.segs,)):
        return cv[2][cut.marker], ('field', cv, cut.tail), (fn.call_at(cv[3][1]), ('.' + cut.tail,))
    return None


# ---- data provenance at statement level (what the slicer's value terms do not show: in-place mutation) ---------------
VIEW_CALLS = ('std::ops::Deref::deref', 'std::vec::Vec::<T, A>::as_slice', 'std::convert::AsRef::as_ref', 'std::borrow::Borrow::borrow',
              'std::boxed::Box::<T>::new')


def peel_views(v):
    """the value behind `&v`, `v.as_slice()`, `v.as_ref()`, `Box::new(v)` (the same bytes)"""
    v = strip(v)
    while v[0] == 'call' and len(v[2]) == 1 and v[1] in VIEW_CALLS:
        v = strip(v[2][0])
    return v


WHY = []       # why the last origins() calls gave up ('edited: ..' = a definite in-place modification)


def _clean_local(fn, local):
    """`local` holds one value from its single definition to its last use: never re-assigned, never written in part,
    never mutably borrowed (so no `&mut self` method can have edited it in place)"""
    if 1 <= local <= fn.argc:
        if fn.whole_defs(local):
            return False
    elif len(fn.whole_defs(local)) != 1:
        return False
    if fn.partial_defs(local):
        return False
    return not any(how in ('refmut', 'rawptr') for _, _, _, how, _ in fn.uses_of(local))


def origins(prog, fn, op, depth=0):
    """the call(s) that produced the data in operand `op` of fn, following it backwards through moves, copies, shared
    reborrows, one-element tuples, Deref-like views and — when it arrives as a parameter of a private function — every
    call site of that function.  None as soon as a local on the way is not `_clean_local` or the data comes from
    anything else (a constant, a field, a phi of several definitions): [Call] or None"""
    pl = op_place(op)
    if pl is None or depth > 12:
        return None
    local = pl[0]
    # `(x as Some).0` / `(x as Ok).0`: the payload of an Option / Result a private function built (followed into it below)
    proj = [p for p in pl[1:] if p != '*']
    payload = proj[:2] in (['@Some', '.0'], ['@Ok', '.0'])
    if any(p != '.0' for p in (proj[2:] if payload else proj)):
        return None
    if not _clean_local(fn, local):
        WHY.append('edited: %s of %s is re-assigned, written in part or mutably borrowed between its definition and its use' % (fn.local_name(local) or '_%d' % local, fn.path.split('::')[-1]))
        return None
    if 1 <= local <= fn.argc:
        if fn.kind == 'Closure' or fn.vis == 'pub':
            return None
        out = []
        sites = prog.callers().get(fn.path, [])
        for c in sites:
            if c.indirect or len(c.args) < local:
                return None
            r = origins(prog, c.fn, c.args[local - 1], depth + 1)
            if r is None:
                return None
            out.extend(r)
        return out or None
    d = fn.whole_defs(local)[0]
    if payload:
        # only understood for the result of a private function every return of which is a literal Some(x) / Ok(x) / None / Err(..)
        g = prog.fns.get(d[3].name) if d[0] == 'call' and not d[3].indirect else None
        if g is None or g.kind == 'Closure' or g.vis == 'pub' or g.partial_defs(0):
            return None
        out = []
        ds2 = g.whole_defs(0)
        if len(ds2) == 1 and ds2[0][0] == 'call' and not ds2[0][3].indirect and ds2[0][3].name == BOOL_THEN and len(ds2[0][3].args) == 2:
            # `cond.then(|| x)`: the payload is what the closure returns
            cpl = op_place(ds2[0][3].args[1])
            cds = g.whole_defs(cpl[0]) if cpl and len(cpl) == 1 and _clean_local(g, cpl[0]) and not (1 <= cpl[0] <= g.argc) else []
            rv = cds[0][3] if len(cds) == 1 and cds[0][0] == 'stmt' else None
            cf = prog.fns.get(rv.get('def')) if rv is not None and rv['r'] == 'agg' and rv.get('kind') == 'closure' else None
            if cf is None or len(cf.whole_defs(0)) != 1:
                return None
            return origins(prog, cf, {'m': [0]}, depth + 1)
        for d2 in ds2:
            rv = d2[3] if d2[0] == 'stmt' else None
            if rv is None or rv['r'] != 'agg' or rv.get('adt') not in ('std::option::Option', 'std::result::Result'):
                return None
            if rv.get('variant') in ('None', 'Err'):
                continue
            r = origins(prog, g, rv['ops'][0], depth + 1) if len(rv['ops']) == 1 else None
            if r is None:
                return None
            out.extend(r)
        return out or None
    if d[0] == 'call':
        c = d[3]
        if c.is_(*VIEW_CALLS) and c.args:
            return origins(prog, fn, c.args[0], depth + 1)
        # a private function that hands the value out: what it returns
        g = prog.fns.get(c.name) if not c.indirect else None
        if g is not None and g.kind != 'Closure' and g.vis != 'pub' and len(g.whole_defs(0)) == 1:
            r = origins(prog, g, {'m': [0]}, depth + 1)
            if r:
                return r
        return [c]
    if d[0] != 'stmt':
        return None
    rv = d[3]
    if rv['r'] in ('use', 'cast'):
        return origins(prog, fn, rv['o'], depth + 1)
    if rv['r'] == 'ref' and not rv['mut']:
        return origins(prog, fn, {'c': rv['p']}, depth + 1)
    if rv['r'] == 'cfd':
        return origins(prog, fn, {'c': rv['p']}, depth + 1)
    if rv['r'] == 'agg' and rv.get('kind') == 'tuple' and len(rv['ops']) == 1:
        return origins(prog, fn, rv['ops'][0], depth + 1)
    return None


def field_mutations(prog, fn, field, skip_next=None):
    """every statement-level way in which fn can change `<anything>.field` in place:
    [(kind, fn, bb, Call|None, arg index|None)] with kind
      'call'    a `&mut <..>.field` borrow (reborrows and captures by a closure followed) handed to a call as argument #idx
      'assign'  the field (or a part of it) is assigned / is the destination of a call
      'move'    the field is moved out
      'escape'  the `&mut` borrow is stored or used in any other way"""
    proj = '.' + field
    out = []

    def has(place):
        """the place goes through the field (with skip_next: .. and not on into that sub-field, which is scanned on its own)"""
        ps = [p for p in place[1:] if p != '*']
        return any(p == proj and not (skip_next is not None and ps[i + 1:i + 2] == ['.' + skip_next]) for i, p in enumerate(ps))

    def follow(g, local, depth=0):
        if depth > 8:
            out.append(('escape', g, None, None, None))
            return
        for bi, kind, idx, how, pl in g.uses_of(local):
            if kind == 'drop':
                continue
            if kind == 'stmt':
                tgt = g.blocks[bi]['s'][idx][1]
                rv = g.blocks[bi]['s'][idx][2]
                if how == 'ref' and pl[1:] == ['*']:
                    continue        # shared reborrow: read-only
                if how in ('refmut', 'm', 'c') and (pl[1:] == ['*'] or len(pl) == 1) and len(tgt) == 1 and rv['r'] in ('ref', 'use'):
                    follow(g, tgt[0], depth + 1)
                    continue
                if how in ('m', 'c') and len(pl) == 1 and rv['r'] == 'agg' and rv.get('kind') == 'closure' and prog.fns.get(rv.get('def')) is not None:
                    # captured by a closure: go on with the uses of that upvar inside the closure body
                    ns = [n for n, o in enumerate(rv['ops']) if op_place(o) == pl]
                    if len(ns) == 1 and upvar(prog.fns[rv['def']], ns[0], depth + 1):
                        continue
                out.append(('escape', g, bi, None, None))
            elif kind == 'arg':
                out.append(('call', g, bi, g.call_at(bi), idx))
            else:
                out.append(('escape', g, bi, None, None))

    def upvar(c, n, depth):
        """follow upvar #n (a `&mut` borrow) inside closure body c; False when it is used in a way that is not understood"""
        fld = '.%d' % n
        ok = True
        for bi, kind, idx, how, pl in c.uses_of(1):
            rest = pl[2:] if pl[1:2] == ['*'] else pl[1:]
            if not rest or rest[0] != fld:
                continue
            if kind != 'stmt':
                ok = False
                continue
            tgt = c.blocks[bi]['s'][idx][1]
            rv = c.blocks[bi]['s'][idx][2]
            if how == 'ref' and rest[1:] == ['*']:
                continue
            if len(tgt) == 1 and ((rv['r'] in ('use', 'cfd') and rest[1:] == []) or (how == 'refmut' and rest[1:] == ['*'])):
                follow(c, tgt[0], depth + 1)
                continue
            ok = False
        return ok

    for bi, b in enumerate(fn.blocks):
        for s in b['s']:
            if s[0] != '=':
                continue
            if has(s[1]):
                out.append(('assign', fn, bi, None, None))
            rv = s[2]
            if rv['r'] in ('ref', 'rawptr') and has(rv['p']) and (rv['r'] == 'rawptr' or rv['mut']):
                # a borrow of the field itself or of something inside it
                if len(s[1]) == 1:
                    follow(fn, s[1][0])
                else:
                    out.append(('escape', fn, bi, None, None))
            for pl, how in _rv_places(rv):
                if how == 'm' and has(pl):
                    out.append(('move', fn, bi, None, None))
        t = b['t']
        if t['t'] == 'call':
            if has(t['dest']):
                out.append(('assign', fn, bi, None, None))
            for a in t.get('args', []):
                if 'm' in a and has(a['m']):
                    out.append(('move', fn, bi, None, None))
    return out


def whole_ref_mutations(prog, fn, local, trusted):
    """what fn does with the `&mut T` it holds in `local` AS A WHOLE (uses that go on into a field of T are scanned by
    field_mutations): assigning through it, handing it (reborrows followed) to a function that is not `trusted`, storing it
    -> [description]"""
    out = []

    def follow(x, depth=0):
        if depth > 6:
            out.append('escape')
            return
        for bi, b in enumerate(fn.blocks):
            for s in b['s']:
                if s[0] == '=' and s[1][0] == x and len(s[1]) > 1 and not [p for p in s[1][1:] if p != '*']:
                    out.append('assignment through the borrow')
            t = b['t']
            if t['t'] == 'call' and t['dest'][0] == x and len(t['dest']) > 1 and not [p for p in t['dest'][1:] if p != '*']:
                out.append('assignment through the borrow')
        for bi, kind, idx, how, pl in fn.uses_of(x):
            if kind == 'drop' or [p for p in pl[1:] if p != '*']:
                continue
            if kind == 'arg':
                c = fn.call_at(bi)
                if c is None or c.indirect or not trusted(c):
                    out.append((c.name or 'indirect call').split('::')[-1] if c is not None else 'call')
            elif kind == 'stmt':
                tgt = fn.blocks[bi]['s'][idx][1]
                rv = fn.blocks[bi]['s'][idx][2]
                if how == 'ref':
                    continue
                if how in ('refmut', 'm', 'c') and len(tgt) == 1 and rv['r'] in ('ref', 'use'):
                    follow(tgt[0], depth + 1)
                else:
                    out.append('escape')
            else:
                out.append('escape')
    follow(local)
    return out


def _rv_places(rv):
    from .lib.mir import _rvalue_places
    return list(_rvalue_places(rv))


# ---- cursor loops: a slice cut after each marker by position + split_at ------------------------------------------------
# `let mut rest = buf; while let Some(i) = rest.iter().position(|b| *b == M) { let (seg, tail) = rest.split_at(i + 1); ..seg..;
# rest = tail; } ..rest..` (or `seg = &rest[..=i]; rest = &rest[i + 1..]`) visits an in-order partition of buf: by induction over the iterations (split_at(r, k) is (a, b)
# with a ++ b == r for ANY k, so no arithmetic is needed) the parts seen so far followed by `rest` are always buf; k is the
# position of the first M plus one, so every part ends with its only M; the loop is left exactly when `rest` holds no M.
# The template is matched on statements (which local is re-assigned where) and on value terms (the predicate, k).
SPLIT_AT = 'slice::<impl [T]>::split_at'
ITER_VIEW = ('::iter', '::into_iter')


def natural_loops(fn):
    """[(header, body, latches)] of the natural loops of fn's normal-edge CFG"""
    if fn.__dict__.get('_c19_nat_loops') is not None:
        return fn.__dict__['_c19_nat_loops']
    preds = fn.preds()
    out = []
    for h in sorted(fn.reachable(0)):
        from_h = fn.reachable(h)
        latches = [p for p in preds[h] if p in from_h and fn.dominates(h, p)]
        if not latches:
            continue
        body, work = {h}, list(latches)
        while work:
            b = work.pop()
            if b in body:
                continue
            body.add(b)
            work.extend(p for p in preds[b] if p in from_h)
        out.append((h, body, latches))
    fn.__dict__['_c19_nat_loops'] = out
    return out


def root(fn, place, bb, through_mut=False):
    """follow `place` (read in block bb) back through moves, copies, borrows and reborrows of temporaries that have a single
    definition and are never mutably borrowed themselves (unless through_mut): -> (local, field projections, block in which that local is read).
    The local reached is a parameter, the destination of a call, or a local with several definitions (loop-carried)."""
    if not place:
        return None, (), bb
    local, proj = place[0], tuple(p for p in place[1:] if p != '*')
    for _ in range(24):
        if 1 <= local <= fn.argc:
            break
        ds = fn.whole_defs(local)
        if len(ds) != 1 or fn.partial_defs(local) or ds[0][0] != 'stmt':
            break
        rv = ds[0][3]
        if rv['r'] == 'use':
            pl = op_place(rv['o'])
        elif rv['r'] in ('ref', 'cfd'):
            pl = rv['p']
        else:
            break
        if pl is None or (not through_mut and any(how in ('refmut', 'rawptr') for _, _, _, how, _ in fn.uses_of(local))):
            break
        bb = ds[0][1]
        local, proj = pl[0], tuple(p for p in pl[1:] if p != '*') + proj
    return local, proj, bb


def _stmt_root(fn, d):
    """root of the value a ('stmt', ..) definition assigns"""
    if d[0] != 'stmt':
        return None, (), None
    rv = d[3]
    pl = op_place(rv['o']) if rv['r'] == 'use' else (rv['p'] if rv['r'] in ('ref', 'cfd') else None)
    return root(fn, pl, d[1]) if pl else (None, (), None)


class CursorLoop:
    """fn's loop (header, body) that cuts parameter local `buf` after each byte equal to `marker` (a value in fn's terms):
    R the cursor local, pos the position call, part_call the call that yields the cut-off part (split_at: its field 0; an
    Index call: its result), part = (local, projections) of that part, (sw_bb -> exit) the edge taken when no marker is left,
    other_exits: the loop can also be left in another way (`?`, break, return)"""

    def __init__(self, **kw):
        self.__dict__.update(kw)

    def after(self, bb):
        """bb is only reached once the loop found no further marker"""
        return bb not in self.body and edge_dominates(self.fn, self.sw_bb, self.exit, bb)

    def reads_tail(self, place, bb):
        """`place`, read in bb, is what the cursor holds after the loop: the marker-free remainder"""
        local, proj, rbb = root(self.fn, place, bb)
        return local == self.R and proj == () and self.after(rbb)

    def is_part(self, v):
        """value v is the part cut off in the current iteration"""
        v = strip(v)
        if self.part[1]:
            if not (v[0] == 'field' and len(v) == 3 and '.' + v[2] == self.part[1][0]):
                return False
            v = strip(v[1])
        return v[0] == 'call' and len(v) == 4 and v[3] == (self.fn.path, self.part_call.bb)

    def per_iteration(self, bb):
        """block bb runs exactly once per cut-off part (conditions aside): after the part was cut off, before the back edge"""
        return bb in self.body and bb != self.part_call.bb and self.fn.dominates(self.part_call.bb, bb)


SLICE_INDEX = 'Index<I> for [T]>::index'


def _single_call_def(fn, local):
    ds = fn.whole_defs(local)
    return ds[0][3] if len(ds) == 1 and ds[0][0] == 'call' and not fn.partial_defs(local) and not ds[0][3].indirect else None


def cursor_loops(sl, fn, is_marker=None):
    """the CursorLoops of fn; is_marker: predicate the compared-with value has to satisfy (default: a parameter of fn)"""
    out = []
    mut_borrowed = lambda x: any(how in ('refmut', 'rawptr') for _, _, _, how, _ in fn.uses_of(x))
    for h, body, latches in natural_loops(fn):
        reads_cursor = lambda R, c, i=0: len(c.args) > i and (lambda r: r[0] == R and not r[1] and r[2] in body)(root(fn, op_place(c.args[i]), c.bb))
        for R in range(1, len(fn.locals)):
            # the cursor: initialised to a slice parameter (or that parameter itself), re-assigned once per iteration to the rest
            defs = fn.whole_defs(R)
            inside = [d for d in defs if d[1] in body]
            outside = [d for d in defs if d[1] not in body]
            if len(inside) != 1 or inside[0][0] not in ('stmt', 'call') or fn.partial_defs(R) or mut_borrowed(R):
                continue
            if 1 <= R <= fn.argc:
                buf = R if not outside else None
            else:
                buf = None
                if len(outside) == 1 and fn.dominates(outside[0][1], h):
                    b, bp, _ = _stmt_root(fn, outside[0])
                    if b is not None and 1 <= b <= fn.argc and not bp and not fn.whole_defs(b) and not fn.partial_defs(b):
                        buf = b
            if buf is None:
                continue
            step_bb = inside[0][1]
            if inside[0][0] == 'call':      # the call's result is stored in the cursor directly (after its arguments were read)
                rl, rproj, rc = R, (), (inside[0][3] if not inside[0][3].indirect else None)
            else:
                rl, rproj, _ = _stmt_root(fn, inside[0])
                rc = _single_call_def(fn, rl) if rl is not None and not (1 <= rl <= fn.argc) else None
            if rc is None or rc.bb not in body or len(rc.dest) != 1 or len(rc.args) != 2 or not reads_cursor(R, rc):
                continue
            # the gate: position(<iterator over the cursor>, |b| b == marker) is Some
            gate = None
            for cd in conditions(fn, rc.bb, sl):
                s = strip(cd.subject) if cd.subject is not None else ('unknown',)
                if cd.kind == 'variant' and cd.outcome and set(cd.outcome) == {'Some'} and cd.sw_bb in body and s[0] == 'call' and s[1] == IT + 'position' \
                        and len(s) == 4 and s[3] and s[3][0] == fn.path and s[3][1] in body:
                    gate = cd
            pc = fn.call_at(strip(gate.subject)[3][1]) if gate is not None else None
            if pc is None or pc.indirect or len(pc.args) != 2:
                continue
            one = lambda x: x[0] == 'const' and type(x[1]) is int and x[1] == 1
            is_pos = lambda v: (lambda x: x[0] == 'call' and len(x) == 4 and x[3] == (fn.path, pc.bb))(strip(v))

            def is_pos1(v):
                """the index of that first marker, plus one"""
                v = strip(v)
                if v[0] == 'field' and len(v) == 3 and v[2] == '0':
                    v = strip(v[1])
                if not (v[0] == 'bin' and v[1] in ('Add', 'AddWithOverflow') and len(v) == 4):
                    return False
                return (one(strip(v[3])) and is_pos(v[2])) or (one(strip(v[2])) and is_pos(v[3]))

            def range_of(c, adt, fld, test):
                v = strip(sl.operand(fn, c.args[1]))
                return v[0] == 'agg' and v[1] == adt and len(v[3]) == 1 and v[3][0][0] == fld and test(v[3][0][1])
            # how the cursor is cut: (part, rest) = R.split_at(i + 1)  |  part = &R[..=i] / &R[..i + 1], rest = &R[i + 1..]
            part_call = None
            if (rc.name or '').endswith(SPLIT_AT) and rproj == ('.1',) and is_pos1(sl.operand(fn, rc.args[1])):
                part_call, part = rc, (rc.dest[0], ('.0',))
            elif (rc.name or '').endswith(SLICE_INDEX) and rproj == () and range_of(rc, 'std::ops::RangeFrom', 'start', is_pos1):
                cands = [c for c in fn.calls if c.bb in body and not c.indirect and (c.name or '').endswith(SLICE_INDEX) and len(c.args) == 2 and len(c.dest) == 1
                         and reads_cursor(R, c) and (range_of(c, 'std::ops::RangeToInclusive', 'end', is_pos) or range_of(c, 'std::ops::RangeTo', 'end', is_pos1))]
                if len(cands) == 1:
                    part_call, part = cands[0], (cands[0].dest[0], ())
            if part_call is None:
                continue
            if (step_bb in (rc.bb, part_call.bb) and inside[0][0] != 'call') or step_bb == part_call.bb or not fn.dominates(rc.bb, step_bb) or not fn.dominates(part_call.bb, step_bb) or not all(fn.dominates(step_bb, l) for l in latches):
                continue
            if not edge_dominates(fn, gate.sw_bb, gate.target, part_call.bb):
                continue
            local, proj, rb = root(fn, op_place(pc.args[0]), pc.bb)
            for _ in range(6):
                if local == R or proj:
                    break
                c2 = _single_call_def(fn, local)
                if c2 is None or not c2.args or not (c2.name in ORDERED_SAME or ((c2.name or '').endswith(ITER_VIEW) and not c2.name.startswith(IT))):
                    break
                local, proj, rb = root(fn, op_place(c2.args[0]), c2.bb)
            if local != R or proj or rb not in body:
                continue
            b = ('unknown', 'element')
            pred = sl.apply_closure(strip(sl.operand(fn, pc.args[1])), (b,))
            if pred is None or pred[0] != 'bin' or pred[1] != 'Eq' or b not in (strip(pred[2]), strip(pred[3])):
                continue
            m = pred[3] if strip(pred[2]) == b else pred[2]
            if is_marker is not None:
                if not is_marker(m):
                    continue
            elif not (strip(m)[0] == 'param' and strip(m)[1] == fn.path):
                continue
            # the loop is left (normally) through the gate only
            leaving = [(x, s) for x in body for s in fn.succs(x) if s not in body and fn.blocks[s]['t']['t'] != 'unreachable']
            exits = sorted({s for x, s in leaving if x == gate.sw_bb})
            if len(exits) != 1 or gate.target in exits:
                continue
            out.append(CursorLoop(fn=fn, header=h, body=body, latches=latches, R=R, buf=buf, marker=m, pos=pc, part_call=part_call, part=part, sw_bb=gate.sw_bb,
                                  exit=exits[0], step_bb=step_bb, other_exits=any(x != gate.sw_bb for x, s in leaving)))
    return out


class Cut:
    """private function fn(.., buf, .., marker, ..) -> tuple whose field `segs` is the Vec of the marker-terminated parts of
    buf, in order, and whose field `tail` is the marker-free rest (parameter indices as in value terms)"""

    def __init__(self, fn, buf, marker, segs, tail):
        self.fn, self.buf, self.marker, self.segs, self.tail = fn, buf, marker, segs, tail


VEC_NEW = ('std::vec::Vec::<T>::new', 'std::vec::Vec::<T>::with_capacity')


def _collects_parts(fn, A, CL):
    """local A is a Vec that is created empty before the loop and changed by nothing but one push of the current part in
    every iteration"""
    ds = fn.whole_defs(A)
    if 1 <= A <= fn.argc or len(ds) != 1 or ds[0][0] != 'call' or fn.partial_defs(A) or ds[0][1] in CL.body:
        return False
    if ds[0][3].indirect or not ds[0][3].is_(*VEC_NEW) or not fn.dominates(ds[0][1], CL.header):
        return False
    pushes = []

    def borrowed(ref_local, depth=0):
        uses = [u for u in fn.uses_of(ref_local) if u[1] != 'drop']
        if len(uses) != 1 or depth > 3 or len(fn.whole_defs(ref_local)) != 1 or fn.partial_defs(ref_local):
            return False
        bi, kind, idx, how, pl = uses[0]
        if kind == 'arg' and idx == 0 and len(pl) == 1:
            c = fn.call_at(bi)
            if c is not None and not c.indirect and c.is_('std::vec::Vec::<T, A>::push') and len(c.args) == 2:
                pushes.append(c)
                return True
            return False
        if kind == 'stmt' and how == 'refmut' and pl[1:] == ['*']:
            tgt = fn.blocks[bi]['s'][idx][1]
            return len(tgt) == 1 and borrowed(tgt[0], depth + 1)
        return False
    for bi, kind, idx, how, pl in fn.uses_of(A):
        if kind == 'drop':
            continue
        if kind == 'stmt' and how == 'refmut' and len(pl) == 1:
            tgt = fn.blocks[bi]['s'][idx][1]
            if len(tgt) == 1 and borrowed(tgt[0]):
                continue
            return False
        if kind == 'stmt' and how in ('m', 'c') and len(pl) == 1 and CL.after(bi):
            continue        # handed on after the loop (what becomes of it then is judged by root())
        return False
    if len(pushes) != 1:
        return False
    p = pushes[0]
    if not CL.per_iteration(p.bb) or not all(fn.dominates(p.bb, l) for l in CL.latches):
        return False
    return root(fn, op_place(p.args[1]), p.bb)[:2] == CL.part


def cut_function(sl, fn):
    cache = sl.__dict__.setdefault('_c19_cuts', {})
    if fn.path in cache:
        return cache[fn.path]
    res = None
    ds = fn.whole_defs(0)
    if fn.kind != 'Closure' and fn.vis != 'pub' and len(ds) == 1 and ds[0][0] == 'stmt' and not fn.partial_defs(0) \
            and ds[0][3]['r'] == 'agg' and ds[0][3].get('kind') == 'tuple' and len(ds[0][3]['ops']) == 2:
        rbb = ds[0][1]
        ops = [op_place(o) for o in ds[0][3]['ops']]
        for CL in cursor_loops(sl, fn):
            if CL.other_exits or not CL.after(rbb) or None in ops:
                continue
            for ti in (0, 1):
                if not CL.reads_tail(ops[ti], rbb):
                    continue
                A, proj, abb = root(fn, ops[1 - ti], rbb)
                if A is None or proj or not CL.after(abb) or not _collects_parts(fn, A, CL):
                    continue
                res = Cut(fn, CL.buf - 1, strip(CL.marker)[2], str(1 - ti), str(ti))
    cache[fn.path] = res
    return res
