"""C10 — implicit layer paths: from directories, build/launch only, never persisted.

Decided structurally:
  R1 table            the constant rows iterated in read_from_layer_dir = the spec's "Layer Paths" table
                      (7 rows: PATH/LD_LIBRARY_PATH/LIBRARY_PATH/CPATH/PKG_CONFIG_PATH for build,
                      PATH/LD_LIBRARY_PATH for launch, with their sub-directory)
  R2 guard            both inserts of a row are guarded by Path::is_dir (symlink-following) of
                      <layer>/<dir> of the same row
  R3 behaviours       each row inserts Prepend(name, <layer>/<dir>) and Delimiter(name, separator const);
                      Build rows go to layer_paths_build, Launch rows to layer_paths_launch
  R4 scope inclusion  apply uses layer_paths_build only for Scope::Build and layer_paths_launch only for
                      Scope::Launch, after the explicit deltas
  R5 never persisted  the two implicit-path fields are private, written only by read_from_layer_dir and
                      read only by apply (plus derived impls); write_to_layer_dir never touches them
R1-R3 are stated on *entries* of the two implicit-path deltas, however they get there (C10_helpers): `insert` calls
reached through helpers / closures / unrolled table loops (lib/effects, branch decisions as guards), and the entries the
deltas are constructed with (`LayerEnvDelta { entries: rows.iter().map(..).filter(..).flat_map(..).collect() }` placed in
the returned LayerEnv; the predicates of the filtering stages as guards).
Not decided: what is_dir returns for each file-type assignment (kernel / std).
"""
from . import layer_env_common as L
from .lib.guards import conditions
from .lib.paths import strip
from .lib.tables import arm_defs, field_accesses, phi_local_of
from .lib.value import vstr, walk

SPEC = {('PATH', 'Build', 'bin'), ('LD_LIBRARY_PATH', 'Build', 'lib'), ('LIBRARY_PATH', 'Build', 'lib'),
        ('CPATH', 'Build', 'include'), ('PKG_CONFIG_PATH', 'Build', 'pkgconfig'),
        ('PATH', 'Launch', 'bin'), ('LD_LIBRARY_PATH', 'Launch', 'lib')}


def run(ctx, rep):
    prog, sl = ctx.prog, ctx.slicer
    L.resolve_roles(prog, sl)
    rep.rule('R1', '7-row layer path table = spec')
    rep.rule('R2', 'inserts guarded by Path::is_dir of the row\'s directory')
    rep.rule('R3', 'Prepend(name, dir) + Delimiter(name, separator) into the delta of the row\'s scope')
    rep.rule('R4', 'implicit deltas applied only for Build / Launch, after the explicit ones')
    rep.rule('R5', 'implicit-path fields are private, written only by the reader, read only by apply; never written to disk')
    rep.not_decided = ['outcome of is_dir for each file-type assignment (kernel/std)']
    g = prog.fn(L.R_LAYER)
    rep.analysed(g)
    where = '%s:%d' % (g.file, g.line)
    root = L.param_pred(g, 0)
    # Every delta insert that read_from_layer_dir performs, directly or through private helpers, closures and loops
    # over constant tables (unrolled row by row), with its arguments in the function's own terms:
    #   (target delta, behaviour, variable name, value) + the branch decisions it runs under.
    from .lib.effects import Effects, guards_of
    from . import C10_helpers as H
    E2 = Effects(prog, sl, vocab={L.INSERT: ('INSERT', None)})
    ins = []
    for e in E2.expand(g, 'may'):
        if e.kind != 'INSERT' or len(e.args) < 4:
            continue
        tgt = strip(e.args[0])
        fld = tgt[2] if tgt[0] == 'field' and tgt[2] in H.FIELDS else None
        if fld is None and not any(x[0] == 'field' and x[2] in H.FIELDS for x in walk(e.args[0])):
            continue    # an insert into a delta that is being read from an env directory, not an implicit path
        views = [(v, oc) for cd, vs, subj in guards_of(E2, e) if cd.kind == 'bool' for v, oc in vs]
        # a loop over a table that is literal only in the caller's terms (the rows handed to a private helper as a
        # slice) is unrolled here, row by row, like lib/effects does for a loop over a table literal of its own function
        for a, vs2, opq in H.unrolled(E2, e, tuple(e.args[:4]), views):
            ins.append(H.Entry(fld, a[0], a[1], a[2], a[3], vs2, e.where(), 'insert', opq))
    # ... and every entry the two implicit-path deltas are *constructed* with (`LayerEnvDelta { entries: rows.iter()
    # .map(..).filter(..).flat_map(..).collect() }` placed into the returned LayerEnv, directly or through a local closure /
    # private helper): the same records, the predicates of the filtering stages taking the place of the branch decisions.
    built, opaque = H.constructed(prog, sl, g)
    ins.extend(built)
    for fld, v in opaque:
        rep.unproven('R3', 'initial/%s' % fld, where, 'the content %s is constructed with could not be enumerated: %s' % (fld, vstr(v)[:100]))
    rep.floor('R3', 'insert_sites', len(ins))
    got = set()
    delims = set()
    per_beh = {}
    for e in ins:
        fld = e.fld
        beh, name, val = strip(e.beh), strip(e.name), strip(e.val)
        bname = beh[2] if beh[0] == 'agg' and beh[1] == L.MB else vstr(beh)[:40]
        scope = {'layer_paths_build': 'Build', 'layer_paths_launch': 'Launch'}.get(fld)
        rep.check(scope is not None, 'R3', 'insert/%s/target' % bname, e.where, 'Build rows -> layer_paths_build, Launch rows -> layer_paths_launch',
                  'implicit path inserted into %s' % vstr(e.target)[:80])
        if name[0] != 'const' or not isinstance(name[1], str):
            rep.unproven('R3', 'insert/%s/name' % bname, e.where, 'variable name is not a constant of a row table: ' + vstr(name)[:100])
            continue
        per_beh[bname] = per_beh.get(bname, 0) + 1
        # the row's directory: from the value (Prepend) and from the is_dir test the entry exists under (both behaviours)
        gdirs = []
        for v, oc in e.views:
            if v[0] == 'call' and v[1] == 'std::path::Path::is_dir' and oc is True:
                cs = L.comps(v[2][0], root)
                if cs is not None and len(cs) == 1:
                    gdirs.append(cs[0])
        if bname == 'Prepend':
            cs = L.comps(val, root)
            ok_v = cs is not None and len(cs) == 1 and isinstance(cs[0], str)
            rep.check(ok_v, 'R3', 'insert/Prepend/value', e.where, 'Prepend(name, <layer>/<dir>)', 'Prepend entry value is not a directory of the layer: ' + vstr(val)[:100])
            if ok_v:
                got.add((name[1], scope, cs[0]))
                if cs[0] not in gdirs and e.opaque:
                    rep.unproven('R2', 'insert/Prepend/guard', e.where, 'implicit Prepend entry %s=<layer>/%s passes a filter whose predicate could '
                                 'not be expressed; no Path::is_dir test of that directory was recognised (guards: %s)' % (name[1], cs[0], gdirs))
                else:
                    rep.check(cs[0] in gdirs, 'R2', 'insert/Prepend/guard', e.where, 'guarded by is_dir(<layer>/%s) == true' % cs[0],
                              'implicit Prepend entry %s=<layer>/%s is not guarded by Path::is_dir of that directory (guards: %s)' % (name[1], cs[0], gdirs))
        elif bname == 'Delimiter':
            rep.check(val == ('const', ':'), 'R3', 'insert/Delimiter/value', e.where, 'Delimiter(name, ":")',
                      'Delimiter entry is not the platform path-list separator ":": ' + vstr(val)[:80])
            delims.add((name[1], scope, tuple(sorted(set(gdirs)))))
        else:
            rep.violated('R3', 'insert/%s' % bname, e.where, 'implicit layer path inserted with behaviour %s' % bname)
    # each row inserts one Prepend and one Delimiter entry, under the same directory test
    pairs_ok = per_beh.get('Prepend') == per_beh.get('Delimiter') and set(per_beh) <= {'Prepend', 'Delimiter'} and \
        all(any(d[0] == n and d[1] == sc and dr in d[2] for d in delims) for n, sc, dr in got)
    rep.check(pairs_ok, 'R3', 'insert/pair', where, 'each row inserts one Prepend and one Delimiter entry', 'rows insert %s' % per_beh)
    for n, sc, dr in sorted(got):
        d_ok = any(d[0] == n and d[1] == sc and dr in d[2] for d in delims)
        rep.check(d_ok, 'R2', 'insert/Delimiter/guard/%s/%s' % (n, sc), where, 'the delimiter of %s is set under is_dir(<layer>/%s)' % (n, dr),
                  'the Delimiter entry of %s (%s) is not guarded by Path::is_dir of the row\'s directory' % (n, sc))
    # ---- R1 ----------------------------------------------------------------------------------------
    rep.extra['layer_path_rows'] = sorted(got)
    if not got:
        rep.unproven('R1', 'table', where, 'no implicit layer path insert was recognised: the row table could not be extracted')
    for row in sorted(SPEC if got else ()):
        rep.check(row in got, 'R1', 'row/%s/%s' % (row[0], row[1]), where, '%s for %s from <layer>/%s' % row, 'spec row %s missing' % (row,))
    for row in sorted(got - SPEC):
        rep.violated('R1', 'extra-row/%s/%s' % (row[0], row[1]), where, 'row %s is not in the spec\'s layer path table' % (row,))
    if got:
        rep.check(per_beh.get('Prepend') == 7, 'R1', 'table/size', where, 'exactly 7 rows', '%s Prepend inserts (duplicates or extras)' % per_beh.get('Prepend'))
    # ---- R6: the entries inserted above take effect through the Prepend / Delimiter arms of the delta application --
    from . import C04
    rep.rule('R6', 'Prepend / Delimiter arms of the delta application (shared with C04.R5): value [+ delimiter + previous if non-empty], on every path')
    C04.arm_rules(ctx, rep, rule='R6', only=('Prepend', 'Delimiter', 'delimiter-lookup'))
    # ---- R4 ----------------------------------------------------------------------------------------
    from . import C04_helpers as H4     # per-Scope evaluation of LayerEnv::apply (independent of how the fold is spelled)
    f, table, why4, _shape = H4.scope_tables(prog)
    for variant in sorted(table):
        if table[variant] is None:
            rep.unproven('R4', 'apply/' + variant, '%s:%d' % (f.file, f.line), 'delta list of Scope::%s not understood: %s' % (variant, why4.get(variant)))
    for variant, seq in table.items():
        if seq is None:
            continue
        for fld, only in (('layer_paths_build', 'Build'), ('layer_paths_launch', 'Launch')):
            if variant == only:
                rep.check(seq.count(fld) == 1 and seq[-1] == fld, 'R4', 'apply/%s/%s' % (variant, fld), '%s:%d' % (f.file, f.line),
                          '%s applied last for Scope::%s' % (fld, variant), 'Scope::%s applies %s' % (variant, seq))
            else:
                rep.check(fld not in seq, 'R4', 'apply/%s/%s' % (variant, fld), '%s:%d' % (f.file, f.line),
                          '%s not applied for Scope::%s' % (fld, variant), 'Scope::%s applies implicit paths of another scope: %s' % (variant, seq))
    # ---- R5 ----------------------------------------------------------------------------------------
    le = prog.adt(L.LE)
    for fld in ('layer_paths_build', 'layer_paths_launch'):
        fd = [x for v in le['variants'] for x in v['fields'] if x['name'] == fld]
        if not fd:
            rep.unproven('R5', 'field/' + fld, '%s:%d' % (le['file'], le['line']), 'field not found')
            continue
        rep.check(fd[0]['vis'] not in ('pub',), 'R5', 'private/' + fld, '%s:%d' % (le['file'], le['line']), 'field is not public',
                  'implicit path field is public: it could be set and persisted by users')
        acc = [(fn, bi, how) for fn, bi, how in field_accesses(prog, fld, L.LE) if not fn.derived]
        writers = sorted({fn.path for fn, bi, how in acc if how in ('write', 'refmut', 'init')})
        readers = sorted({fn.path for fn, bi, how in acc if how in ('read', 'ref', 'arg')})
        rep.check(writers == [L.R_LAYER], 'R5', 'writers/' + fld, where, 'written only by read_from_layer_dir', 'written by %s' % writers)
        # read only by apply and by private helpers that only apply can reach; never by anything the writer can reach
        ap = prog.fns.get(L.APPLY)
        wl_ = prog.fns.get(L.W_LAYER)
        from_apply = set(prog.reach([ap])) if ap else set()
        from_writer = set(prog.reach([wl_])) if wl_ else set()
        callers_ = prog.callers()

        def only_from_apply(path, depth=0):
            if path == L.APPLY:
                return True
            f_ = prog.fns.get(path)
            if f_ is None or depth > 4 or f_.vis == 'pub' or path not in from_apply:
                return False
            parent = f_.parent if f_.kind == 'Closure' else None
            if parent:
                return only_from_apply(parent, depth + 1)
            cs_ = [c for c in callers_.get(path, []) if c.name == path]
            return bool(cs_) and all(only_from_apply(c.fn.path, depth + 1) for c in cs_)
        bad_readers = [r_ for r_ in readers if not only_from_apply(r_) or r_ in from_writer]
        rep.check(bool(readers) and not bad_readers, 'R5', 'readers/' + fld, where,
                  'read only by apply (and private helpers only apply reaches)', 'read by %s (the writer must never see it)' % (bad_readers or readers))
    # the writer persists exactly the four explicit scopes
    # (the writer's effects are taken over values in which a Vec grown through `&mut` — vec![..] + extend / push — before
    # it is iterated is the chain of all its rows (C03_helpers.GrowSlicer, exact or opaque, never the initial literal
    # alone): a table of (directory, delta) pairs assembled in steps is unrolled like a literal table)
    from .C03_helpers import GrowSlicer
    wf, wt, wcalls = L.writer_scope_table(prog, GrowSlicer(prog))
    rep.check(sorted(wt) == ['all', 'build', 'launch', 'process[*]'] and all(sc is not None for _, sc, _, _, _ in wcalls), 'R5', 'writer/scopes',
              '%s:%d' % (wf.file, wf.line), 'write_to_layer_dir persists all, build, launch, process only', 'writer persists %s' % sorted(map(str, wt)))
