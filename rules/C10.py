"""C10 — implicit layer paths: from directories, build/launch only, never persisted.

Decided structurally:
  R1 table            the constant rows iterated in read_from_layer_dir = the spec's "Layer Paths" table
                      (7 rows: PATH/LD_LIBRARY_PATH/LIBRARY_PATH/CPATH/PKG_CONFIG_PATH for build,
                      PATH/LD_LIBRARY_PATH for launch, with their sub-directory)
  R2 guard            both inserts of a row are guarded by Path::is_dir (symlink-following) of
                      <layer>/<dir> of the same row
  R3 behaviours       each row inserts Prepend(name, <layer>/<dir>) and Delimiter(name, separator const);
                      Build rows go to layer_paths_build, Launch rows to layer_paths_launch
  R4 scope inclusion  apply uses layer_paths_build only for Scope::Build and layer_paths_launch only for
                      Scope::Launch, after the explicit deltas
  R5 never persisted  the two implicit-path fields are private, written only by read_from_layer_dir and
                      read only by apply (plus derived impls); write_to_layer_dir never touches them
Not decided: what is_dir returns for each file-type assignment (kernel / std).
"""
from . import layer_env_common as L
from .lib.guards import conditions
from .lib.paths import strip
from .lib.tables import arm_defs, field_accesses, phi_local_of
from .lib.value import vstr, walk

SPEC = {('PATH', 'Build', 'bin'), ('LD_LIBRARY_PATH', 'Build', 'lib'), ('LIBRARY_PATH', 'Build', 'lib'),
        ('CPATH', 'Build', 'include'), ('PKG_CONFIG_PATH', 'Build', 'pkgconfig'),
        ('PATH', 'Launch', 'bin'), ('LD_LIBRARY_PATH', 'Launch', 'lib')}


def run(ctx, rep):
    prog, sl = ctx.prog, ctx.slicer
    L.resolve_roles(prog, sl)
    rep.rule('R1', '7-row layer path table = spec')
    rep.rule('R2', 'inserts guarded by Path::is_dir of the row\'s directory')
    rep.rule('R3', 'Prepend(name, dir) + Delimiter(name, separator) into the delta of the row\'s scope')
    rep.rule('R4', 'implicit deltas applied only for Build / Launch, after the explicit ones')
    rep.rule('R5', 'implicit-path fields are private, written only by the reader, read only by apply; never written to disk')
    rep.not_decided = ['outcome of is_dir for each file-type assignment (kernel/std)']
    g = prog.fn(L.R_LAYER)
    rep.analysed(g)
    where = '%s:%d' % (g.file, g.line)
    root = L.param_pred(g, 0)
    ins = [c for c in g.calls if c.name == L.INSERT]
    rep.floor('R3', 'insert_sites', len(ins))
    rows = None
    coll_seen = None
    per_beh = {}
    for c in ins:
        beh = strip(sl.operand(g, c.args[1]))
        name = strip(sl.operand(g, c.args[2]))
        val = strip(sl.operand(g, c.args[3]))
        bname = beh[2] if beh[0] == 'agg' and beh[1] == L.MB else vstr(beh)
        coll, proj = L.loop_element(name)
        if coll is None or coll[0] != 'array':
            rep.unproven('R3', 'insert/%s/name' % bname, c.where(), 'variable name is not an element of a constant row table: ' + vstr(name)[:100])
            continue
        coll_seen = coll
        ok_name = proj == ('0',)
        # guard
        gd = [cd for cd in conditions(g, c.bb, sl) if cd.kind == 'bool' and cd.value[0] == 'call' and cd.value[1].startswith('std::path::Path::')]
        good_guard = False
        why = [repr(x) for x in gd]
        for cd in gd:
            if cd.value[1] == 'std::path::Path::is_dir' and cd.outcome is True:
                c2, p2 = L.loop_element(cd.value[2][0])
                if c2 == coll and p2 == ('2',):
                    good_guard = True
        rep.check(good_guard, 'R2', 'insert/%s/guard' % bname, c.where(), 'guarded by is_dir(<layer>/<dir of the row>) == true',
                  'implicit %s entry is not guarded by Path::is_dir of the row\'s directory: %s' % (bname, why))
        if bname == 'Prepend':
            c3, p3 = L.loop_element(val)
            rep.check(ok_name and c3 == coll and p3 == ('2',), 'R3', 'insert/Prepend/value', c.where(), 'Prepend(name, <layer>/<dir>)',
                      'Prepend entry value is not the row\'s directory: ' + vstr(val)[:100])
        elif bname == 'Delimiter':
            rep.check(ok_name and val == ('const', ':'), 'R3', 'insert/Delimiter/value', c.where(), 'Delimiter(name, ":")',
                      'Delimiter entry is not the platform path-list separator ":": ' + vstr(val)[:80])
        else:
            rep.violated('R3', 'insert/%s' % bname, c.where(), 'implicit layer path inserted with behaviour %s' % bname)
        per_beh[bname] = per_beh.get(bname, 0) + 1
        # target delta by scope of the row
        loc = phi_local_of(g, c.args[0])
        tgt = {}
        if loc is not None:
            for bi, v, conds in arm_defs(g, loc, sl):
                var = [cd for cd in conds if cd.kind == 'variant' and cd.enum == L.SCOPE]
                v = strip(v)
                fld = v[2] if v[0] == 'field' else vstr(v)[:50]
                if var and len(var[-1].outcome) == 1:
                    c4, p4 = L.loop_element(var[-1].subject)
                    if c4 == coll and p4 == ('1',):
                        tgt[next(iter(var[-1].outcome))] = fld
        rep.check(tgt == {'Build': 'layer_paths_build', 'Launch': 'layer_paths_launch'}, 'R3', 'insert/%s/target' % bname, c.where(),
                  'Build rows -> layer_paths_build, Launch rows -> layer_paths_launch', 'row scope -> target delta table is %s' % tgt)
    rep.check(per_beh == {'Prepend': 1, 'Delimiter': 1}, 'R3', 'insert/pair', where, 'each row inserts one Prepend and one Delimiter entry',
              'rows insert %s' % per_beh)
    # ---- R1 ----------------------------------------------------------------------------------------
    if coll_seen is None:
        rep.unproven('R1', 'table', where, 'row table not found')
    else:
        got = set()
        bad = []
        for row in coll_seen[1]:
            row = strip(row)
            if row[0] != 'tuple' or len(row[1]) != 3:
                bad.append(vstr(row)[:80])
                continue
            n, sc, pth = (strip(x) for x in row[1])
            cs = L.comps(pth, root)
            if n[0] == 'const' and sc[0] == 'agg' and sc[1] == L.SCOPE and cs is not None and len(cs) == 1:
                got.add((n[1], sc[2], cs[0]))
            else:
                bad.append(vstr(row)[:80])
        rep.extra['layer_path_rows'] = sorted(got)
        rep.check(not bad, 'R1', 'table/shape', where, 'all rows are (name, scope, <layer>/<dir>) constants', 'unrecognised rows: %s' % bad)
        for row in sorted(SPEC):
            rep.check(row in got, 'R1', 'row/%s/%s' % (row[0], row[1]), where, '%s for %s from <layer>/%s' % row, 'spec row %s missing' % (row,))
        for row in sorted(got - SPEC):
            rep.violated('R1', 'extra-row/%s/%s' % (row[0], row[1]), where, 'row %s is not in the spec\'s layer path table' % (row,))
        rep.check(len(coll_seen[1]) == 7, 'R1', 'table/size', where, 'exactly 7 rows', '%d rows (duplicates or extras)' % len(coll_seen[1]))
    # ---- R6: the entries inserted above take effect through the Prepend / Delimiter arms of the delta application --
    from . import C04
    rep.rule('R6', 'Prepend / Delimiter arms of the delta application (shared with C04.R5): value [+ delimiter + previous if non-empty], on every path')
    C04.arm_rules(ctx, rep, rule='R6', only=('Prepend', 'Delimiter', 'delimiter-lookup'))
    # ---- R4 ----------------------------------------------------------------------------------------
    f, table, info = L.apply_scope_table(prog, sl)
    for variant, seq in table.items():
        for fld, only in (('layer_paths_build', 'Build'), ('layer_paths_launch', 'Launch')):
            if variant == only:
                rep.check(seq.count(fld) == 1 and seq[-1] == fld, 'R4', 'apply/%s/%s' % (variant, fld), '%s:%d' % (f.file, f.line),
                          '%s applied last for Scope::%s' % (fld, variant), 'Scope::%s applies %s' % (variant, seq))
            else:
                rep.check(fld not in seq, 'R4', 'apply/%s/%s' % (variant, fld), '%s:%d' % (f.file, f.line),
                          '%s not applied for Scope::%s' % (fld, variant), 'Scope::%s applies implicit paths of another scope: %s' % (variant, seq))
    # ---- R5 ----------------------------------------------------------------------------------------
    le = prog.adt(L.LE)
    for fld in ('layer_paths_build', 'layer_paths_launch'):
        fd = [x for v in le['variants'] for x in v['fields'] if x['name'] == fld]
        if not fd:
            rep.unproven('R5', 'field/' + fld, '%s:%d' % (le['file'], le['line']), 'field not found')
            continue
        rep.check(fd[0]['vis'] not in ('pub',), 'R5', 'private/' + fld, '%s:%d' % (le['file'], le['line']), 'field is not public',
                  'implicit path field is public: it could be set and persisted by users')
        acc = [(fn, bi, how) for fn, bi, how in field_accesses(prog, fld, L.LE) if not fn.derived]
        writers = sorted({fn.path for fn, bi, how in acc if how in ('write', 'refmut', 'init')})
        readers = sorted({fn.path for fn, bi, how in acc if how in ('read', 'ref', 'arg')})
        rep.check(writers == [L.R_LAYER], 'R5', 'writers/' + fld, where, 'written only by read_from_layer_dir', 'written by %s' % writers)
        rep.check(readers == [L.APPLY], 'R5', 'readers/' + fld, where, 'read only by apply', 'read by %s (the writer must never see it)' % readers)
    # the writer persists exactly the four explicit scopes
    wf, wt, wcalls = L.writer_scope_table(prog, sl)
    rep.check(sorted(wt) == ['all', 'build', 'launch', 'process[*]'] and all(sc is not None for _, sc, _, _, _ in wcalls), 'R5', 'writer/scopes',
              '%s:%d' % (wf.file, wf.line), 'write_to_layer_dir persists all, build, launch, process only', 'writer persists %s' % sorted(map(str, wt)))
