"""C10 — implicit layer paths: from directories, build/launch only, never persisted.

Decided structurally:
  R1 table            the constant rows iterated in read_from_layer_dir = the spec's "Layer Paths" table
                      (7 rows: PATH/LD_LIBRARY_PATH/LIBRARY_PATH/CPATH/PKG_CONFIG_PATH for build,
                      PATH/LD_LIBRARY_PATH for launch, with their sub-directory)
  R2 guard            both inserts of a row are guarded by Path::is_dir (symlink-following) of
                      <layer>/<dir> of the same row
  R3 behaviours       each row inserts Prepend(name, <layer>/<dir>) and Delimiter(name, separator const);
                      Build rows go to layer_paths_build, Launch rows to layer_paths_launch
  R4 scope inclusion  apply uses layer_paths_build only for Scope::Build and layer_paths_launch only for
                      Scope::Launch, after the explicit deltas
  R5 never persisted  the two implicit-path fields are private, written only by read_from_layer_dir and
                      read only by apply (plus derived impls); write_to_layer_dir never touches them
  R6 arms             the Prepend / Delimiter arms of the delta application and the delimiter lookup (shared with C04)
  R7 whenever         "exactly when", the other direction: the is_dir test of its own directory is the *only* decision an
                      implicit entry depends on (guard-only: no extra conjunct, no truncating stage), no path through the
                      row loop / the functions on the way skips the insert once that test passed (always: CFG search per
                      chain level, "not a directory" edges and edges no row of the table can take removed), and the row
                      loop is only left when the rows are exhausted (exhaustive: no break / early success return, no
                      short-circuiting consumer whose closure can say stop);
                      layer-data: every `LayerData` value gets its env from read_from_layer_dir(<its own path>), so what the
                      trait API hands out as the layer's environment always carries the implicit entries
  R5 also             in read_from_layer_dir the explicit deltas receive entries only inside the env directory reader
R1-R3 are stated on *entries* of the two implicit-path deltas, however they get there (C10_helpers): `insert` calls
reached through helpers / closures / unrolled table loops (lib/effects, branch decisions as guards), and the entries the
deltas are constructed with (`LayerEnvDelta { entries: rows.iter().map(..).filter(..).flat_map(..).collect() }` placed in
the returned LayerEnv; the predicates of the filtering stages as guards).  An insert into a delta that a private helper
creates, fills and returns (`layer_paths_build: LayerEnvDelta::from_rows(&[..])`) is an insert into the field the result
of that call is stored in (C10_helpers.returned_into: object identity by creation site, exact — no alternatives); a
helper's loop over a pipeline on its parameter is evaluated row by row on the caller's table.  Boolean closures written
with branches (`a && b`) contribute every decision on the way to `true`; where a joined value hides one, the entry is
opaque (UNPROVEN), never silently accepted.
Not decided: what is_dir returns for each file-type assignment (kernel / std).
"""
from . import layer_env_common as L
from .lib.guards import conditions
from .lib.paths import strip
from .lib.tables import arm_defs, field_accesses, phi_local_of
from .lib.value import vstr, walk

SPEC = {('PATH', 'Build', 'bin'), ('LD_LIBRARY_PATH', 'Build', 'lib'), ('LIBRARY_PATH', 'Build', 'lib'),
        ('CPATH', 'Build', 'include'), ('PKG_CONFIG_PATH', 'Build', 'pkgconfig'),
        ('PATH', 'Launch', 'bin'), ('LD_LIBRARY_PATH', 'Launch', 'lib')}


class _R6Filter:
    """forwards the instances of C04.arm_rules that concern implicit entries: the Prepend / Delimiter arms, the delimiter
    lookup and mutations of the environment outside the per-entry dispatch"""
    ARMS = ('Prepend', 'Delimiter')

    def __init__(self, rep):
        self._rep = rep

    def _want(self, subject):
        return subject == 'delimiter-lookup' or subject.startswith('unclassified/') or any(subject.endswith('/' + a) for a in self.ARMS)

    def check(self, cond, rule, subject, *a, **k):
        return self._rep.check(cond, rule, subject, *a, **k) if self._want(subject) else cond

    def unproven(self, rule, subject, *a, **k):
        if self._want(subject):
            self._rep.unproven(rule, subject, *a, **k)

    def __getattr__(self, n):
        return getattr(self._rep, n)


def run(ctx, rep):
    prog, sl = ctx.prog, ctx.slicer
    L.resolve_roles(prog, sl)
    rep.rule('R1', '7-row layer path table = spec')
    rep.rule('R2', 'inserts guarded by Path::is_dir of the row\'s directory')
    rep.rule('R3', 'Prepend(name, dir) + Delimiter(name, separator) into the delta of the row\'s scope')
    rep.rule('R4', 'implicit deltas applied only for Build / Launch, after the explicit ones')
    rep.rule('R5', 'implicit-path fields are private, written only by the reader, read only by apply; never written to disk')
    rep.not_decided = ['outcome of is_dir for each file-type assignment (kernel/std)']
    g = prog.fn(L.R_LAYER)
    rep.analysed(g)
    where = '%s:%d' % (g.file, g.line)
    root = L.param_pred(g, 0)
    # Every delta insert that read_from_layer_dir performs, directly or through private helpers, closures and loops
    # over constant tables (unrolled row by row), with its arguments in the function's own terms:
    #   (target delta, behaviour, variable name, value) + the branch decisions it runs under.
    from .lib.effects import Effects, guards_of
    from . import C10_helpers as H
    E2 = Effects(prog, sl, vocab={L.INSERT: ('INSERT', None)})
    ins = []
    leaks = []
    ok_value = sl.mk_unwrap(sl.local(g, 0), 1)
    for e in E2.expand(g, 'may'):
        if e.kind != 'INSERT' or len(e.args) < 4:
            continue
        tgt = strip(e.args[0])
        fld = tgt[2] if tgt[0] == 'field' and tgt[2] in H.FIELDS else None
        levels = H.level_calls(e)
        if fld is None:
            # the delta a private helper creates, fills and returns, stored in an implicit-path field by the caller
            fld = H.returned_into(prog, sl, g, ok_value, e.args[0], levels)
        if fld is None and not any(x[0] == 'field' and x[2] in H.FIELDS for x in walk(e.args[0])):
            # an insert into a delta that is being read from an env directory, not an implicit path — provided it does
            # happen inside the env directory reader: anything else read_from_layer_dir puts into an explicit delta
            # is written back by write_to_layer_dir (R5)
            through = set()
            for c, _ in levels:
                through.add(c.name)
                f_ = c.fn
                for _i in range(6):
                    through.add(f_.path)
                    f_ = prog.fns.get(f_.parent) if f_.kind == 'Closure' and f_.parent else None
                    if f_ is None:
                        break
            if L.R_DIR not in through:
                leaks.append(e)
            continue
        conds = [vs for cd, vs, subj in guards_of(E2, e) if cd.kind == 'bool']
        views = [x for vs in conds for x in vs]
        gidx = [i for i, vs in enumerate(conds) for _ in vs]
        # a pipeline in the header of a loop that lib/effects unrolled (`for row in rows.into_iter().filter(p)`): the
        # predicates of its stages for this row are decisions the entry depends on, like an `if` in the body
        hviews, hopq = H.header_guards(E2, e)
        # a loop over a table that is literal only in the caller's terms (the rows handed to a private helper as a
        # slice) is unrolled here, row by row, like lib/effects does for a loop over a table literal of its own function
        for a, vs2, opq in H.unrolled(E2, e, tuple(e.args[:4]), views):
            groups = [[] for _ in conds]
            for i, gi in enumerate(gidx):
                groups[gi].append(vs2[i])
            extra = [x for x in vs2[len(gidx):]] + [x for x in hviews if x not in vs2]
            groups.extend(H.groups_of(extra))
            ins.append(H.Entry(fld, a[0], a[1], a[2], a[3], list(vs2) + [x for x in hviews if x not in vs2], e.where(), 'insert', opq or hopq,
                               groups=[g_ for g_ in groups if g_], levels=levels))
    # ... and every entry the two implicit-path deltas are *constructed* with (`LayerEnvDelta { entries: rows.iter()
    # .map(..).filter(..).flat_map(..).collect() }` placed into the returned LayerEnv, directly or through a local closure /
    # private helper): the same records, the predicates of the filtering stages taking the place of the branch decisions.
    built, opaque = H.constructed(prog, sl, g)
    ins.extend(built)
    for fld, v in opaque:
        rep.unproven('R3', 'initial/%s' % fld, where, 'the content %s is constructed with could not be enumerated: %s' % (fld, vstr(v)[:100]))
    rep.floor('R3', 'insert_sites', len(ins))
    got = set()
    delims = set()
    per_beh = {}
    for e in ins:
        fld = e.fld
        beh, name, val = strip(e.beh), strip(e.name), strip(e.val)
        bname = beh[2] if beh[0] == 'agg' and beh[1] == L.MB else vstr(beh)[:40]
        scope = {'layer_paths_build': 'Build', 'layer_paths_launch': 'Launch'}.get(fld)
        rep.check(scope is not None, 'R3', 'insert/%s/target' % bname, e.where, 'Build rows -> layer_paths_build, Launch rows -> layer_paths_launch',
                  'implicit path inserted into %s' % vstr(e.target)[:80])
        if name[0] != 'const' or not isinstance(name[1], str):
            rep.unproven('R3', 'insert/%s/name' % bname, e.where, 'variable name is not a constant of a row table: ' + vstr(name)[:100])
            continue
        per_beh[bname] = per_beh.get(bname, 0) + 1
        # the row's directory: from the value (Prepend) and from the is_dir test the entry exists under (both behaviours)
        gdirs = []
        for v, oc in e.views:
            if v[0] == 'call' and v[1] == 'std::path::Path::is_dir' and oc is True:
                cs = L.comps(v[2][0], root)
                if cs is not None and len(cs) == 1:
                    gdirs.append(cs[0])
        if bname == 'Prepend':
            cs = L.comps(val, root)
            ok_v = cs is not None and len(cs) == 1 and isinstance(cs[0], str)
            rep.check(ok_v, 'R3', 'insert/Prepend/value', e.where, 'Prepend(name, <layer>/<dir>)', 'Prepend entry value is not a directory of the layer: ' + vstr(val)[:100])
            if ok_v:
                got.add((name[1], scope, cs[0]))
                if cs[0] not in gdirs and e.opaque:
                    rep.unproven('R2', 'insert/Prepend/guard', e.where, 'implicit Prepend entry %s=<layer>/%s passes a filter whose predicate could '
                                 'not be expressed; no Path::is_dir test of that directory was recognised (guards: %s)' % (name[1], cs[0], gdirs))
                else:
                    rep.check(cs[0] in gdirs, 'R2', 'insert/Prepend/guard', e.where, 'guarded by is_dir(<layer>/%s) == true' % cs[0],
                              'implicit Prepend entry %s=<layer>/%s is not guarded by Path::is_dir of that directory (guards: %s)' % (name[1], cs[0], gdirs))
        elif bname == 'Delimiter':
            rep.check(val == ('const', ':'), 'R3', 'insert/Delimiter/value', e.where, 'Delimiter(name, ":")',
                      'Delimiter entry is not the platform path-list separator ":": ' + vstr(val)[:80])
            delims.add((name[1], scope, tuple(sorted(set(gdirs)))))
        else:
            rep.violated('R3', 'insert/%s' % bname, e.where, 'implicit layer path inserted with behaviour %s' % bname)
    # each row inserts one Prepend and one Delimiter entry, under the same directory test
    pairs_ok = per_beh.get('Prepend') == per_beh.get('Delimiter') and set(per_beh) <= {'Prepend', 'Delimiter'} and \
        all(any(d[0] == n and d[1] == sc and dr in d[2] for d in delims) for n, sc, dr in got)
    rep.check(pairs_ok, 'R3', 'insert/pair', where, 'each row inserts one Prepend and one Delimiter entry', 'rows insert %s' % per_beh)
    for n, sc, dr in sorted(got):
        d_ok = any(d[0] == n and d[1] == sc and dr in d[2] for d in delims)
        rep.check(d_ok, 'R2', 'insert/Delimiter/guard/%s/%s' % (n, sc), where, 'the delimiter of %s is set under is_dir(<layer>/%s)' % (n, dr),
                  'the Delimiter entry of %s (%s) is not guarded by Path::is_dir of the row\'s directory' % (n, sc))
    # ---- R1 ----------------------------------------------------------------------------------------
    rep.extra['layer_path_rows'] = sorted(got)
    if not got:
        rep.unproven('R1', 'table', where, 'no implicit layer path insert was recognised: the row table could not be extracted')
    for row in sorted(SPEC if got else ()):
        rep.check(row in got, 'R1', 'row/%s/%s' % (row[0], row[1]), where, '%s for %s from <layer>/%s' % row, 'spec row %s missing' % (row,))
    for row in sorted(got - SPEC):
        rep.violated('R1', 'extra-row/%s/%s' % (row[0], row[1]), where, 'row %s is not in the spec\'s layer path table' % (row,))
    if got:
        rep.check(per_beh.get('Prepend') == 7, 'R1', 'table/size', where, 'exactly 7 rows', '%s Prepend inserts (duplicates or extras)' % per_beh.get('Prepend'))
    # ---- R7: ... and whenever the directory exists -----------------------------------------------------------------
    rep.rule('R7', 'an implicit entry exists whenever its directory does: the is_dir test of its own directory is the only decision it depends on, '
                   'no path skips the insert, the row loop runs to exhaustion; LayerData.env is always a freshly read environment')
    dir_of = {(n, sc): d for n, sc, d in SPEC}
    r7 = {}     # behaviour -> {'guard': [..], 'opaque': [..], 'always': [..], 'exhaustive': [..], 'unknown': [..]}
    tblocks = {}
    named = []
    for e in ins:
        beh, name = strip(e.beh), strip(e.name)
        bname = beh[2] if beh[0] == 'agg' and beh[1] == L.MB else None
        scope = {'layer_paths_build': 'Build', 'layer_paths_launch': 'Launch'}.get(e.fld)
        if bname not in ('Prepend', 'Delimiter') or name[0] != 'const' or (name[1], scope) not in dir_of:
            continue        # reported by R1 / R3
        named.append((e, bname, name[1], scope))
        for c, m in e.levels:
            tblocks.setdefault((c.fn.path, bname), set()).add(c.bb)
    done = set()
    for e, bname, n, sc in named:
        acc = r7.setdefault(bname, {'guard': [], 'opaque': [], 'always': [], 'exhaustive': [], 'unknown': []})
        own = dir_of[(n, sc)]
        for grp in e.groups:
            if not any(H.is_dir_of(v, root, L.comps, weak=True) == own or H.is_layer_dir_test(v, root, L.comps) for v in grp):
                acc['guard'].append('%s (%s) also depends on %s == %s' % (n, sc, vstr(grp[-1][0])[:90], grp[-1][1]))
        if e.opaque:
            acc['opaque'].append('%s (%s)' % (n, sc))
        for i, (c, m) in enumerate(e.levels):
            k = (c.fn.path, c.bb, bname)
            if k in done:
                continue
            done.add(k)
            probs = H.sufficiency(E2, c, m, tblocks[(c.fn.path, bname)], *((root, L.comps) if c.fn.path == g.path else ()))
            if i < len(e.levels) - 1:
                ap = H.adapter_problem(E2, c, m)
                if ap:
                    probs.append(ap)
            for kind, text in probs:
                if text not in acc[kind]:
                    acc[kind].append(text)
    for bname in ('Prepend', 'Delimiter'):
        acc = r7.get(bname)
        if acc is None:
            continue        # no entry of that kind was recognised: R1 / R3 report it
        if acc['guard']:
            rep.violated('R7', 'guard-only/' + bname, where, 'implicit %s entries are missing although their directory exists: %s' % (bname, '; '.join(acc['guard'][:3])))
        elif acc['opaque']:
            rep.unproven('R7', 'guard-only/' + bname, where, 'implicit %s entries pass a filtering / truncating stage whose effect on the rows could not be '
                         'expressed: %s' % (bname, ', '.join(acc['opaque'][:4])))
        else:
            rep.holds('R7', 'guard-only/' + bname, where, 'is_dir(<layer>/<dir>) of the row is the only decision a %s entry depends on' % bname)
        for kind, ok_msg in (('always', 'no path skips the insert once the is_dir test of the row passed'),
                             ('exhaustive', 'the row loop is only left when the rows are exhausted')):
            if acc[kind]:
                rep.violated('R7', '%s/%s' % (kind, bname), where, '; '.join(acc[kind][:3]))
            elif acc['unknown']:
                rep.unproven('R7', '%s/%s' % (kind, bname), where, '; '.join(acc['unknown'][:3]))
            else:
                rep.holds('R7', '%s/%s' % (kind, bname), where, ok_msg)
    # what the trait API hands to a buildpack as "the layer's environment" (LayerData.env) is always the result of
    # read_from_layer_dir on the directory of that very layer: an env that was merely written (or carried over) lacks
    # the implicit entries of directories that exist by now
    from .lib.value import canon
    inits = H.layer_data_inits(prog, sl, L.R_LAYER)
    if not inits:
        rep.unproven('R7', 'layer-data/env', '-', 'no construction of LayerData was found')
    for f_, w_, ev, pv, why in inits:
        top = f_
        while top.kind == 'Closure' and top.parent in prog.fns:
            top = prog.fns[top.parent]
        subj = 'layer-data/env/' + top.path.split('::')[-1]
        if why:
            rep.unproven('R7', subj, w_, 'LayerData %s' % why)
            continue
        evs = strip(ev)
        if not (evs[0] == 'call' and evs[1] == L.R_LAYER):
            # a private wrapper (`read_layer_env(&path)?`) is transparent: the success payload of what it returns
            evs = strip(sl.mk_unwrap(sl.inline_deep(ev, keep=(L.R_LAYER,)), 1))
        from_reader = evs[0] == 'call' and evs[1] == L.R_LAYER and len(evs[2]) == 1
        if not from_reader:
            rep.violated('R7', subj, w_, 'LayerData.env is not the result of read_from_layer_dir: %s — implicit entries of the layer\'s '
                         'directories are missing from it' % vstr(evs)[:120])
            continue
        same = canon(strip(evs[2][0])) == canon(strip(pv)) or \
            canon(strip(sl.inline_deep(evs[2][0], keep=(L.R_LAYER,)))) == canon(strip(sl.inline_deep(pv, keep=(L.R_LAYER,))))
        rep.check(same, 'R7', subj, w_, 'LayerData.env = read_from_layer_dir(LayerData.path)',
                  'LayerData.env is read from %s but LayerData.path is %s' % (vstr(evs[2][0])[:80], vstr(pv)[:80]))
    # ---- R6: the entries inserted above take effect through the Prepend / Delimiter arms of the delta application --
    from . import C04
    rep.rule('R6', 'Prepend / Delimiter arms of the delta application (shared with C04.R5): value [+ delimiter + previous if non-empty], on every path')
    # (the delimiter lookup and "a mutation outside the per-entry dispatch" are not named after an arm: C04's own arm
    # filter drops them, so the selection is made here)
    C04.arm_rules(ctx, _R6Filter(rep), rule='R6', only=None)
    # ---- R4 ----------------------------------------------------------------------------------------
    from . import C04_helpers as H4     # per-Scope evaluation of LayerEnv::apply (independent of how the fold is spelled)
    f, table, why4, _shape = H4.scope_tables(prog)
    for variant in sorted(table):
        if table[variant] is None:
            rep.unproven('R4', 'apply/' + variant, '%s:%d' % (f.file, f.line), 'delta list of Scope::%s not understood: %s' % (variant, why4.get(variant)))
    for variant, seq in table.items():
        if seq is None:
            continue
        for fld, only in (('layer_paths_build', 'Build'), ('layer_paths_launch', 'Launch')):
            if variant == only:
                rep.check(seq.count(fld) == 1 and seq[-1] == fld, 'R4', 'apply/%s/%s' % (variant, fld), '%s:%d' % (f.file, f.line),
                          '%s applied last for Scope::%s' % (fld, variant), 'Scope::%s applies %s' % (variant, seq))
            else:
                rep.check(fld not in seq, 'R4', 'apply/%s/%s' % (variant, fld), '%s:%d' % (f.file, f.line),
                          '%s not applied for Scope::%s' % (fld, variant), 'Scope::%s applies implicit paths of another scope: %s' % (variant, seq))
    # ---- R5 ----------------------------------------------------------------------------------------
    le = prog.adt(L.LE)
    for fld in ('layer_paths_build', 'layer_paths_launch'):
        fd = [x for v in le['variants'] for x in v['fields'] if x['name'] == fld]
        if not fd:
            rep.unproven('R5', 'field/' + fld, '%s:%d' % (le['file'], le['line']), 'field not found')
            continue
        rep.check(fd[0]['vis'] not in ('pub',), 'R5', 'private/' + fld, '%s:%d' % (le['file'], le['line']), 'field is not public',
                  'implicit path field is public: it could be set and persisted by users')
        acc = [(fn, bi, how) for fn, bi, how in field_accesses(prog, fld, L.LE) if not fn.derived]
        writers = sorted({fn.path for fn, bi, how in acc if how in ('write', 'refmut', 'init')})
        readers = sorted({fn.path for fn, bi, how in acc if how in ('read', 'ref', 'arg')})
        rep.check(writers == [L.R_LAYER], 'R5', 'writers/' + fld, where, 'written only by read_from_layer_dir', 'written by %s' % writers)
        # read only by apply and by private helpers that only apply can reach; never by anything the writer can reach
        ap = prog.fns.get(L.APPLY)
        wl_ = prog.fns.get(L.W_LAYER)
        from_apply = set(prog.reach([ap])) if ap else set()
        from_writer = set(prog.reach([wl_])) if wl_ else set()
        callers_ = prog.callers()

        def only_from_apply(path, depth=0):
            if path == L.APPLY:
                return True
            f_ = prog.fns.get(path)
            if f_ is None or depth > 4 or f_.vis == 'pub' or path not in from_apply:
                return False
            parent = f_.parent if f_.kind == 'Closure' else None
            if parent:
                return only_from_apply(parent, depth + 1)
            cs_ = [c for c in callers_.get(path, []) if c.name == path]
            return bool(cs_) and all(only_from_apply(c.fn.path, depth + 1) for c in cs_)
        bad_readers = [r_ for r_ in readers if not only_from_apply(r_) or r_ in from_writer]
        rep.check(bool(readers) and not bad_readers, 'R5', 'readers/' + fld, where,
                  'read only by apply (and private helpers only apply reaches)', 'read by %s (the writer must never see it)' % (bad_readers or readers))
    rep.check(not leaks, 'R5', 'reader/explicit-deltas', where, 'in read_from_layer_dir the explicit (persisted) deltas get entries only from the env directory reader',
              'read_from_layer_dir itself inserts into a delta that write_to_layer_dir persists: %s' %
              '; '.join('%s at %s' % (', '.join(vstr(a)[:40] for a in e.args[:4]), e.where()) for e in leaks[:3]))
    # the writer persists exactly the four explicit scopes
    # (the writer's effects are taken over values in which a Vec grown through `&mut` — vec![..] + extend / push — before
    # it is iterated is the chain of all its rows (C03_helpers.GrowSlicer, exact or opaque, never the initial literal
    # alone): a table of (directory, delta) pairs assembled in steps is unrolled like a literal table)
    from .C03_helpers import GrowSlicer
    wf, wt, wcalls = L.writer_scope_table(prog, GrowSlicer(prog))
    rep.check(sorted(wt) == ['all', 'build', 'launch', 'process[*]'] and all(sc is not None for _, sc, _, _, _ in wcalls), 'R5', 'writer/scopes',
              '%s:%d' % (wf.file, wf.line), 'write_to_layer_dir persists all, build, launch, process only', 'writer persists %s' % sorted(map(str, wt)))
