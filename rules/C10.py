"""C10 — implicit layer paths: from directories, build/launch only, never persisted.

Decided structurally:
  R1 table            the constant rows iterated in read_from_layer_dir = the spec's "Layer Paths" table
                      (7 rows: PATH/LD_LIBRARY_PATH/LIBRARY_PATH/CPATH/PKG_CONFIG_PATH for build,
                      PATH/LD_LIBRARY_PATH for launch, with their sub-directory)
  R2 guard            both inserts of a row are guarded by Path::is_dir (symlink-following) of
                      <layer>/<dir> of the same row
  R3 behaviours       each row inserts Prepend(name, <layer>/<dir>) and Delimiter(name, separator const);
                      Build rows go to layer_paths_build, Launch rows to layer_paths_launch
  R4 scope inclusion  apply uses layer_paths_build only for Scope::Build and layer_paths_launch only for
                      Scope::Launch, after the explicit deltas
  R5 never persisted  the two implicit-path fields are private, written only by read_from_layer_dir and
                      read only by apply (plus derived impls); write_to_layer_dir never touches them
  R6 arms             the Prepend / Delimiter arms of the delta application and the delimiter lookup (shared with C04)
  R7 whenever         "exactly when", the other direction: the is_dir test of its own directory is the *only* decision an
                      implicit entry depends on (guard-only: no extra conjunct, no truncating stage), no path through the
                      row loop / the functions on the way skips the insert once that test passed (always: CFG search per
                      chain level, "not a directory" edges and edges no row of the table can take removed), and the row
                      loop is only left when the rows are exhausted (exhaustive: no break / early success return, no
                      short-circuiting consumer whose closure can say stop);
                      layer-data: every `LayerData` value gets its env from read_from_layer_dir(<its own path>), so what the
                      trait API hands out as the layer's environment always carries the implicit entries
  R5 also             in read_from_layer_dir the explicit deltas receive entries only inside the env directory reader
R1-R3 are stated on *entries* of the two implicit-path deltas, however they get there (C10_helpers): `insert` calls
reached through helpers / closures / unrolled table loops (lib/effects, branch decisions as guards), and the entries the
deltas are constructed with (`LayerEnvDelta { entries: rows.iter().map(..).filter(..).flat_map(..).collect() }` placed in
the returned LayerEnv; the predicates of the filtering stages as guards).  An insert into a delta that a private helper
creates, fills and returns (`layer_paths_build: LayerEnvDelta::from_rows(&[..])`) is an insert into the field the result
of that call is stored in (C10_helpers.returned_into: object identity by creation site, exact — no alternatives); a
helper's loop over a pipeline on its parameter is evaluated row by row on the caller's table.  Boolean closures written
with branches (`a && b`) contribute every decision on the way to `true`; where a joined value hides one, the entry is
opaque (UNPROVEN), never silently accepted.
Spellings that are one and the same obligation (round 4; C10_helpers):
  * the directory test: Path::is_dir(p) = fs::metadata(p).map(|m| m.is_dir()).unwrap_or(false) = .is_ok_and(..) = .map_or(false, ..)
    = `Ok(m) = fs::metadata(p)` .. `m.is_dir()` / `m.file_type().is_dir()` = a private helper returning one of these
    (dir_test_of; fs::symlink_metadata / DirEntry::metadata are *not*), and a boolean assigned on several paths (`let d = match
    fs::metadata(p) { Ok(m) => m.is_dir(), Err(_) => false }`) stands for the decisions that lead to the assignment that can make
    it true (joined_groups) — in the guards of an entry and in the "not a directory" edges of the CFG search alike
  * the row table: nested (`(dir, &[build names], &[launch names])`, inner loops over the slices; a loop over an empty
    slice contributes nothing), loops by dominance (natural_loops: lib/effects merges a nested loop with its outer loop),
    every enclosing loop unrolled on the rows of its literal table
  * the target delta: a field, the payload of what a private helper hands out for the row's scope (target_fields), a
    reference chosen by if / else (joined_alternatives: the decisions around the assignments evaluated on the row), a
    parameter of a local closure that the row loop calls directly (expanded like a private helper); `match` decisions the
    insert runs under are evaluated on the row as well (a call in the Scope::Build arm does not run for a Launch row)
  * R5 writers: a private helper only read_from_layer_dir reaches, which merely takes `&mut self.<field>`, is part of the reader
  * R5 writer/scopes: every file write is attributed to the fields of self its path / content are computed from, private
    helpers looked into (a plan computed from the delta, written later)
Round 5 (C10_helpers, last section):
  * the reader's result: a private non-generic body behind the public signature is transparent (reader_payload)
  * the target delta: `d.insert(a).insert(b)` — a private call that hands back one of its own arguments denotes that argument
    (same_object); a function pointer column of the row table (`("PATH", Self::layer_paths_build_mut, &bin)`, called per row)
    is a call of the accessor it points to (target_fields on the row)
  * values: element projections of literal arrays, `["bin", "lib"].map(|n| layer.join(n))[1]` = layer.join("lib") (resolve_values)
  * R5 readers: `Self { all, build, ..old }` in the reader moves old.<field> into the same field of the new value
    (carried_over_only: a carry-over, not a read; crosswise or into anything else it stays a read)
  * R5 writers: an accessor that is only mentioned as a value (function pointer) inside the reader, which returns no
    function pointer, is part of the reader (value_mentions); any direct caller / mention elsewhere is a foreign writer
Not decided: what is_dir returns for each file-type assignment (kernel / std).
"""
from . import layer_env_common as L
from .lib.guards import conditions
from .lib.paths import strip
from .lib.tables import arm_defs, field_accesses, phi_local_of
from .lib.value import vstr, walk

SPEC = {('PATH', 'Build', 'bin'), ('LD_LIBRARY_PATH', 'Build', 'lib'), ('LIBRARY_PATH', 'Build', 'lib'),
        ('CPATH', 'Build', 'include'), ('PKG_CONFIG_PATH', 'Build', 'pkgconfig'),
        ('PATH', 'Launch', 'bin'), ('LD_LIBRARY_PATH', 'Launch', 'lib')}


class _R6Filter:
    """forwards the instances of C04.arm_rules that concern implicit entries: the Prepend / Delimiter arms, the delimiter
    lookup and mutations of the environment outside the per-entry dispatch"""
    ARMS = ('Prepend', 'Delimiter')

    def __init__(self, rep):
        self._rep = rep

    def _want(self, subject):
        return subject == 'delimiter-lookup' or subject.startswith('unclassified/') or any(subject.endswith('/' + a) for a in self.ARMS)

    def check(self, cond, rule, subject, *a, **k):
        return self._rep.check(cond, rule, subject, *a, **k) if self._want(subject) else cond

    def unproven(self, rule, subject, *a, **k):
        if self._want(subject):
            self._rep.unproven(rule, subject, *a, **k)

    def __getattr__(self, n):
        return getattr(self._rep, n)


def run(ctx, rep):
    prog, sl = ctx.prog, ctx.slicer
    L.resolve_roles(prog, sl)
    rep.rule('R1', '7-row layer path table = spec')
    rep.rule('R2', 'inserts guarded by Path::is_dir of the row\'s directory')
    rep.rule('R3', 'Prepend(name, dir) + Delimiter(name, separator) into the delta of the row\'s scope')
    rep.rule('R4', 'implicit deltas applied only for Build / Launch, after the explicit ones')
    rep.rule('R5', 'implicit-path fields are private, written only by the reader, read only by apply; never written to disk')
    rep.not_decided = ['outcome of is_dir for each file-type assignment (kernel/std)']
    g = prog.fn(L.R_LAYER)
    rep.analysed(g)
    where = '%s:%d' % (g.file, g.line)
    root = L.param_pred(g, 0)
    # Every delta insert that read_from_layer_dir performs, directly or through private helpers, closures and loops
    # over constant tables (unrolled row by row), with its arguments in the function's own terms:
    #   (target delta, behaviour, variable name, value) + the branch decisions it runs under.
    from .lib.effects import Effects, guards_of
    from . import C10_helpers as H
    E2 = H.effects_with_natural_loops(prog, sl, {L.INSERT: ('INSERT', None)})
    ins = []
    leaks = []
    # (the success payload of read_from_layer_dir; a private non-generic body behind the public signature is transparent)
    ok_value, bodies = H.reader_payload(prog, sl, g)
    for e in E2.expand(g, 'may'):
        if e.kind != 'INSERT' or len(e.args) < 4:
            continue
        # the delta the insert acts on: `d.insert(a).insert(b)` (a private insert handing back its receiver) acts on d twice,
        # a call through a known function pointer is a call of the pointee
        eargs = (H.same_object(prog, sl, e.args[0]),) + tuple(e.args[1:])
        tgt = strip(eargs[0])
        fld = tgt[2] if tgt[0] == 'field' and tgt[2] in H.FIELDS else None
        levels = H.level_calls(e)
        if fld is None:
            # the delta a private helper creates, fills and returns, stored in an implicit-path field by the caller
            fld = H.returned_into(prog, sl, g, ok_value, eargs[0], levels, bodies=bodies)
        def outside_env_reader():
            # an insert into a delta that is being read from an env directory, not an implicit path — provided it does
            # happen inside the env directory reader: anything else read_from_layer_dir puts into an explicit delta
            # is written back by write_to_layer_dir (R5)
            through = set()
            for c, _ in levels:
                through.add(c.name)
                f_ = c.fn
                for _i in range(6):
                    through.add(f_.path)
                    f_ = prog.fns.get(f_.parent) if f_.kind == 'Closure' and f_.parent else None
                    if f_ is None:
                        break
            return L.R_DIR not in through
        # `env.implicit_delta_mut(&scope)`: which delta a private helper hands out may depend on the row: resolved per row
        # (... or a function pointer column of the row table selects: `select(&mut env)` with `select` known per row)
        deferred = fld is None and (H.is_helper_result(prog, eargs[0]) or H.is_pointer_call(eargs[0]))
        # `let target = if spec.launch { &mut env.layer_paths_launch } else { &mut env.layer_paths_build }`: which assignment
        # reaches the insert is decided by the branch decisions around the assignments, evaluated on the row
        alts_ = H.joined_alternatives(E2, e.call, 0, e.mapping) if fld is None and not deferred and tgt[0] == 'phi' else None
        deferred = deferred or bool(alts_)
        if fld is None and not deferred and not any(x[0] == 'field' and x[2] in H.FIELDS for x in walk(eargs[0])):
            if outside_env_reader():
                leaks.append(e)
            continue
        gl = H.guards_with_mapping(E2, e)
        if any(H.dead_guard(cd, subj) for cd, vs, subj, m_ in gl):
            continue        # the body of a loop over an empty literal (`for name in &[]`, a row without entries of that kind)
        # (a directory test spelled through fs::metadata / a private helper is the decision Path::is_dir(p) makes: its
        # normal form is added as another spelling of the same decision)
        # ... and a test of a boolean that was assigned on several paths (`let d = match fs::metadata(p) { Ok(m) => m.is_dir(),
        # Err(_) => false }`) stands for the decisions that lead to the assignment that can make it true
        conds = []
        for cd, vs, subj, m_ in gl:
            if cd.kind == 'bool':
                jg = H.joined_groups(E2, cd, m_)
                conds.extend(jg if jg else [H.dir_views(sl, vs)])
        views = [x for vs in conds for x in vs]
        gidx = [i for i, vs in enumerate(conds) for _ in vs]
        # a pipeline in the header of a loop that lib/effects unrolled (`for row in rows.into_iter().filter(p)`): the
        # predicates of its stages for this row are decisions the entry depends on, like an `if` in the body
        hviews, hopq = H.header_guards(E2, e)
        # a loop over a table that is literal only in the caller's terms (the rows handed to a private helper as a
        # slice) is unrolled here, row by row, like lib/effects does for a loop over a table literal of its own function
        # (the `match` decisions the insert runs under travel with the boolean ones, so that a call in the `Scope::Build` arm
        # is not taken to run for a row whose scope is Scope::Launch)
        pviews = H.variant_views(gl)
        aviews = [c_ for _, cs_ in (alts_ or ()) for c_ in cs_]
        for a, vs2, opq in H.unrolled(E2, e, tuple(eargs[:4]) + tuple(v_ for v_, _ in (alts_ or ())), views + pviews + aviews):
            # element projections of literal arrays (`let [bin, lib] = ["bin", "lib"].map(|n| layer.join(n))`) are the elements
            a = tuple(H.resolve_values(sl, x_) for x_ in a)
            vs2 = [(H.resolve_values(sl, v_), oc_) for v_, oc_ in vs2]
            if H.dead_row(prog, sl, vs2[len(views):len(views) + len(pviews)]):
                continue
            avs = vs2[len(views) + len(pviews):len(views) + len(pviews) + len(aviews)]
            vs2 = vs2[:len(views)] + vs2[len(views) + len(pviews) + len(aviews):]
            if deferred:
                tv = a[0]
                if alts_:
                    live, pos = [], 0
                    for k, (_, cs_) in enumerate(alts_):
                        if H.alt_feasible(prog, sl, avs[pos:pos + len(cs_)]):
                            live.append(a[4 + k])
                        pos += len(cs_)
                    if len(live) == 1:
                        tv = live[0]
                tf = H.target_fields(prog, sl, H.same_object(prog, sl, tv))
                if tf is None or not (tf & set(H.FIELDS)):
                    if outside_env_reader() and e not in leaks:
                        leaks.append(e)
                    continue
                if len(tf) > 1:
                    rep.unproven('R3', 'insert/target', e.where(), 'which delta the insert goes to could not be decided: ' + vstr(a[0])[:100])
                    continue
                fld = next(iter(tf))
            groups = [[] for _ in conds]
            for i, gi in enumerate(gidx):
                groups[gi].append(vs2[i])
            extra = [x for x in vs2[len(gidx):]] + [x for x in hviews if x not in vs2]
            groups.extend(H.groups_of(extra))
            ins.append(H.Entry(fld, a[0], a[1], a[2], a[3], list(vs2) + [x for x in hviews if x not in vs2], e.where(), 'insert', opq or hopq,
                               groups=[g_ for g_ in groups if g_], levels=levels))
    # ... and every entry the two implicit-path deltas are *constructed* with (`LayerEnvDelta { entries: rows.iter()
    # .map(..).filter(..).flat_map(..).collect() }` placed into the returned LayerEnv, directly or through a local closure /
    # private helper): the same records, the predicates of the filtering stages taking the place of the branch decisions.
    built, opaque = H.constructed(prog, sl, g)
    ins.extend(built)
    for fld, v in opaque:
        rep.unproven('R3', 'initial/%s' % fld, where, 'the content %s is constructed with could not be enumerated: %s' % (fld, vstr(v)[:100]))
    rep.floor('R3', 'insert_sites', len(ins))
    got = set()
    delims = set()
    delim_entries = []
    per_beh = {}
    for e in ins:
        fld = e.fld
        beh, name, val = strip(e.beh), strip(e.name), strip(e.val)
        bname = beh[2] if beh[0] == 'agg' and beh[1] == L.MB else vstr(beh)[:40]
        scope = {'layer_paths_build': 'Build', 'layer_paths_launch': 'Launch'}.get(fld)
        rep.check(scope is not None, 'R3', 'insert/%s/target' % bname, e.where, 'Build rows -> layer_paths_build, Launch rows -> layer_paths_launch',
                  'implicit path inserted into %s' % vstr(e.target)[:80])
        if name[0] != 'const' or not isinstance(name[1], str):
            rep.unproven('R3', 'insert/%s/name' % bname, e.where, 'variable name is not a constant of a row table: ' + vstr(name)[:100])
            continue
        per_beh[bname] = per_beh.get(bname, 0) + 1
        # the row's directory: from the value (Prepend) and from the is_dir test the entry exists under (both behaviours)
        gdirs = []
        for v, oc in e.views:
            if v[0] == 'call' and v[1] == 'std::path::Path::is_dir' and oc is True:
                cs = L.comps(v[2][0], root)
                if cs is not None and len(cs) == 1:
                    gdirs.append(cs[0])
        if bname == 'Prepend':
            cs = L.comps(val, root)
            ok_v = cs is not None and len(cs) == 1 and isinstance(cs[0], str)
            rep.check(ok_v, 'R3', 'insert/Prepend/value', e.where, 'Prepend(name, <layer>/<dir>)', 'Prepend entry value is not a directory of the layer: ' + vstr(val)[:100])
            if ok_v:
                got.add((name[1], scope, cs[0]))
                if cs[0] not in gdirs and (e.opaque or any(H.mentions_dir_test(v, root, L.comps, cs[0]) for v, _ in e.views)):
                    # (a decision that is computed from a symlink-following stat of the row's own directory but is not one of
                    # the spellings C10_helpers.dir_test_of knows is undecided, not wrong)
                    rep.unproven('R2', 'insert/Prepend/guard', e.where, 'implicit Prepend entry %s=<layer>/%s passes a filter / test whose predicate could '
                                 'not be expressed; no Path::is_dir test of that directory was recognised (guards: %s)' % (name[1], cs[0], gdirs))
                else:
                    rep.check(cs[0] in gdirs, 'R2', 'insert/Prepend/guard', e.where, 'guarded by is_dir(<layer>/%s) == true' % cs[0],
                              'implicit Prepend entry %s=<layer>/%s is not guarded by Path::is_dir of that directory (guards: %s)' % (name[1], cs[0], gdirs))
        elif bname == 'Delimiter':
            rep.check(val == ('const', ':'), 'R3', 'insert/Delimiter/value', e.where, 'Delimiter(name, ":")',
                      'Delimiter entry is not the platform path-list separator ":": ' + vstr(val)[:80])
            delims.add((name[1], scope, tuple(sorted(set(gdirs)))))
            delim_entries.append((name[1], scope, e))
        else:
            rep.violated('R3', 'insert/%s' % bname, e.where, 'implicit layer path inserted with behaviour %s' % bname)
    # each row inserts one Prepend and one Delimiter entry, under the same directory test
    pairs_ok = per_beh.get('Prepend') == per_beh.get('Delimiter') and set(per_beh) <= {'Prepend', 'Delimiter'} and \
        all(any(d[0] == n and d[1] == sc and dr in d[2] for d in delims) for n, sc, dr in got)
    rep.check(pairs_ok, 'R3', 'insert/pair', where, 'each row inserts one Prepend and one Delimiter entry', 'rows insert %s' % per_beh)
    for n, sc, dr in sorted(got):
        d_ok = any(d[0] == n and d[1] == sc and dr in d[2] for d in delims)
        if not d_ok and any(n_ == n and sc_ == sc and (e.opaque or any(H.mentions_dir_test(v, root, L.comps, dr) for v, _ in e.views))
                            for n_, sc_, e in delim_entries):
            rep.unproven('R2', 'insert/Delimiter/guard/%s/%s' % (n, sc), where, 'the Delimiter entry of %s (%s) depends on a test of <layer>/%s that could not '
                         'be expressed as Path::is_dir of that directory' % (n, sc, dr))
            continue
        rep.check(d_ok, 'R2', 'insert/Delimiter/guard/%s/%s' % (n, sc), where, 'the delimiter of %s is set under is_dir(<layer>/%s)' % (n, dr),
                  'the Delimiter entry of %s (%s) is not guarded by Path::is_dir of the row\'s directory' % (n, sc))
    # ---- R1 ----------------------------------------------------------------------------------------
    rep.extra['layer_path_rows'] = sorted(got)
    if not got:
        rep.unproven('R1', 'table', where, 'no implicit layer path insert was recognised: the row table could not be extracted')
    for row in sorted(SPEC if got else ()):
        rep.check(row in got, 'R1', 'row/%s/%s' % (row[0], row[1]), where, '%s for %s from <layer>/%s' % row, 'spec row %s missing' % (row,))
    for row in sorted(got - SPEC):
        rep.violated('R1', 'extra-row/%s/%s' % (row[0], row[1]), where, 'row %s is not in the spec\'s layer path table' % (row,))
    if got:
        rep.check(per_beh.get('Prepend') == 7, 'R1', 'table/size', where, 'exactly 7 rows', '%s Prepend inserts (duplicates or extras)' % per_beh.get('Prepend'))
    # ---- R7: ... and whenever the directory exists -----------------------------------------------------------------
    rep.rule('R7', 'an implicit entry exists whenever its directory does: the is_dir test of its own directory is the only decision it depends on, '
                   'no path skips the insert, the row loop runs to exhaustion; LayerData.env is always a freshly read environment')
    dir_of = {(n, sc): d for n, sc, d in SPEC}
    r7 = {}     # behaviour -> {'guard': [..], 'opaque': [..], 'always': [..], 'exhaustive': [..], 'unknown': [..]}
    tblocks = {}
    named = []
    for e in ins:
        beh, name = strip(e.beh), strip(e.name)
        bname = beh[2] if beh[0] == 'agg' and beh[1] == L.MB else None
        scope = {'layer_paths_build': 'Build', 'layer_paths_launch': 'Launch'}.get(e.fld)
        if bname not in ('Prepend', 'Delimiter') or name[0] != 'const' or (name[1], scope) not in dir_of:
            continue        # reported by R1 / R3
        named.append((e, bname, name[1], scope))
        for c, m in e.levels:
            tblocks.setdefault((c.fn.path, bname), set()).add(c.bb)
    done = set()
    for e, bname, n, sc in named:
        acc = r7.setdefault(bname, {'guard': [], 'opaque': [], 'always': [], 'exhaustive': [], 'unknown': []})
        own = dir_of[(n, sc)]
        for grp in e.groups:
            if not any(H.is_dir_of(v, root, L.comps, weak=True) == own or H.is_layer_dir_test(v, root, L.comps) for v in grp):
                if any(H.mentions_dir_test(v[0], root, L.comps, own) for v in grp) and not any(H.mentions_no_follow(v[0]) for v in grp):
                    # computed from a symlink-following stat of the row's own directory, in a spelling that is not
                    # recognised as *the* directory test: undecided
                    acc['opaque'].append('%s (%s): %s' % (n, sc, vstr(grp[-1][0])[:90]))
                    continue
                acc['guard'].append('%s (%s) also depends on %s == %s' % (n, sc, vstr(grp[-1][0])[:90], grp[-1][1]))
        if e.opaque:
            acc['opaque'].append('%s (%s)' % (n, sc))
        for i, (c, m) in enumerate(e.levels):
            k = (c.fn.path, c.bb, bname)
            if k in done:
                continue
            done.add(k)
            probs = H.sufficiency(E2, c, m, tblocks[(c.fn.path, bname)], *((root, L.comps) if c.fn.path == g.path else ()))
            if i < len(e.levels) - 1:
                ap = H.adapter_problem(E2, c, m)
                if ap:
                    probs.append(ap)
            for kind, text in probs:
                if text not in acc[kind]:
                    acc[kind].append(text)
    for bname in ('Prepend', 'Delimiter'):
        acc = r7.get(bname)
        if acc is None:
            continue        # no entry of that kind was recognised: R1 / R3 report it
        if acc['guard']:
            rep.violated('R7', 'guard-only/' + bname, where, 'implicit %s entries are missing although their directory exists: %s' % (bname, '; '.join(acc['guard'][:3])))
        elif acc['opaque']:
            rep.unproven('R7', 'guard-only/' + bname, where, 'implicit %s entries pass a filtering / truncating stage whose effect on the rows could not be '
                         'expressed: %s' % (bname, ', '.join(acc['opaque'][:4])))
        else:
            rep.holds('R7', 'guard-only/' + bname, where, 'is_dir(<layer>/<dir>) of the row is the only decision a %s entry depends on' % bname)
        for kind, ok_msg in (('always', 'no path skips the insert once the is_dir test of the row passed'),
                             ('exhaustive', 'the row loop is only left when the rows are exhausted')):
            if acc[kind]:
                rep.violated('R7', '%s/%s' % (kind, bname), where, '; '.join(acc[kind][:3]))
            elif acc['unknown']:
                rep.unproven('R7', '%s/%s' % (kind, bname), where, '; '.join(acc['unknown'][:3]))
            else:
                rep.holds('R7', '%s/%s' % (kind, bname), where, ok_msg)
    # what the trait API hands to a buildpack as "the layer's environment" (LayerData.env) is always the result of
    # read_from_layer_dir on the directory of that very layer: an env that was merely written (or carried over) lacks
    # the implicit entries of directories that exist by now
    from .lib.value import canon
    inits = H.layer_data_inits(prog, sl, L.R_LAYER)
    if not inits:
        rep.unproven('R7', 'layer-data/env', '-', 'no construction of LayerData was found')
    for f_, w_, ev, pv, why in inits:
        top = f_
        while top.kind == 'Closure' and top.parent in prog.fns:
            top = prog.fns[top.parent]
        subj = 'layer-data/env/' + top.path.split('::')[-1]
        if why:
            rep.unproven('R7', subj, w_, 'LayerData %s' % why)
            continue
        evs = strip(ev)
        if not (evs[0] == 'call' and evs[1] == L.R_LAYER):
            # a private wrapper (`read_layer_env(&path)?`) is transparent: the success payload of what it returns
            evs = strip(sl.mk_unwrap(sl.inline_deep(ev, keep=(L.R_LAYER,)), 1))
        from_reader = evs[0] == 'call' and evs[1] == L.R_LAYER and len(evs[2]) == 1
        if not from_reader:
            rep.violated('R7', subj, w_, 'LayerData.env is not the result of read_from_layer_dir: %s — implicit entries of the layer\'s '
                         'directories are missing from it' % vstr(evs)[:120])
            continue
        same = canon(strip(evs[2][0])) == canon(strip(pv)) or \
            canon(strip(sl.inline_deep(evs[2][0], keep=(L.R_LAYER,)))) == canon(strip(sl.inline_deep(pv, keep=(L.R_LAYER,))))
        rep.check(same, 'R7', subj, w_, 'LayerData.env = read_from_layer_dir(LayerData.path)',
                  'LayerData.env is read from %s but LayerData.path is %s' % (vstr(evs[2][0])[:80], vstr(pv)[:80]))
    # ---- R6: the entries inserted above take effect through the Prepend / Delimiter arms of the delta application --
    from . import C04
    rep.rule('R6', 'Prepend / Delimiter arms of the delta application (shared with C04.R5): value [+ delimiter + previous if non-empty], on every path')
    # (the delimiter lookup and "a mutation outside the per-entry dispatch" are not named after an arm: C04's own arm
    # filter drops them, so the selection is made here)
    C04.arm_rules(ctx, _R6Filter(rep), rule='R6', only=None)
    # ---- R4 ----------------------------------------------------------------------------------------
    from . import C04_helpers as H4     # per-Scope evaluation of LayerEnv::apply (independent of how the fold is spelled)
    f, table, why4, _shape = H4.scope_tables(prog)
    for variant in sorted(table):
        if table[variant] is None:
            rep.unproven('R4', 'apply/' + variant, '%s:%d' % (f.file, f.line), 'delta list of Scope::%s not understood: %s' % (variant, why4.get(variant)))
    for variant, seq in table.items():
        if seq is None:
            continue
        for fld, only in (('layer_paths_build', 'Build'), ('layer_paths_launch', 'Launch')):
            if variant == only:
                rep.check(seq.count(fld) == 1 and seq[-1] == fld, 'R4', 'apply/%s/%s' % (variant, fld), '%s:%d' % (f.file, f.line),
                          '%s applied last for Scope::%s' % (fld, variant), 'Scope::%s applies %s' % (variant, seq))
            else:
                rep.check(fld not in seq, 'R4', 'apply/%s/%s' % (variant, fld), '%s:%d' % (f.file, f.line),
                          '%s not applied for Scope::%s' % (fld, variant), 'Scope::%s applies implicit paths of another scope: %s' % (variant, seq))
    # ---- R5 ----------------------------------------------------------------------------------------
    le = prog.adt(L.LE)
    for fld in ('layer_paths_build', 'layer_paths_launch'):
        fd = [x for v in le['variants'] for x in v['fields'] if x['name'] == fld]
        if not fd:
            rep.unproven('R5', 'field/' + fld, '%s:%d' % (le['file'], le['line']), 'field not found')
            continue
        rep.check(fd[0]['vis'] not in ('pub',), 'R5', 'private/' + fld, '%s:%d' % (le['file'], le['line']), 'field is not public',
                  'implicit path field is public: it could be set and persisted by users')
        acc = [(fn, bi, how) for fn, bi, how in field_accesses(prog, fld, L.LE) if not fn.derived]
        writers = sorted({fn.path for fn, bi, how in acc if how in ('write', 'refmut', 'init')})
        readers = sorted({fn.path for fn, bi, how in acc if how in ('read', 'ref', 'arg')})
        # (a private helper that only read_from_layer_dir reaches and that merely hands out a reference to the field —
        # `fn implicit_delta_mut(&mut self, scope) -> Option<&mut LayerEnvDelta>` — is part of the reader: what is inserted
        # through that reference is an effect of read_from_layer_dir and goes through R1-R3 like any other insert)
        rd_ = prog.fns.get(L.R_LAYER)
        from_reader = set(prog.reach([rd_])) if rd_ else set()
        callers_w = prog.callers()

        def only_from_reader(path, depth=0):
            if path == L.R_LAYER:
                return True
            f_ = prog.fns.get(path)
            if f_ is None or depth > 4 or f_.vis == 'pub':
                return False
            if f_.kind == 'Closure' and f_.parent:
                return path in from_reader and only_from_reader(f_.parent, depth + 1)
            cs_ = [c for c in callers_w.get(path, []) if c.name == path]
            # ... or is selected through a function pointer (`("PATH", Self::layer_paths_build_mut, &bin)`: a column of the row
            # table): every function that mentions it as a value is part of the reader and keeps the pointer to itself
            # (nothing it returns is or contains a function pointer)
            ms_ = H.value_mentions(prog, path)
            if not (path in from_reader or ms_) or not (cs_ or ms_):
                return False
            for m_ in ms_:
                fm_ = prog.fns.get(m_)
                if fm_ is None or 'fn(' in str(fm_.ret) or not only_from_reader(m_, depth + 1):
                    return False
            return all(only_from_reader(c.fn.path, depth + 1) for c in cs_)
        hands_out = {fn.path for fn, bi, how in acc if how == 'refmut'} - {fn.path for fn, bi, how in acc if how in ('write', 'init')}
        foreign = [w_ for w_ in writers if w_ != L.R_LAYER and not (w_ in hands_out and only_from_reader(w_))]
        rep.check(bool(writers) and not foreign, 'R5', 'writers/' + fld, where, 'written only by read_from_layer_dir',
                  'written by %s' % (foreign or writers))
        # read only by apply and by private helpers that only apply can reach; never by anything the writer can reach
        ap = prog.fns.get(L.APPLY)
        wl_ = prog.fns.get(L.W_LAYER)
        from_apply = set(prog.reach([ap])) if ap else set()
        from_writer = set(prog.reach([wl_])) if wl_ else set()
        callers_ = prog.callers()

        def only_from_apply(path, depth=0):
            if path == L.APPLY:
                return True
            f_ = prog.fns.get(path)
            if f_ is None or depth > 4 or f_.vis == 'pub' or path not in from_apply:
                return False
            parent = f_.parent if f_.kind == 'Closure' else None
            if parent:
                return only_from_apply(parent, depth + 1)
            cs_ = [c for c in callers_.get(path, []) if c.name == path]
            return bool(cs_) and all(only_from_apply(c.fn.path, depth + 1) for c in cs_)
        # (`Ok(Self { all, build, ..result_layer_env })` in the reader: a functional update moves the field of the old value into
        # the same field of the new one — the content is carried over, not looked at; such a function is a writer ('init'))
        carried = {r_ for r_ in readers if r_ not in from_writer and only_from_reader(r_) and r_ in writers
                   and H.carried_over_only(prog, prog.fns[r_], fld, L.LE)}
        readers = [r_ for r_ in readers if r_ not in carried]
        bad_readers = [r_ for r_ in readers if not only_from_apply(r_) or r_ in from_writer]
        rep.check(bool(readers) and not bad_readers, 'R5', 'readers/' + fld, where,
                  'read only by apply (and private helpers only apply reaches)', 'read by %s (the writer must never see it)' % (bad_readers or readers))
    rep.check(not leaks, 'R5', 'reader/explicit-deltas', where, 'in read_from_layer_dir the explicit (persisted) deltas get entries only from the env directory reader',
              'read_from_layer_dir itself inserts into a delta that write_to_layer_dir persists: %s' %
              '; '.join('%s at %s' % (', '.join(vstr(a)[:40] for a in e.args[:4]), e.where()) for e in leaks[:3]))
    # the writer persists exactly the four explicit scopes
    # (the writer's effects are taken over values in which a Vec grown through `&mut` — vec![..] + extend / push — before
    # it is iterated is the chain of all its rows (C03_helpers.GrowSlicer, exact or opaque, never the initial literal
    # alone): a table of (directory, delta) pairs assembled in steps is unrolled like a literal table)
    from .C03_helpers import GrowSlicer
    gs = GrowSlicer(prog)
    wf, wt, wcalls = L.writer_scope_table(prog, gs)
    # (every file write is attributed to the fields of self its path / content are computed from, private helpers looked
    # into: a writer that ranges over a plan computed from the delta instead of over `.entries` itself persists that delta)
    wt, loose = H.writer_scopes(prog, gs, wf, wt, wcalls, L.LE)
    rep.check(sorted(wt) == ['all', 'build', 'launch', 'process[*]'] and not loose, 'R5', 'writer/scopes',
              '%s:%d' % (wf.file, wf.line), 'write_to_layer_dir persists all, build, launch, process only', 'writer persists %s' % sorted(map(str, wt)))
