"""Role discovery for the private helpers of libcnb's layer handling.

Rules anchor on *public* items (BuildContext::{cached_layer, uncached_layer, handle_layer}, LayerRef::write_*,
LayerEnv::*).  The private helpers between them and std are found through the call graph and by what they do, so
renaming or moving them does not disturb the rules.  Every role falls back to today's name when discovery is
ambiguous; a role that cannot be found at all is left as None and the rule using it reports UNPROVEN.
"""
from .lib.effects import Effects, vocab_lookup
from .lib.paths import strip
from .lib.value import walk

DEFAULTS = {
    'STRUCT_HL': 'libcnb::layer::struct_api::handling::handle_layer',
    'TRAIT_HL': 'libcnb::layer::trait_api::handling::handle_layer',
    'TRAIT_WL': 'libcnb::layer::trait_api::handling::write_layer',
    'TRAIT_RL': 'libcnb::layer::trait_api::handling::read_layer',
    'SHARED_WL': 'libcnb::layer::shared::write_layer',
    'DELETE': 'libcnb::layer::shared::delete_layer',
    'REMOVER': 'libcnb::util::remove_dir_recursively',
    'REPLACE_SBOMS': 'libcnb::layer::shared::replace_layer_sboms',
    'REPLACE_EXECD': 'libcnb::layer::shared::replace_layer_exec_d_programs',
    'SBOM_PATH': 'libcnb::sbom::cnb_sbom_path',
    'NOT_FOUND_HELPER': 'libcnb::util::default_on_not_found',
    'NOT_FOUND_PRED': 'libcnb::util::is_not_found_error_kind',
}
CL = r'^libcnb::build::BuildContext::<B>::cached_layer$'
TH = r'^libcnb::build::BuildContext::<B>::handle_layer$'
WS = r'^libcnb::layer::struct_api::LayerRef::<B, MAC, RAC>::write_sboms$'
WX = r'^libcnb::layer::struct_api::LayerRef::<B, MAC, RAC>::write_exec_d_programs$'
_cache = {}


def _only(prog, names):
    names = [n for n in names if n in prog.fns]
    return names[0] if len(set(names)) == 1 else None


def roles(prog, sl):
    if id(prog) in _cache:
        return _cache[id(prog)]
    R = dict(DEFAULTS)
    lib = lambda n: n in prog.fns and prog.fns[n].crate == 'libcnb'
    # entry -> handling functions (the single libcnb callee of the public wrappers)
    for key, rx in (('STRUCT_HL', CL), ('TRAIT_HL', TH)):
        fs = prog.find(rx)
        if len(fs) == 1:
            n = _only(prog, [c.name for c in fs[0].calls if lib(c.name) and prog.fns[c.name].path != fs[0].path and len(c.args) >= 3])
            if n:
                R[key] = n
    # LayerRef::write_sboms / write_exec_d_programs forward to the shared replace routines
    for key, rx in (('REPLACE_SBOMS', WS), ('REPLACE_EXECD', WX)):
        fs = prog.find(rx)
        if len(fs) == 1:
            n = _only(prog, [c.name for c in fs[0].calls if lib(c.name) and len(c.args) == 3])
            if n:
                R[key] = n
    th = prog.fns.get(R['TRAIT_HL'])
    if th is not None:
        reach = [f for f in prog.reach([th]).values() if f.crate == 'libcnb' and f.kind != 'Closure']
        # writer: the function that calls both replace routines; reader: returns Option<LayerData<..>>
        wl = [f.path for f in reach if {R['REPLACE_SBOMS'], R['REPLACE_EXECD']} <= {c.name for c in f.calls}]
        if len(wl) == 1:
            R['TRAIT_WL'] = wl[0]
        rl = [f.path for f in reach if 'std::option::Option<libcnb::layer::trait_api::LayerData<' in f.ret and f.path != R['TRAIT_HL']
              and not any(c.name in (R['TRAIT_WL'],) for c in f.calls)]
        rl = [p for p in rl if any(c.name == p for c in th.calls)]
        if len(set(rl)) == 1:
            R['TRAIT_RL'] = rl[0]
        w = prog.fns.get(R['TRAIT_WL'])
        if w is not None:
            n = _only(prog, [c.name for c in w.calls if lib(c.name) and len(c.args) == 3 and c.name not in (R['REPLACE_SBOMS'], R['REPLACE_EXECD'])])
            if n:
                R['SHARED_WL'] = n
    # delete routine: libcnb function reachable from both handlers whose own body removes a `<name>.toml` file
    sh = prog.fns.get(R['STRUCT_HL'])
    if sh is not None and th is not None:
        both = set(prog.reach([sh])) & set(prog.reach([th]))
        cands = []
        for p in both:
            f = prog.fns[p]
            if f.crate != 'libcnb' or f.kind == 'Closure':
                continue
            rm = [c for c in f.calls if c.is_('std::fs::remove_file')]
            if any(any(x[0] == 'fmt' and '.toml' in [y for y in x[1] if isinstance(y, str)] for x in walk(sl.operand(f, c.args[0]))) for c in rm):
                cands.append(p)
        if len(cands) > 1:
            # the shared reader also drops a stale `<name>.toml`; the delete routine is the one returning no value
            cands = [p for p in cands if prog.fns[p].ret.startswith('std::result::Result<(), ')]
        if len(cands) == 1:
            R['DELETE'] = cands[0]
    dl = prog.fns.get(R['DELETE'])
    if dl is not None:
        rem = [f.path for f in prog.reach([dl]).values() if f.crate == 'libcnb' and any((vocab_lookup(c) or ('',))[0] == 'CHMOD' for c in f.calls)]
        if len(rem) == 1:
            R['REMOVER'] = rem[0]
        # the best-effort helper: the libcnb function that receives the Result of a removal call by value
        helpers = []
        for c in dl.calls:
            if lib(c.name) and len(c.args) == 1 and (c.dty or '').startswith('std::result::Result<') and c.name != R['REMOVER']:
                av = strip(sl.operand(dl, c.args[0]))
                if av[0] == 'call' and (av[1] in (R['REMOVER'], 'std::fs::remove_file', 'std::fs::remove_dir_all', 'std::fs::remove_dir')):
                    helpers.append(c.name)
        n = _only(prog, helpers)
        if n:
            R['NOT_FOUND_HELPER'] = n
            h = prog.fns[n]
            preds = [c.name for c in h.calls if lib(c.name) and (c.dty or '') == 'bool']
            n2 = _only(prog, preds)
            if n2:
                R['NOT_FOUND_PRED'] = n2
    # SBOM path constructor: the libcnb function returning join(base, "<name>.sbom.<suffix>")
    cands = []
    for f in prog.fns.values():
        if f.crate == 'libcnb' and f.kind != 'Closure' and f.ret == 'std::path::PathBuf' and f.argc == 3:
            v = strip(sl.local(f, 0))
            if v[0] == 'call' and v[1] in ('std::path::Path::join', 'std::path::PathBuf::join') and \
                    any(x[0] == 'fmt' and '.sbom.' in [y for y in x[1] if isinstance(y, str)] for x in walk(v)):
                cands.append(f.path)
    if len(cands) == 1:
        R['SBOM_PATH'] = cands[0]
    for k, v in list(R.items()):
        if v not in prog.fns:
            R[k] = None
    _cache[id(prog)] = R
    return R
