"""Helpers of C02: an effect enumerator that understands two ways in which a `Vec` local carries work from one place
of a function to another, so that the obligations of C02 (what must be removed / written, where every env scope is
persisted) are stated on *what happens to which path* and not on one spelling of the loops.

  VecEffects(prog, sl)   drop-in replacement of lib.effects.Effects with

    grown collections    `let mut rows = vec![a, b]; rows.push(c); rows.extend(xs.iter().map(f)); for r in rows { body }`
                         runs `body` for a, b, c and f(x) for every x of xs: the loop's collection is the initial value
                         followed by everything appended to that local before the loop (lib.value ignores `&mut` growth
                         of a Vec, so the plain enumerator only sees a and b).

    drained work-lists   `let mut todo = Vec::new(); if c { todo.push(x) } while let Some(t) = todo.last_mut() { ..
                         todo.push(y) .. if let Some(d) = todo.pop() { remove(d)? } }`: the function can only succeed
                         with `todo` empty, elements leave it only through `pop`, and every popped element is handed
                         to an effect that must succeed before the loop continues.  Hence on every success path that
                         pushed x the effect has happened on x (explicit-stack form of a recursive traversal).  The
                         derived MUST effect is combined with what happened on the paths that did *not* push (per
                         outcome of the helper whose result decides the push), exactly like lib.effects combines the
                         alternatives of several success sites ("unlink the symlink | empty and rmdir" agree on
                         REMOVE(path)).

  writer_scope_table(prog, sl)   layer_env_common.writer_scope_table on VecEffects.
"""
from .lib import iters
from .lib.effects import Effects, Eff, Link, Outcome, eff_key, outcomes, vocab_lookup
from .lib.guards import conditions
from .lib.mir import op_place
from .lib.paths import strip

PUSH_ONE = ('std::vec::Vec::<T, A>::push', 'std::collections::VecDeque::<T, A>::push_back')
PUSH_MANY = ('std::iter::Extend::extend', 'std::vec::Vec::<T, A>::extend_from_slice', 'std::vec::Vec::<T, A>::append')
FRESH = ('::new', '::with_capacity', '::default')


def _deref_only(pl):
    return pl is not None and all(x == '*' for x in pl[1:])


def _mut_ref_targets(fn):
    """{ref local: local it mutably borrows} for `_r = &mut _l` statements"""
    refs = {}
    for b in fn.blocks:
        for st in b['s']:
            if st[0] == '=' and len(st[1]) == 1 and st[2]['r'] == 'ref' and st[2].get('mut') and _deref_only(st[2]['p']):
                refs[st[1][0]] = st[2]['p'][0]
    return refs


def _is(c, names):
    return not c.indirect and (c.decl in names or c.res in names)


class VecEffects(Effects):
    # equivalent std APIs of vocabulary entries: `DirBuilder::new().recursive(true).create(p)` is `create_dir_all(p)`
    MORE_VOCAB = {'std::fs::DirBuilder::create': ('MKDIR', 1)}

    def __init__(self, prog, slicer, vocab=None, max_depth=10):
        Effects.__init__(self, prog, slicer, dict(self.MORE_VOCAB, **(vocab or {})), max_depth)
        self._grown = {}
        self._drained = {}
        self._psw, self._specs, self._pc, self._spec_stack = {}, {}, {}, []
        self._only_called_memo = {}

    # ---- call-site specialisation --------------------------------------------------------------------------------
    # A private function that takes a switch (`existing: Option<&LayerData>`, `mode: Mode`) and is called with a literal
    # behaves, at that call site, like the function with the untaken arms removed.  lib.effects prunes such arms only in
    # 'may' mode (Effects.feasible); here the *certain* effects, the success sites and the merged (`phi`) values of a
    # function are also read on the control-flow graph without the edges its arguments rule out, so that
    # "create runs, after the directory was made" holds for `handle(.., None)` exactly as it does for `handle_create(..)`.
    def _param_switches(self, fn):
        """[(switch block, subject value, enum, {target block: variant names})] of the variant switches of fn whose
        subject is computed from a parameter of fn"""
        if fn.path not in self._psw:
            from .lib.guards import _discr_info
            from .lib.value import walk
            res = []
            if fn.argc:
                for sb, blk in enumerate(fn.blocks):
                    t = blk['t']
                    if t['t'] != 'switch':
                        continue
                    di = _discr_info(fn, sb, t['o'])
                    if not di:
                        continue
                    place, vmap, enum = di
                    subj = self.slicer.place(fn, place)
                    if not any(x[0] in ('param', 'upvar') for x in walk(subj)):
                        continue
                    listed = [v for v, _ in t['targets']]
                    by_t = {}
                    for v, tb in t['targets']:
                        by_t.setdefault(tb, set()).add(vmap.get(v, str(v)))
                    by_t.setdefault(t['else'], set()).update(n for v, n in vmap.items() if v not in listed)
                    res.append((sb, subj, enum, by_t))
            self._psw[fn.path] = res
        return self._psw[fn.path]

    def spec(self, fn, mapping):
        """(dead blocks, dead edges) of fn when called with the arguments in `mapping`, or None when nothing is ruled out"""
        sw = self._param_switches(fn)
        if not sw or not mapping:
            return None
        dead_edges = set()
        for sb, subj, enum, by_t in sw:
            v = Effects.subst(self, subj, mapping)
            for _ in range(8):
                if v[0] == 'unwrap' and v[1][0] == 'agg' and v[1][2] in ('Ok', 'Some') and len(v[1][3]) == 1:
                    v = v[1][3][0][1]
                else:
                    break
            if v[0] == 'agg' and v[2] is not None and v[1] == enum and any(v[2] in ns for ns in by_t.values()):
                for tb, ns in by_t.items():
                    if v[2] not in ns:
                        dead_edges.add((sb, tb))
        if not dead_edges:
            return None
        return self.spec_edges(fn, dead_edges)

    def spec_edges(self, fn, dead_edges):
        """(dead blocks, dead edges, dominator sets) of fn's control flow without `dead_edges`"""
        dead_edges = set(dead_edges)
        key = (fn.path, frozenset(dead_edges))
        if key not in self._specs:
            live, work = set(), [0]
            while work:
                b = work.pop()
                if b in live:
                    continue
                live.add(b)
                work.extend(t for t in fn.succs(b) if (b, t) not in dead_edges)
            dead = frozenset(fn.reachable(0) - live)
            preds = fn.preds()
            order = [b for b in fn._rpo() if b in live]
            dom = {b: None for b in live}
            dom[0] = {0}
            changed = True
            while changed:
                changed = False
                for b in order:
                    if b == 0:
                        continue
                    ps = [dom[q] for q in preds[b] if q in live and (q, b) not in dead_edges and dom[q] is not None]
                    if not ps:
                        continue
                    nw = set.intersection(*ps) | {b}
                    if dom[b] != nw:
                        dom[b] = nw
                        changed = True
            for b in live:
                if dom[b] is None:
                    dom[b] = {b}
            self._specs[key] = (dead, frozenset(dead_edges), dom)
        return self._specs[key]

    def _cur_spec(self, fn):
        if self._spec_stack and self._spec_stack[-1][0] == fn.path:
            return self._spec_stack[-1][1]
        return None

    def sites(self, fn, spec=None):
        ss = Effects.sites(self, fn)
        spec = spec or self._cur_spec(fn)
        if spec is not None:
            live = [s for s in ss if s.bb not in spec[0]]
            return live or ss
        return ss

    def must_calls(self, fn, site_bbs, spec=None):
        spec = spec or self._cur_spec(fn)
        if spec is None or not site_bbs:
            return Effects.must_calls(self, fn, site_bbs)
        from .lib.guards import edge_dominates
        dead, dead_edges, dom = spec
        common = None
        for b in site_bbs:
            ds = dom.get(b, {b})
            common = set(ds) if common is None else (common & ds)
        res = []
        for c in fn.calls:
            if c.bb in common:
                if c.bb in site_bbs and not (c.dest and c.dest[0] == 0):
                    continue
                res.append((c, None))
        key = {id(c): (len(dom.get(c.bb, ())), 0, 0) for c, _ in res}
        for L in self.loops(fn):
            if L.header in common and not any(b in L.body for b in site_bbs):
                if getattr(L, 'exhaust', None) is None or not all(edge_dominates(fn, L.exhaust[0], L.exhaust[1], b) for b in site_bbs):
                    continue
                for c in fn.calls:
                    if c.bb in L.body and c.bb != L.header and all(fn.dominates(c.bb, l) or c.bb == l for l in L.latches):
                        res.append((c, L.collection))
                        key[id(c)] = (len(dom.get(L.header, ())), 1, len(dom.get(c.bb, ())))
        res.sort(key=lambda x: key[id(x[0])])
        return res

    def _deads_of(self, mapping):
        """{fn path: dead blocks} for every function of the call chain whose arguments (in `mapping`) rule out arms"""
        ent = self._pc.get(id(mapping))
        if ent is not None and ent[0] is mapping and ent[1] == len(mapping):
            return ent[2]
        deads = {}
        for k in list(mapping):
            if isinstance(k, tuple) and len(k) == 2 and k[0] not in deads and isinstance(k[0], str):
                g = self.prog.fns.get(k[0])
                if g is not None and self._param_switches(g):
                    sp = self.spec(g, mapping)
                    if sp is not None and sp[0]:
                        deads[k[0]] = sp[0]
        self._pc[id(mapping)] = (mapping, len(mapping), deads)
        return deads

    def subst(self, v, mapping):
        r = Effects.subst(self, v, mapping)
        if mapping:
            deads = self._deads_of(mapping)
            if deads:
                r = prune_phi(self.slicer, r, deads)
        return r

    # ---- drained work-lists -----------------------------------------------------------------------------------
    def drained(self, fn):
        if fn.path not in self._drained:
            self._drained[fn.path] = None
            self._drained[fn.path] = find_drained(self, fn)
        return self._drained[fn.path]

    def expand(self, fn, mode='must', site_bbs=None, mapping=None, chain=(), _stack=None):
        self._spec_stack.append((fn.path, self.spec(fn, mapping) if mapping else None))
        try:
            out = Effects.expand(self, fn, mode, site_bbs, mapping, chain, _stack)
        finally:
            self._spec_stack.pop()
        st = _stack or ()
        if mode == 'must' and site_bbs is None and fn.path not in st and len(st) <= self.max_depth:
            d = self.drained(fn)
            if d is not None:
                out = _add_drained(self, fn, d, out, mapping or {}, chain, st + (fn.path,))
        return out

    # ---- grown collections ------------------------------------------------------------------------------------
    def _iterated_locals(self, fn, next_call):
        """locals the iterator of a loop was made from: `next(&mut it)`, `it = into_iter(move v)`, `v = move w` ..."""
        pl = op_place(next_call.args[0]) if next_call.args else None
        if not _deref_only(pl):
            return []
        cur, chain = pl[0], []
        for _ in range(12):
            if cur in chain:
                break
            chain.append(cur)
            ds = fn.whole_defs(cur)
            if len(ds) != 1:
                break
            d = ds[0]
            nxt = None
            if d[0] == 'stmt':
                rv = d[3]
                if rv['r'] == 'use':
                    nxt = op_place(rv['o'])
                elif rv['r'] == 'ref':
                    nxt = rv['p']
            elif d[0] == 'call':
                cc = d[3]
                if not cc.indirect and len(cc.args) == 1 and (cc.decl == 'std::iter::IntoIterator::into_iter' or
                                                             (iters._is_source(cc.decl) and cc.decl.endswith(iters.SAME_ELEMS))
                                                             or cc.decl in ('std::ops::Deref::deref', 'std::ops::DerefMut::deref_mut')):
                    nxt = op_place(cc.args[0])
            if not _deref_only(nxt):
                break
            cur = nxt[0]
        return chain

    def grown_alts(self, fn, L):
        """alternatives [(element, forall, filtered)] of loop L when its collection local was appended to before the loop
        (None: nothing appended, the plain collection value says it all)"""
        key = (fn.path, L.header)
        if key not in self._grown:
            self._grown[key] = None
            self._grown[key] = self._grown_from(fn, L.next_call, L.header, L.body, L.collection)
        return self._grown[key]

    def grown_alts_consumer(self, fn, c):
        """the same for an iterator consumer called directly on (an `iter()` / `into_iter()` of) a Vec local that was
        appended to before: `files.iter().try_for_each(|f| remove(f))` visits what `for f in &files { remove(f)? }` visits"""
        key = (fn.path, 'consumer', c.bb)
        if key not in self._grown:
            self._grown[key] = None
            if c.args and not fn.in_loop(c.bb):
                self._grown[key] = self._grown_from(fn, c, c.bb, {c.bb}, self.slicer.operand(fn, c.args[0]))
        return self._grown[key]

    def _grown_from(self, fn, user, user_bb, body, base):
        """`user`: the call whose first argument is the iterator (the loop's `next`, a consumer); `body`: blocks that run
        per element (appends there are not appends *before* the iteration); `base`: the collection value as lib.value
        sees it (initial value of the Vec)"""
        locs = set(self._iterated_locals(fn, user))
        if not locs:
            return None
        refs = _mut_ref_targets(fn)
        rpo = {b: i for i, b in enumerate(fn._rpo())}
        segs = []
        for c in sorted(fn.calls, key=lambda c: rpo.get(c.bb, 10 ** 6)):
            if not (_is(c, PUSH_ONE) or _is(c, PUSH_MANY)) or len(c.args) != 2:
                continue
            pl = op_place(c.args[0])
            if not (pl and len(pl) == 1 and refs.get(pl[0]) in locs):
                continue
            if c.bb in body or user_bb not in fn.reachable(c.bb):
                continue
            segs.append(c)
        if not segs:
            return None
        sl = self.slicer
        b0 = strip(base) if base is not None else None
        for _ in range(6):
            # `xs.iter()` / `xs.into_iter()` / `&mut it`: the elements of xs
            if b0 is not None and b0[0] == 'call' and len(b0[2]) == 1 and iters._is_source(b0[1]) and b0[1].endswith(iters.SAME_ELEMS):
                b0 = strip(b0[2][0])
            else:
                break
        if b0 is not None and b0[0] == 'call' and b0[1].startswith(('std::', 'alloc::')) and \
                ((b0[1].endswith(FRESH) and not b0[2]) or b0[1].endswith('::with_capacity')):
            al = []      # `Vec::new()` / `Vec::with_capacity(n)`: no elements yet, whatever the reserved capacity
        else:
            al = list(iters.alts(sl, base))
        for c in segs:
            v = sl.operand(fn, c.args[1])
            always = fn.dominates(c.bb, user_bb)
            outer = [l for l in self.loops(fn) if c.bb in l.body and c.bb != l.header]
            if outer:
                # appended inside an earlier loop: one element per visited element of that loop
                inner = min(outer, key=lambda l: len(l.body))
                every = always or all(fn.dominates(c.bb, lt) or c.bb == lt for lt in inner.latches)
                if _is(c, PUSH_ONE):
                    al.append((v, inner.collection, not every))
                else:
                    al.extend((e, inner.collection, True) for e, f, fl in iters.alts(sl, v))
            elif _is(c, PUSH_ONE):
                al.append((v, None, not always))
            else:
                al.extend((e, f, fl or not always) for e, f, fl in iters.alts(sl, v))
        return al

    EACH = (iters.IT + 'try_for_each', iters.IT + 'for_each')

    def _expand_iter(self, fn, c, forall, mode, mapping, chain, stack, out):
        if c.decl in self.EACH and len(c.args) == 2 and forall is None:
            al = self.grown_alts_consumer(fn, c)
            if al is not None:
                if mode == 'must' and self._short_circuits(fn, c):
                    return True
                clv = self.slicer.operand(fn, c.args[1])
                for elem, fa, filtered in al:
                    if filtered and mode == 'must':
                        continue
                    self._expand_closure(fn, c, clv, [elem], fa, mode, mapping, chain, stack, out)
                return True
        return Effects._expand_iter(self, fn, c, forall, mode, mapping, chain, stack, out)

    def _loop_around(self, fn, c):
        best = None
        for L in self.loops(fn):
            if c.bb in L.body and c.bb != L.header and L.collection is not None:
                if best is None or len(L.body) < len(best.body):
                    best = L
        return best

    def _unrollable(self, fn, c):
        best = self._loop_around(fn, c)
        if best is not None and self.grown_alts(fn, best) is not None:
            return best.collection
        return Effects._unrollable(self, fn, c)

    FN_CALL = ('std::ops::Fn::call', 'std::ops::FnMut::call_mut', 'std::ops::FnOnce::call_once')

    def _expand_call1(self, fn, c, forall, mode, mapping, chain, stack, out):
        # `let step = |x| routine(dir, x); step(a)?`: calling a closure that is a known workspace closure / fn item is
        # calling its body with the arguments bound (lib.effects reports every `Fn::call` as an opaque CALLBACK)
        if not c.indirect and c.decl in self.FN_CALL and len(c.args) == 2:
            for clv in (self.slicer.operand(fn, c.args[0]), self.subst(self.slicer.operand(fn, c.args[0]), mapping)):
                clv = strip(clv)
                g, off = self._closure_fn(clv)
                if g is None or g.path in stack:
                    continue
                av = self.slicer.operand(fn, c.args[1])
                if av[0] != 'tuple':
                    break
                self._expand_closure(fn, c, clv, list(av[1])[:max(g.argc - off, 0)], forall, mode, mapping, chain, stack, out)
                return
        n0 = len(out)
        Effects._expand_call1(self, fn, c, forall, mode, mapping, chain, stack, out)
        if mode == 'may' and len(out) > n0 and not c.indirect:
            self._drop_handed_twice(fn, c, chain, out, n0)

    def _only_called(self, g, i):
        """parameter i of workspace function g is used for nothing but being called (`f(x)` in the body of g itself): it is
        not handed on, stored, returned or captured by a closure of g"""
        key = (g.path, i)
        if key in self._only_called_memo:
            return self._only_called_memo[key]
        self._only_called_memo[key] = False
        isp = lambda v: isinstance(v, tuple) and len(v) > 2 and v[0] == 'param' and v[1] == g.path and v[2] == i

        def clean(v, callee_pos=False):
            # no mention of the parameter outside the callee position of an Fn*::call
            if not isinstance(v, tuple) or not v:
                return True
            if isp(v):
                return callee_pos
            if v[0] == 'call' and v[1] in self.FN_CALL and len(v) > 2 and v[2]:
                return clean(strip(v[2][0]), True) and all(clean(x) for x in v[2][1:])
            return all(clean(x) for x in v if isinstance(x, tuple))
        ok = not self.prog.closures_of(g) and i < g.argc
        if ok:
            for k in g.calls:
                for ai, a in enumerate(k.args):
                    v = self.slicer.operand(g, a)
                    if k.decl in self.FN_CALL and ai == 0 and not k.indirect:
                        if not (isp(strip(v)) or clean(v)):
                            ok = False
                    elif not clean(v):
                        ok = False
                if k.indirect and not clean(self.slicer.operand(g, k.fop), True):
                    ok = False
            ok = ok and clean(self.slicer.local(g, 0))
        self._only_called_memo[key] = ok
        return ok

    def _drop_handed_twice(self, fn, c, chain, out, n0):
        """`switch.apply(|x| routine(x))` with a private `apply` whose body is known: lib.effects both descends into `apply`
        (where calling the parameter is resolved to the closure's body, under apply's own guards) and — as for any call that
        is handed a closure — adds the closure's effects as "may run" at the handing call. When every callee only ever
        *calls* that parameter, the second reading is the first one without its guards: one effect reported twice."""
        callees = self.prog.callee_fns(c)
        if not callees or any(g.path not in self.prog.fns for g in callees):
            return
        handed = {}
        for ai, a in enumerate(c.args):
            g, off = self._closure_fn(strip(self.slicer.operand(fn, a)))
            if g is not None and g.kind == 'Closure':
                handed[g.path] = ai
        if not handed or not all(self._only_called(cg, ai) for cg in callees for ai in handed.values()):
            return
        k = len(chain)
        callee_paths = {cg.path for cg in callees}

        def entered(e):
            # the function entered right below the handing call on this effect's chain
            if len(e.chain or ()) <= k or not isinstance(e.chain[k], Link) or e.chain[k].call is not c:
                return None
            nxt = e.chain[k + 1] if len(e.chain) > k + 1 else None
            nc = nxt.call if isinstance(nxt, Link) else (nxt if nxt is not None else e.call)
            return nc.fn.path if nc is not None else None
        keep = [e for e in out[n0:] if not (entered(e) in handed and entered(e) not in callee_paths)]
        out[n0:] = keep

    def _expand_closure(self, fn, c, clv, bind, forall, mode, mapping, chain, stack, out, implied=None):
        # a closure an Option / Result combinator runs on the payload of its receiver does not run when, with the
        # arguments of this call chain, the receiver has no payload (`switch.replacement().map_or(Ok(()), |x| replace(x))`
        # reached with the literal `Keep`): the same arm pruning `spec` does for a `match` on the parameter itself
        if implied is not None and mapping and implied[0] == 'unwrap':
            x = Effects.subst(self, implied[1], mapping)
            lit = lambda a: isinstance(a, tuple) and len(a) > 3 and a[0] == 'agg' and a[2] is not None and a[1] in self.prog.adts
            if x[0] == 'call' and x[1] in self.prog.fns and any(lit(strip(a)) for a in x[2]):
                try:
                    nv = self.slicer.inline_deep(x)
                    arms = switch_view(self.slicer, nv)
                except Exception:
                    nv, arms = x, None
                if nv[0] == 'agg' and nv[1] in ('std::option::Option', 'std::result::Result') and nv[2] in ('None', 'Err'):
                    return
                if arms is not None and arms[0][0] == 'agg' and arms[0][2] is not None and arms[0][2] not in arms[2]:
                    return
        Effects._expand_closure(self, fn, c, clv, bind, forall, mode, mapping, chain, stack, out, implied)

    def _expand_call(self, fn, c, forall, mode, mapping, chain, stack, out):
        if forall is not None:
            L = self._loop_around(fn, c)
            al = self.grown_alts(fn, L) if (L is not None and L.collection is forall) else None
            if al is not None:
                key = iters.loop_key(forall)
                for elem, fa, filtered in al:
                    if filtered and mode == 'must':
                        continue
                    m = dict(mapping)
                    m['__repl__'] = list(mapping.get('__repl__', ())) + [(key, self.subst(elem, mapping))]
                    self._expand_call1(fn, c, fa, mode, m, chain, stack, out)
                return
        Effects._expand_call(self, fn, c, forall, mode, mapping, chain, stack, out)


def switch_view(sl, x):
    """x: an Option / Result computed from an enum value by a private view (`fn replacement(self) -> Option<T> { match self
    { Keep => None, Replace(v) => Some(v) } }`, possibly behind further private helpers).  On the normal form with private
    helpers transparent such a value is a `select` over the enum value: returns (subject, enum, {variant name: payload}) —
    the variants for which x has a payload — when every arm is either Some(..)/Ok(..) or a literal None/Err(..); else None"""
    v = x
    for _ in range(4):
        while isinstance(v, tuple) and v and v[0] in ('ref', 'deref') and len(v) > 1:
            v = v[1]
        if not isinstance(v, tuple) or not v:
            return None
        if v[0] == 'select':
            break
        if v[0] == 'call' and v[1] in sl.prog.fns:
            nv = sl.inline_deep(v)
            if nv == v:
                return None
            v = nv
            continue
        return None
    if v[0] != 'select':
        return None
    some = {}
    for names, val in v[3]:
        if val[0] != 'agg' or val[1] not in ('std::option::Option', 'std::result::Result'):
            return None
        if val[2] in ('Some', 'Ok') and len(val[3]) == 1:
            for n in names:
                some[n] = val[3][0][1]
        elif val[2] not in ('None', 'Err'):
            return None
    return v[1], v[2], some


def prune_phi(sl, v, deads):
    """v without the alternatives of merged values that were computed in a block the call-site arguments rule out
    (`deads`: {fn path: dead blocks}): a value mentioning the result of a call only exists on paths through that call"""
    if not isinstance(v, tuple) or not v or v[0] in ('const', 'param', 'fnitem', 'constitem', 'unknown', 'closure_env', 'upvar'):
        return v
    if v[0] == 'phi':
        from .lib.value import walk
        keep = [a for a in v[1] if not any(x[0] == 'call' and len(x) == 4 and x[3] and x[3][0] in deads and x[3][1] in deads[x[3][0]]
                                           for x in walk(a))]
        if keep and len(keep) < len(v[1]):
            keep = [prune_phi(sl, a, deads) for a in keep]
            return keep[0] if len(keep) == 1 else ('phi', tuple(keep))
    out, changed = [], False
    for x in v:
        if isinstance(x, tuple):
            y = prune_phi(sl, x, deads)
            changed = changed or (y is not x)
            out.append(y)
        else:
            out.append(x)
    if not changed:
        return v
    nv = tuple(out)
    if nv[0] == 'field' and nv[1][0] in ('agg', 'tuple', 'closure', 'updated'):
        return sl._field(nv[1], nv[2])
    return nv


class SpecOutcome(Outcome):
    """an Outcome read on a control-flow graph with some switch edges removed (one way through arms that meet again before
    the success site): "after the decision" is dominance on *that* graph"""

    def __init__(self, value, must, may, conds, sites, specdoms=None):
        Outcome.__init__(self, value, must, may, conds, sites)
        self.specdoms = specdoms or {}      # level -> (fn path, {block: dominators on the specialised graph})

    def _after(self, cond, level):
        sd = self.specdoms.get(level)
        if sd is None or sd[0] != cond.fn.path:
            return lambda bb: cond.fn.dominates(cond.target, bb)
        return lambda bb: cond.target in sd[1].get(bb, ()) or cond.fn.dominates(cond.target, bb)

    def region(self, cond, level, effs=None):
        effs = self.may if effs is None else effs
        after = self._after(cond, level)
        return [e for e in effs if e.level is not None and (e.level > level or (e.level == level and after(e.level_bb)))]

    def before(self, cond, level, effs=None):
        effs = self.must if effs is None else effs
        after = self._after(cond, level)
        return [e for e in effs if e.level is not None and (e.level < level or (e.level == level and not after(e.level_bb)))]


def split_ways(E, fn, site_bb, base_edges, split_on, cap=16):
    """The ways to reach success site `site_bb` of fn through the arms of the variant switches `split_on(enum, subject)`
    selects, when those arms *meet again* before the site (the common tail of all arms sunk below the `match`):
    [(dead edges, [Cond of each forced decision, outermost first])].  One entry with no forced decision when every such
    switch already decides the site by itself (each arm ends in its own success site)."""
    from .lib.guards import _discr_info, Cond
    sl = E.slicer
    rpo = {b: i for i, b in enumerate(fn._rpo())}
    sws = []
    for sb, blk in enumerate(fn.blocks):
        t = blk['t']
        if t['t'] != 'switch' or sb not in rpo or fn.in_loop(sb):
            continue
        di = _discr_info(fn, sb, t['o'])
        if not di:
            continue
        place, vmap, enum = di
        subj = sl.place(fn, place)
        if not split_on(enum, subj):
            continue
        listed = [v for v, _ in t['targets']]
        by_t = {}
        for v, tb in t['targets']:
            by_t.setdefault(tb, set()).add(vmap.get(v, str(v)))
        rest = {n for v, n in vmap.items() if v not in listed}
        if rest:
            by_t.setdefault(t['else'], set()).update(rest)
        sws.append((rpo[sb], sb, by_t, sl.operand(fn, t['o']), subj, enum, t['else']))
    sws.sort()
    if not sws:
        return [(frozenset(base_edges), [])]

    def reach(start, edges):
        seen, work = set(), [start]
        while work:
            b = work.pop()
            if b in seen:
                continue
            seen.add(b)
            work.extend(x for x in fn.succs(b) if (b, x) not in edges)
        return seen
    done = []

    from .lib.value import canon
    skey = lambda subj, enum: (canon(subj), enum)

    def go(edges, forced, decided, known):
        if len(done) > cap:
            return
        live = reach(0, edges)
        for _, sb, by_t, val, subj, enum, els in sws:
            if sb in decided or sb not in live:
                continue
            outs = [x for x in fn.succs(sb) if (sb, x) not in edges]
            ways = [tb for tb in outs if site_bb in reach(tb, edges)]
            if len(ways) < 2:
                continue
            k = skey(subj, enum)
            if k in known:
                # the same value was already decided on this way (a second look at it, e.g. the drop elaboration of a
                # matched value after the arms met): only the arm agreeing with that decision is taken
                agree = [tb for tb in ways if tb in by_t and by_t[tb] & known[k]]
                if len(agree) == 1:
                    go(edges | {(sb, x) for x in outs if x != agree[0]}, forced, decided | {sb}, known)
                    return
            for tb in ways:
                if tb not in by_t:
                    continue       # the catch-all edge of an exhaustive switch
                cd = Cond(fn, sb, tb, 'variant', frozenset(by_t[tb]), val, subj, enum)
                go(edges | {(sb, x) for x in outs if x != tb}, forced + [cd], decided | {sb}, _with(known, k, by_t[tb]))
            return
        done.append((frozenset(edges), forced))

    def _with(known, k, names):
        d = dict(known)
        d[k] = frozenset(names)
        return d
    known0 = {}
    for cd in conditions(fn, site_bb, sl):
        if cd.kind == 'variant' and cd.subject is not None and cd.enum is not None:
            known0[skey(cd.subject, cd.enum)] = frozenset(cd.outcome)
    go(frozenset(base_edges), [], frozenset(), known0)
    if not done or len(done) > cap:
        return [(frozenset(base_edges), [])]
    return done


def outcomes_ctx(E, fn, mapping=None, chain=(), stack=(), split_on=None):
    """lib.effects.outcomes on the call-site specialised control flow (VecEffects.spec): success sites, certain and
    possible effects of a function reached with literal switches are those of the arms the literals select.
    split_on(enum, subject): the decisions that define the rows of the caller's table — a success site that several arms
    of such a switch reach (their common tail sunk below the `match`) is read once per arm (split_ways), each on the
    control flow without the other arms, with the forced decision among the outcome's conditions"""
    mapping = mapping or {}
    res = []
    level = len(stack)
    sp0 = E.spec(fn, mapping) if mapping else None
    todo = []
    for site in E.sites(fn, sp0):
        ways = [(None, [])]
        if split_on is not None:
            ways = split_ways(E, fn, site.bb, sp0[1] if sp0 is not None else (), split_on)
            if len(ways) == 1 and not ways[0][1]:
                ways = [(None, [])]
        for edges, forced in ways:
            todo.append((site, sp0 if edges is None else E.spec_edges(fn, edges), forced))
    for site, sp, forced in todo:
        dead = sp[0] if sp is not None else ()
        sdoms = {level: (fn.path, sp[2])} if forced else {}
        def Outcome(v, mu, ma, cs, st, extra=None, sdoms=sdoms):
            d = dict(extra or {})
            d.update(sdoms)
            return SpecOutcome(v, mu, ma, cs, st, d)
        must = []
        for c, forall in E.must_calls(fn, [site.bb], sp):
            if site.kind == 'tail' and c is site.call:
                continue
            n0 = len(must)
            E._expand_call(fn, c, forall, 'must', mapping, chain, stack + (fn.path,), must)
            for e in must[n0:]:
                e.level, e.level_bb = level, c.bb
        may = []
        for c in E.may_calls(fn, [site.bb]):
            if (site.kind == 'tail' and c is site.call) or c.bb in dead:
                continue
            n0 = len(may)
            E._expand_call(fn, c, E._unrollable(fn, c), 'may', mapping, chain, stack + (fn.path,), may)
            for e in may[n0:]:
                e.level, e.level_bb = level, c.bb
        conds = []
        own = list(conditions(fn, site.bb, E.slicer))
        have = {(cd.sw_bb, cd.target) for cd in own}
        for cd in own + [x for x in forced if (x.sw_bb, x.target) not in have]:
            subj = cd.subject if cd.subject is not None else cd.value
            conds.append((cd, E.subst(subj, mapping), level))
        if site.kind == 'tail':
            callees = E.prog.callee_fns(site.call)
            if callees:
                for g in callees:
                    if g.path in stack or g.path == fn.path or len(stack) > E.max_depth:
                        res.append(Outcome(('recursion', g.path), must, may, conds, (site,)))
                        continue
                    m = E.call_mapping(fn, site.call, g, mapping)
                    for sub in outcomes_ctx(E, g, m, chain + (Link(site.call, mapping),), stack + (fn.path,), split_on):
                        res.append(Outcome(sub.value, must + sub.must, may + sub.may, conds + sub.conds, (site,) + sub.sites,
                                           getattr(sub, 'specdoms', None)))
                continue
            v = E.subst(E.slicer._call_value(fn, site.call, set(), 0), mapping)
            res.append(Outcome(v, must, may, conds, (site,)))
        elif site.kind == 'ok':
            res.append(Outcome(E.subst(E.slicer._rvalue(fn, site.stmt, set(), 0, None), mapping), must, may, conds, (site,)))
        else:
            res.append(Outcome(('tuple', ()), must, may, conds, (site,)))
    return res


def lifted_args_ctx(E, call, crate=None, depth=3, stop_at=(), with_path=False):
    """lib.tables.lifted_args, with the values re-expressed at a caller read under that caller's arguments: merged values
    keep only the alternatives of the arms the caller's literal switches select.  [(top Fn, top call site, [values])];
    with_path=True adds the call sites passed on the way up ([the call itself, .., the top call site]) so that the
    decisions around *each* of them can be read (the `match` on the strategy may sit at any level)"""
    from .lib.value import walk
    prog, sl = E.prog, E.slicer
    callers = prog.callers()

    def go(f, site, vals, d, path):
        has_param = any(x[0] == 'param' and x[1] == f.path for v in vals for x in walk(v))
        css = [cs for cs in callers.get(f.path, []) if not cs.indirect and cs.name == f.path and cs.fn.path != f.path
               and (crate is None or cs.fn.crate == crate)]
        if not has_param or not css or d >= depth or f.vis == 'pub' or f.path in stop_at:
            return [(f, site, vals, path) if with_path else (f, site, vals)]
        out = []
        for cs in css:
            m = {(f.path, i): sl.operand(cs.fn, a) for i, a in enumerate(cs.args)}
            out.extend(go(cs.fn, cs, [E.subst(v, m) for v in vals], d + 1, path + [cs]))
        return out
    f = call.fn
    return go(f, call, [sl.operand(f, a) for a in call.args], 0, [call])


# ---- drained work-lists ----------------------------------------------------------------------------------------------
POP = ('std::vec::Vec::<T, A>::pop',)
PEEK = ('core::slice::<impl [T]>::last', 'core::slice::<impl [T]>::last_mut', 'core::slice::<impl [T]>::first')
PEEK_MUT = ('core::slice::<impl [T]>::last_mut',)
MEASURE = ('std::vec::Vec::<T, A>::is_empty', 'std::vec::Vec::<T, A>::len', 'core::slice::<impl [T]>::is_empty',
           'core::slice::<impl [T]>::len')
DEREF = ('std::ops::Deref::deref', 'std::ops::DerefMut::deref_mut')


class Drained:
    """facts about one drained work-list of a function (see module doc)"""
    __slots__ = ('local', 'effect', 'kind', 'proj', 'pushes', 'exit_bb')


def _option_edges(fn, c):
    """(block entered when the Option returned by call c is Some, block entered when it is None) or None"""
    if c.target is None or not c.dest or len(c.dest) != 1:
        return None
    blk = fn.blocks[c.target]
    t = blk['t']
    if t['t'] != 'switch':
        return None
    pl = op_place(t['o'])
    if not pl or len(pl) != 1:
        return None
    d = [st for st in blk['s'] if st[0] == '=' and st[1] == [pl[0]] and st[2]['r'] == 'discr' and st[2]['p'] == [c.dest[0]]]
    if len(d) != 1 or d[0][2].get('enum') != 'std::option::Option':
        return None
    vm = {n: v for v, n in d[0][2]['variants']}
    tg = dict((v, b) for v, b in t['targets'])
    some = tg.get(vm.get('Some'), t['else'])
    none = tg.get(vm.get('None'), t['else'])
    if some == none:
        return None
    return some, none


def _option_variant(sl, v):
    """'Some' | 'None' | None for the success payload of a returned Result<Option<_>> / Option<_> value"""
    for cand in (v, sl.mk_unwrap(v, 1)):
        x = strip(cand) if cand is not None else None
        if x is None:
            continue
        if x[0] == 'agg' and x[1] == 'std::option::Option' and x[2] in ('Some', 'None'):
            return x[2]
        if x[0] == 'call' and x[1] in ('std::prelude::v1::Some', 'std::option::Option::Some') and len(x[2]) == 1:
            return 'Some'
    return None


def _project(v, proj):
    if proj is None:
        return v
    if v[0] == 'tuple' and proj.isdigit() and int(proj) < len(v[1]):
        return v[1][int(proj)]
    if v[0] == 'agg':
        d = dict(v[3])
        if proj in d:
            return d[proj]
    return ('field', v, proj)


def find_drained(E, fn):
    """Drained facts of fn, or None.  Every clause below is needed for the conclusion "when fn succeeds, the effect has
    happened on (the projection of) every value pushed"; if one cannot be established nothing is derived."""
    from .lib.effects import error_sites
    from .lib.guards import edge_dominates
    from .lib.discard import result_fates, verdict
    sl = E.slicer
    if not any(_is(c, POP) for c in fn.calls):
        return None
    sites = [s.bb for s in E.sites(fn)]
    if not sites:
        return None
    for W in range(len(fn.locals)):
        if not (fn.local_ty(W) or '').startswith(('std::vec::Vec<',)):
            continue
        wd = fn.whole_defs(W)
        # (1) starts empty
        if len(wd) != 1 or wd[0][0] != 'call' or wd[0][3].indirect or not wd[0][3].name.endswith(FRESH) or wd[0][3].args:
            continue
        # (2) the list is only touched through push / pop / peek / measure (every other use could add or drop elements)
        refs, ok = set(), True
        for bi, how, idx, mode, pl in fn.uses_of(W):
            if how == 'drop':
                continue
            if how == 'stmt' and mode in ('ref', 'refmut') and pl == [W]:
                refs.add(fn.blocks[bi]['s'][idx][1][0])
            else:
                ok = False
        work, seen = list(refs), set()
        touching = []
        while ok and work:
            r = work.pop()
            if r in seen:
                continue
            seen.add(r)
            for bi, how, idx, mode, pl in fn.uses_of(r):
                if how == 'arg' and idx == 0 and _deref_only(pl):
                    c = fn.call_at(bi)
                    if _is(c, DEREF) and c.dest and len(c.dest) == 1:
                        work.append(c.dest[0])
                    elif _is(c, PUSH_ONE) or _is(c, POP) or _is(c, PEEK) or _is(c, MEASURE):
                        touching.append(c)
                    else:
                        ok = False
                elif how == 'stmt' and mode in ('ref', 'refmut') and _deref_only(pl) and len(fn.blocks[bi]['s'][idx][1]) == 1:
                    work.append(fn.blocks[bi]['s'][idx][1][0])     # re-borrow
                elif how == 'drop':
                    continue
                else:
                    ok = False
        if not ok:
            continue
        pops = [c for c in touching if _is(c, POP)]
        pushes = [c for c in touching if _is(c, PUSH_ONE)]
        if not pops or not pushes:
            continue
        # (3) every popped element is handed to one effect that must have succeeded before the list is touched again or
        #     the function succeeds
        errs = set(error_sites(fn))
        tbbs = {c.bb for c in touching}
        found = None
        for p in pops:
            edges = _option_edges(fn, p)
            if edges is None:
                found = None
                break
            some_bb = edges[0]
            hit = None
            for r in fn.calls:
                ve = vocab_lookup(r, E.vocab)
                if not ve or ve[1] is None or ve[1] >= len(r.args) or not fn.dominates(some_bb, r.bb):
                    continue
                pv = strip(sl.operand(fn, r.args[ve[1]]))
                proj = None
                if pv[0] == 'field':
                    proj, pv = pv[2], strip(pv[1])
                if not (pv[0] == 'call' and len(pv) == 4 and pv[3] == (fn.path, p.bb)):
                    continue
                stops = {r.bb} | errs
                skipping = fn.reachable(some_bb, stop=stops) - stops
                if any(b in sites or b in tbbs or fn.blocks[b]['t']['t'] == 'ret' for b in skipping):
                    continue
                if verdict(result_fates(E.prog, fn, r)) != 'ok':
                    continue
                hit = (r, ve[0], proj)
                break
            if hit is None or (found is not None and (found[1], found[2]) != (hit[1], hit[2])):
                found = None
                break
            found = hit
        if found is None:
            continue
        # (4) nothing reaches into the part of an element the effect is applied to while it waits in the list
        for c in touching:
            if not _is(c, PEEK_MUT):
                continue
            if not c.dest or len(c.dest) != 1:
                ok = False
                break
            elems = []
            for bi, how, idx, mode, pl in fn.uses_of(c.dest[0]):
                if how == 'stmt' and mode == 'discr':
                    continue
                if how == 'stmt' and mode in ('c', 'm') and pl[1:] == ['@Some', '.0'] and len(fn.blocks[bi]['s'][idx][1]) == 1:
                    elems.append(fn.blocks[bi]['s'][idx][1][0])
                    continue
                ok = False
            for x in elems:
                for bi, how, idx, mode, pl in fn.uses_of(x):
                    fld = [q for q in pl[1:] if q != '*']
                    if found[2] is not None and fld and fld[0] != '.' + found[2]:
                        continue          # another component of the element
                    if mode in ('ref', 'c') and how == 'stmt':
                        continue          # read-only
                    ok = False
        if not ok:
            continue
        # (5) fn succeeds only with the list observed empty and nothing pushed afterwards
        exit_bb = None
        for s in sites:
            good = False
            for t in touching:
                if not (_is(t, POP) or _is(t, PEEK)):
                    continue
                edges = _option_edges(fn, t)
                if edges is None or not edge_dominates(fn, t.target, edges[1], s):
                    continue
                after = fn.reachable(edges[1])
                if any(q.bb in after and s in fn.reachable(q.bb) for q in pushes):
                    continue
                good = True
                exit_bb = edges[1] if exit_bb is None else exit_bb
            if not good:
                ok = False
        if not ok:
            continue
        d = Drained()
        d.local, d.effect, d.kind, d.proj, d.exit_bb = W, found[0], found[1], found[2], exit_bb
        d.pushes = [(q, _project(strip(sl.operand(fn, q.args[1])), found[2])) for q in pushes if not fn.in_loop(q.bb)]
        return d
    return None


def _drained_alternatives(E, fn, d, q, mapping, chain, stack):
    """effects that happened on the success paths of fn that did *not* run push q: [[Eff..]..] (one list per alternative),
    [] when q runs on every success path, None when the paths around q are not understood"""
    sl = E.slicer
    from .lib.guards import edge_dominates
    sites = [s.bb for s in E.sites(fn)]
    if all(fn.dominates(q.bb, s) for s in sites):
        return []
    conds = conditions(fn, q.bb, sl)
    own = [cd for cd in conds if not all(edge_dominates(fn, cd.sw_bb, cd.target, s) for s in sites)]
    if len(own) != 1:
        return None
    cd = own[0]
    if cd.kind != 'variant' or cd.enum != 'std::option::Option' or cd.subject is None:
        return None
    # once the decision is taken, the push is on every way to success
    if any(s in fn.reachable(cd.target, stop={q.bb}) - {q.bb} for s in sites):
        return None
    subj = cd.subject
    n = 0
    while subj[0] == 'unwrap':
        subj, n = subj[1], n + 1
    if not (subj[0] == 'call' and len(subj) == 4 and subj[3] and subj[3][0] == fn.path and subj[1] in E.prog.fns):
        return None
    hc = fn.call_at(subj[3][1])
    h = E.prog.fns[subj[1]]
    if hc is None or h.path in stack or not all(fn.dominates(hc.bb, s) for s in sites):
        return None
    m = E.call_mapping(fn, hc, h, mapping)
    alts = []
    for o in outcomes(E, h, m, chain + (Link(hc, mapping),), stack):
        v = o.value
        for _ in range(max(n - 1, 0)):
            v = sl.mk_unwrap(v, 1)
        var = _option_variant(sl, v)
        if var is not None and var in cd.outcome:
            continue      # this outcome of the helper leads to the push
        alts.append(o.must)
    return alts


def _add_drained(E, fn, d, out, mapping, chain, stack):
    have = {eff_key(e) for e in out}
    extra = []
    for q, pv in d.pushes:
        alts = _drained_alternatives(E, fn, d, q, mapping, chain, stack)
        if alts is None:
            continue
        path = E.subst(pv, mapping)
        e = Eff(d.kind, path, d.effect, chain, True, None, (path,))
        e.mapping = mapping
        k = eff_key(e)
        if k in have or not all(any(eff_key(x) == k for x in al) for al in alts):
            continue
        have.add(k)
        extra.append(e)
    if not extra:
        return out

    def own_bb(e):
        lk = e.chain[len(chain)] if len(e.chain) > len(chain) else e.call
        return lk.bb if lk is not None else None
    cut = len(out)
    for i, e in enumerate(out):
        b = own_bb(e)
        if b is not None and d.exit_bb is not None and fn.dominates(d.exit_bb, b):
            cut = i
            break
    return out[:cut] + extra + out[cut:]


def entries_scope(E, f, v):
    """layer_env_common._entries_scope (which delta of `self` does value v range over: 'all' | 'build' | 'launch' |
    'process[*]'), also when the delta's entries are reached through a private function of the delta that ranges over them
    (`for (name, value) in delta.planned_files()`: plan first, write afterwards)"""
    from . import layer_env_common as L
    scope, coll = L._entries_scope(f, v)
    if scope is not None:
        return scope, coll
    prog = E.prog
    for x in _walk(v):
        if not (x[0] == 'call' and x[1] in prog.fns and x[2]):
            continue
        g = prog.fns[x[1]]
        if g.kind == 'Closure' or g.path == f.path:
            continue
        for i, a in enumerate(x[2][:g.argc]):
            if not _ranges_over_entries(E, g, i):
                continue
            owner = strip(a)
            fld = L.self_field(f, owner)
            if fld is not None:
                return fld, None
            c2, proj = L.loop_element(owner)
            if c2 is not None and L.self_field(f, c2) is not None and proj == ('1',):
                return L.self_field(f, c2) + '[*]', c2
    return None, None


def _ranges_over_entries(E, g, i):
    """does private function g iterate over `<parameter i>.entries` (a loop or an iterator pipeline over that map)?"""
    key = ('roe', g.path, i)
    cache = E.__dict__.setdefault('_roe', {})
    if key not in cache:
        def of_param(v):
            return any(y[0] == 'field' and y[2] == 'entries' and strip(y[1])[0] == 'param' and strip(y[1])[1] == g.path and strip(y[1])[2] == i
                       for y in _walk(v))
        hit = any(L_.collection is not None and of_param(L_.collection) for L_ in E.loops(g))
        if not hit:
            for c in g.calls:
                if not c.indirect and (c.decl or '').startswith('std::iter::') and c.args and of_param(E.slicer.operand(g, c.args[0])):
                    hit = True
                    break
        cache[key] = hit
    return cache[key]


def writer_scope_table(prog, sl):
    """layer_env_common.writer_scope_table (scope -> directory components, from the WRITE effects of write_to_layer_dir)
    on VecEffects: rows of a (dir, delta) table that are appended to the table (`push`, `extend(map over self.process)`)
    count like the literal rows."""
    from . import layer_env_common as L
    L.resolve_roles(prog, sl)
    f = prog.fn(L.W_LAYER)
    root = L.param_pred(f, 1)
    E = VecEffects(prog, sl)
    table = {}
    rows = []
    for e in E.expand(f, 'may'):
        if e.kind != 'WRITE' or e.path is None:
            continue
        cs = L.comps(e.path, root)
        scope, coll = entries_scope(E, f, e.path)
        if scope is None and e.args:
            for a in e.args[1:]:
                scope, coll = entries_scope(E, f, a)
                if scope is not None:
                    break
        dirs = None
        if cs is not None and len(cs) >= 1:
            dirs = cs[:-1]
            if coll is not None and dirs:
                last = dirs[-1]
                if not isinstance(last, str):
                    c2, p2 = L.loop_element(last)
                    if c2 == coll and p2 == ('0',):
                        dirs = dirs[:-1] + ('<key>',)
        rows.append((e, scope, dirs, None, e.path))
        if scope is not None and dirs is not None and all(isinstance(d, str) for d in dirs):
            if scope in table and table[scope] != dirs:
                table[scope] = None    # one scope persisted in two places
            else:
                table[scope] = dirs
        elif scope is not None:
            table.setdefault(scope, None)
    return f, table, rows


# =====================================================================================================================
# Deepening round: obligations on what is *carried* (reader composition, failure propagation, order of the pure
# `types` callback, per-element coverage of guarded loops).  Everything below is stated on MIR facts / value normal
# forms; shapes that are not understood are reported by the callers as UNPROVEN.
# =====================================================================================================================
from .lib.value import _err_like, walk as _walk   # noqa: E402

_MAP_LIKE = ('std::result::Result::<T, E>::map', 'std::option::Option::<T>::map')
_AND_THEN = ('std::result::Result::<T, E>::and_then', 'std::option::Option::<T>::and_then')
_TRANSPOSE = ('std::result::Result::<std::option::Option<T>, E>::transpose',
              'std::option::Option::<std::result::Result<T, E>>::transpose')


def _wrap(v, n):
    for _ in range(n):
        v = ('unwrap', v)
    return v


def unwrap_n(sl, v, n, fuel=24, keep=()):
    """the value left after taking the success payload of v `n` times (Result / Option layers), in a normal form that
    does not depend on `f(x?)` / `x.map(f)` / `x.and_then(f)` / `.transpose()` / early-return phis / private helpers:
        U1(Ok(x)) = x                    U1(map(x, f)) = f(U1 x)          Un(and_then(x, f)) = Un(f(U1 x))
        U2(transpose(x)) = U2(x)         Un(helper(..)) = Un(what the helper returns)
    Layers that cannot be opened stay as ('unwrap', ..) wrappers."""
    if n <= 0:
        return v
    if fuel <= 0 or not isinstance(v, tuple) or not v:
        return _wrap(v, n)
    if v[0] == 'unwrap':
        return unwrap_n(sl, v[1], n + 1, fuel - 1, keep)
    v = sl._ok_core(v)
    if v[0] == 'unwrap':
        return unwrap_n(sl, v[1], n + 1, fuel - 1, keep)
    if v[0] == 'agg' and v[2] in ('Ok', 'Some') and v[1] in ('std::result::Result', 'std::option::Option') and len(v[3]) == 1:
        return unwrap_n(sl, v[3][0][1], n - 1, fuel - 1, keep)
    if v[0] == 'phi':
        good = []
        for x in v[1]:
            if _err_like(x):
                continue
            u = unwrap_n(sl, x, n, fuel - 1, keep)
            # an alternative that bottoms out in a literal failure (`Ok(None)` unwrapped twice) has no payload
            y = u
            while y[0] == 'unwrap':
                y = y[1]
            if u[0] == 'unwrap' and _err_like(y):
                continue
            good.append(u)
        if len(good) == 1:
            return good[0]
        if good:
            return ('phi', tuple(good))
        return _wrap(v, n)
    if v[0] == 'call':
        name, args = v[1], v[2]
        if name in _TRANSPOSE and n >= 2 and len(args) == 1:
            return unwrap_n(sl, args[0], n, fuel - 1, keep)
        if len(args) == 2 and isinstance(args[1], tuple) and args[1] and args[1][0] in ('closure', 'fnitem'):
            if name in _AND_THEN:
                r = sl.apply_closure(args[1], (unwrap_n(sl, args[0], 1, fuel - 1, keep),))
                if r is not None:
                    return unwrap_n(sl, r, n, fuel - 1, keep)
            elif name in _MAP_LIKE:
                r = sl.apply_closure(args[1], (unwrap_n(sl, args[0], 1, fuel - 1, keep),))
                if r is not None:
                    return unwrap_n(sl, r, n - 1, fuel - 1, keep)
        if name in sl.prog.fns and name not in keep:
            iv = sl.inline_call(v)
            if iv is not None and iv != v:
                return unwrap_n(sl, iv, n, fuel - 1, keep)
    return _wrap(v, n)


def deep_fields(sl, v, fuel=8, keep=()):
    """v with the `.field` projections of values that became aggregates after substitution resolved"""
    if not isinstance(v, tuple) or not v or fuel <= 0:
        return v
    if v[0] in ('const', 'param', 'fnitem', 'constitem', 'unknown', 'closure_env', 'upvar'):
        return v
    out = tuple(deep_fields(sl, x, fuel - 1, keep) if isinstance(x, tuple) else x for x in v)
    if out[0] == 'field':
        b = out[1]
        n = 0
        while b[0] == 'unwrap':
            b, n = b[1], n + 1
        if n:
            ub = unwrap_n(sl, b, n, keep=keep)
            if ub[0] == 'agg' or (ub[0] == 'tuple' and out[2].isdigit() and int(out[2]) < len(ub[1])):
                # (a helper returning `Ok(Some((path, text)))`: `.1` of its success payload is the text)
                return deep_fields(sl, sl._field(ub, out[2]), fuel - 1, keep)
        return sl._field(out[1], out[2])
    return out


def open_payload(sl, v, keep=()):
    """`unwrap^n(helper(..))` with a private workspace helper -> the helper's own success payload in the caller's terms
    (`read_and_parse(path)?` reads like the `read_to_string(path)?` + `from_str(..)?` it contains)"""
    b, n = v, 0
    while b[0] == 'unwrap':
        b, n = b[1], n + 1
    if n and b[0] == 'call' and b[1] in sl.prog.fns and b[1] not in keep:
        u = unwrap_n(sl, b, n, keep=keep)
        if u != v:
            return deep_fields(sl, u, keep=keep)
    return v


# views of the same bytes / text: the data written is the data viewed
_VIEWS = ('::as_bytes', '::as_str', '::into_bytes', '::as_ref', '::deref', '::borrow', '::as_slice', '::into_boxed_str', '::to_owned',
          '::clone', '::to_vec', '::into_string')


def peel_views(v):
    """x of `x.as_bytes()` / `x.as_str()` / `&*x` / `x.clone()` ...: conversions that present the same text"""
    for _ in range(12):
        v = strip(v)
        if v[0] == 'call' and len(v[2]) == 1 and v[1].startswith(('std::', 'core::', 'alloc::')) and v[1].endswith(_VIEWS):
            v = v[2][0]
        else:
            break
    return v


# ---- failure propagation ---------------------------------------------------------------------------------------------
def _handed_to(fn, sl, call, names):
    """the call in fn to one of `names` that receives the result of `call` as its first argument"""
    site = (fn.path, call.bb)
    for h in fn.calls:
        if h.indirect or not h.args or not ({h.name, h.res, h.decl} & set(names)):
            continue
        av = strip(sl.operand(fn, h.args[0]))
        if av[0] == 'call' and len(av) == 4 and av[3] == site:
            return h
    return None


def _match_propagates(fn, call):
    """`match call(..) { Ok(x) => .., Err(e) => return Err(f(e)) }` / `if let Err(e) = call(..) { return Err(..) }`: the
    result is only looked at through one match (the first discriminant read, which dominates every other use) none of
    whose non-Ok arms can reach a success site.  (lib.discard.ok_on_success gives up on the extra discriminant reads
    that drop elaboration adds after the payload was moved out; they come after the decision and cannot undo it.)"""
    from .lib.discard import _non_ok_arms_fail
    from .lib.effects import success_sites
    dest = call.dest
    if not dest or len(dest) != 1 or dest[0] == 0:
        return False
    sites = {s.bb for s in success_sites(fn)}
    reads = []
    for bi, kind, idx, how, pl in fn.uses_of(dest[0]):
        if kind == 'drop':
            continue
        if kind != 'stmt':
            return False
        st = fn.blocks[bi]['s'][idx]
        if how == 'discr':
            reads.append((bi, st[1], st[2]))
        elif not pl[1:]:
            return False      # the whole value goes somewhere else
    roots = [r for r in reads if all(fn.dominates(r[0], o[0]) for o in reads)]
    if len(roots) < 1:
        return False
    bi, target, rv = roots[0]
    return len(target) == 1 and _non_ok_arms_fail(fn, bi, target, rv, sites)


def propagates(prog, sl, fn, call, tolerant=(), removal=False, _d=0):
    """does fn reaching a success site imply that `call` (returning a Result) succeeded?  (`?`, returned, unwrap, an
    Ok-preserving combinator followed by one of those, a match whose failure arms cannot reach success.)  For a removal
    the not-found-tolerant helper is accepted in between: the post-condition "path absent" holds either way."""
    from .lib.discard import ok_on_success
    if not (call.dty or '').startswith('std::result::Result<'):
        return True
    if ok_on_success(prog, fn, call) or _match_propagates(fn, call):
        return True
    if removal and tolerant and _d < 3:
        h = _handed_to(fn, sl, call, tolerant)
        if h is not None:
            return propagates(prog, sl, fn, h, tolerant, removal, _d + 1)
    return False


def swallowed_levels(prog, sl, e, tolerant=(), dispatched=()):
    """[(Fn, Call)] levels of the call chain of effect e (the workspace calls leading to it and the std call itself) whose
    failure can end in a success of the function containing them.  `dispatched`: functions whose failure *kinds* the
    caller is meant to dispatch on (the layer reader: "unparsable metadata" is a row of the dispatch table, not a
    failure); for them it is enough that the error is matched on, not dropped."""
    from .lib.effects import REMOVING
    from .lib.discard import result_fates, verdict
    removal = e.kind in REMOVING or e.kind == 'CHMOD'
    out = []
    levels = [(l.call if isinstance(l, Link) else l) for l in (e.chain or ())]
    if e.call is not None:
        levels.append(e.call.call if isinstance(e.call, Link) else e.call)
    for c in levels:
        if c is None:
            continue
        if c.name in dispatched and verdict(result_fates(prog, c.fn, c)) == 'ok':
            continue
        if not propagates(prog, sl, c.fn, c, tolerant, removal):
            out.append((c.fn, c))
    return out


# ---- every element of a guarded loop -----------------------------------------------------------------------------------
def _same_collection(a, b):
    from .lib.value import canon
    def core(v):
        v = strip(v)
        for _ in range(6):
            if v[0] == 'call' and len(v[2]) == 1 and (v[1] == 'std::iter::IntoIterator::into_iter' or v[1].endswith(('::iter', '::iter_mut', '::deref', '::as_ref', '::borrow'))):
                v = strip(v[2][0])
            else:
                break
        return canon(v)
    return core(a) == core(b)


def runs_for_every_element(E, fn, call):
    """(ok, why): when fn succeeds, `call` (inside a loop of fn) has been executed for every element of the loop's
    collection.  Needed: the call's block dominates every latch of its loop (no `continue` / conditional skips it); the
    loop is left towards a success site only by exhaustion (no `break`); every condition on reaching the loop either
    cannot fail without fn failing (its other edge reaches no success site) or is the emptiness test of the loop's own
    collection (nothing to do for an empty collection)."""
    sl = E.slicer
    loops = [L for L in E.loops(fn) if call.bb in L.body and call.bb != L.header]
    if not loops:
        return False, 'not inside a loop'
    L = min(loops, key=lambda l: len(l.body))
    if len(loops) > 1:
        return False, 'nested loops are not understood'
    if not all(fn.dominates(call.bb, lt) or call.bb == lt for lt in L.latches):
        return False, 'some iterations skip the call'
    sites = {s.bb for s in E.sites(fn)}
    if getattr(L, 'exhaust', None) is None:
        return False, 'the exhaustion edge of the loop was not found'
    for b in L.body:
        for s in fn.succs(b):
            if s in L.body or (b, s) == L.exhaust:
                continue
            if fn.reachable(s) & sites or s in sites:
                return False, 'the loop can be left early towards a success site'
    if sites & L.body:
        return False, 'a success site lies inside the loop'
    for cd in conditions(fn, L.header, sl):
        others = [s for s in fn.succs(cd.sw_bb) if s != cd.target]
        if not any((fn.reachable(s) & sites) or s in sites for s in others):
            continue      # failing this test cannot end in success (`?`, `return Err(..)`)
        if cd.kind == 'bool' and cd.outcome is False and cd.value[0] == 'call' and cd.value[1].endswith('::is_empty') \
                and len(cd.value[2]) == 1 and L.collection is not None and _same_collection(cd.value[2][0], L.collection):
            continue      # `if !xs.is_empty() { for x in xs { .. } }`
        return False, 'the loop is skipped under %r' % (cd,)
    return True, ''


def optional_conditions(E, fn, bb):
    """conditions on reaching bb that are real choices: taking another edge of the test can still end in a success of
    fn (the `Continue` edge of `?`, `if bad { return Err(..) }`, ... are not choices)"""
    sites = {s.bb for s in E.sites(fn)}
    out = []
    for cd in conditions(fn, bb, E.slicer):
        others = [s for s in fn.succs(cd.sw_bb) if s != cd.target]
        if any((fn.reachable(s) & sites) or s in sites for s in others):
            out.append(cd)
    return out


def delete_role(E, roles, hl):
    """the routine that deletes a layer, validated on what it *does*: a libcnb function f(layers_dir, name) -> Result<(), _>
    whose certain effects remove <layers_dir>/<name> and <layers_dir>/<name>.toml.  layer_roles finds it by a literal
    `remove_file(..<name>.toml..)` in its body; when the paths are planned into a Vec first that lands on another
    function (the shared reader also drops a stale TOML), so the discovered role is checked and, if it fails, searched
    again among the functions the handler reaches."""
    from .lib.effects import REMOVING
    from .lib.paths import LayerPaths
    prog = E.prog

    def is_deleter(f):
        if f is None or f.kind == 'Closure' or f.argc < 2 or not f.ret.startswith('std::result::Result<(), '):
            return False
        lp = LayerPaths(lambda v: v[0] == 'param' and v[1] == f.path and v[2] == 0, lambda v: v[0] == 'param' and v[1] == f.path and v[2] == 1)
        ks = {lp.classify(e.path) for e in E.expand(f, 'must') if e.kind in REMOVING and e.path is not None}
        return ('TOML',) in ks and ('DIR',) in ks
    cur = prog.fns.get(roles.get('DELETE') or '')
    if is_deleter(cur):
        return cur.path
    cands = [f.path for f in prog.reach([hl]).values() if f.crate == 'libcnb' and is_deleter(f)]
    return cands[0] if len(cands) == 1 else roles.get('DELETE')


def _is_empty_env_name(n):
    return n == 'std::default::Default::default' or (n.endswith(('::new', '::default')) and '::LayerEnv' in n)


def _is_empty_env(v):
    """`LayerEnv::new()` / `LayerEnv::default()` / `Default::default()` (where a LayerEnv is expected): new() is default()"""
    v = strip(v)
    return v[0] == 'call' and not v[2] and _is_empty_env_name(v[1])


def env_or_default(sl, v):
    """(X, verdict) for a written env value v that is "the payload of the Option X, an empty LayerEnv when X is None",
    whichever way it is spelled: `X.unwrap_or_default()`, `X.unwrap_or_else(LayerEnv::new)` / a closure returning an
    empty env, `X.unwrap_or(LayerEnv::new())`, `X.map_or_else(LayerEnv::new, |e| e)`, `match X { Some(e) => e, None =>
    LayerEnv::new() }` / `if let`.
      'ok'             v is of that form
      'other-default'  the alternative used when X is None is not an empty env (e.g. the previous env)
      'unguarded'      a merge of X's payload and an empty env, but the empty one is not built under `X is None` only
      'shape'          anything else (X is None)"""
    from .lib.guards import conditions
    v = strip(v)
    if v[0] == 'call' and v[2] and v[1].startswith('std::option::Option::'):
        n, a = v[1], v[2]
        if n.endswith('::unwrap_or_default') and len(a) == 1:
            return a[0], 'ok'
        if n.endswith('::unwrap_or') and len(a) == 2:
            return a[0], ('ok' if _is_empty_env(a[1]) else 'other-default')
        if (n.endswith('::unwrap_or_else') and len(a) == 2) or (n.endswith('::map_or_else') and len(a) == 3):
            d = a[1]
            if n.endswith('::map_or_else'):
                # the Some closure must hand its argument through
                r = sl.apply_closure(a[2], (('unknown', 'payload'),)) if a[2][0] in ('closure', 'fnitem') else None
                if r is None or strip(r) != ('unknown', 'payload'):
                    return None, 'shape'
            if d[0] == 'fnitem':
                return a[0], ('ok' if _is_empty_env_name(d[1]) else 'other-default')
            if d[0] == 'closure':
                r = sl.apply_closure(d, ())
                if r is not None:
                    return a[0], ('ok' if _is_empty_env(r) else 'other-default')
            return None, 'shape'
    if v[0] == 'phi' and len(v[1]) == 2:
        empties = [x for x in v[1] if _is_empty_env(x)]
        pays = [x for x in v[1] if x[0] == 'unwrap']
        if len(pays) == 1 and len(empties) == 1:
            X = pays[0][1]
            e = strip(empties[0])
            g = sl.prog.fns.get(e[3][0]) if len(e) == 4 and e[3] else None
            if g is not None:
                for cd in conditions(g, e[3][1], sl):
                    if cd.kind == 'variant' and cd.enum == 'std::option::Option' and cd.outcome == frozenset({'None'}) and \
                            cd.subject is not None and _same_projection(cd.subject, X):
                        return X, 'ok'
            return X, 'unguarded'
        if len(pays) == 1 and len(v[1]) == 2:
            return pays[0][1], 'other-default'
    return None, 'shape'


def _same_projection(a, b):
    """both values are the same field of the result of the same call site (the same expression seen from the function
    that contains it and from a caller it was lifted to: parameters differ, call sites do not)"""
    a, b = strip(a), strip(b)
    while a[0] == 'field' and b[0] == 'field' and a[2] == b[2]:
        a, b = strip(a[1]), strip(b[1])
    return a[0] == 'call' and b[0] == 'call' and a[1] == b[1] and len(a) == 4 and len(b) == 4 and a[3] is not None and a[3] == b[3]


def top_calls(v, name, opaque=()):
    """the distinct calls of `name` in v that are not (part of) an argument of another call of `name` / of an opaque or
    workspace function: in `read(dir, read(dir, n).name)` only the outer call is what the value *is* (std combinators
    such as `ok_or(x, e)` / `map_err(x, f)` are looked through)"""
    out = []

    def go(x):
        if not isinstance(x, tuple) or not x:
            return
        if x[0] == 'call':
            if x[1] == name:
                if x not in out:
                    out.append(x)
                return
            if x[1] in opaque or not x[1].startswith(('std::', 'core::', 'alloc::')):
                return      # what a user callback / an unopened workspace function makes of its arguments is not known
        for y in x:
            if isinstance(y, tuple):
                go(y)
    go(v)
    return out


def levels_to(o, name, site):
    """the calls [entry level .. the call of `name` at `site` = (fn path, bb)] leading from the entry function of Outcome o
    down to that call, read off the call chain of an effect that happens inside it; None when no effect of o does"""
    for e in list(o.must) + list(o.may):
        for i, l in enumerate(e.chain or ()):
            if isinstance(l, Link) and l.call.name == name and (l.call.fn.path, l.call.bb) == site:
                return [(x.call if isinstance(x, Link) else x) for x in e.chain[:i + 1]]
    return None


def optional_guards(E, e):
    """lib.effects.guards_of(E, e) restricted to real choices (see optional_conditions): the decisions, at any level of the
    call chain of effect e (and around the creation of a closure it runs in), under which e can be skipped while the
    function taking the decision still succeeds"""
    from .lib.effects import guards_of
    out = []
    for cd, views, subj in guards_of(E, e):
        f = cd.fn
        sites = {s.bb for s in E.sites(f)} or set(f.return_blocks())
        others = [s for s in f.succs(cd.sw_bb) if s != cd.target]
        if any((f.reachable(s) & sites) or s in sites for s in others):
            out.append((cd, views, subj))
    return out


def peel_some(v):
    """`unwrap(Some(x))` / `unwrap(Ok(x))` / `unwrap(Some(x).filter(p))` -> x   (the payload, when there is one, is x)"""
    for _ in range(8):
        if v[0] == 'unwrap' and v[1][0] == 'agg' and v[1][2] in ('Some', 'Ok') and len(v[1][3]) == 1:
            v = v[1][3][0][1]
        elif v[0] == 'unwrap' and v[1][0] == 'call' and v[1][1] in ('std::option::Option::<T>::filter', 'std::option::Option::<T>::ok_or',
                                                                    'std::option::Option::<T>::ok_or_else', 'std::result::Result::<T, E>::map_err') and v[1][2]:
            v = ('unwrap', v[1][2][0])
        else:
            break
    return v


def reads_given_file(E, name):
    """is `name` a std read of its path argument, or a workspace function that reads the file it is given and mutates
    nothing (`read_toml_file(path)`)"""
    from .lib.effects import VOCAB, MUTATING
    if name in VOCAB:
        return VOCAB[name][0] == 'READ'
    g = E.prog.fns.get(name)
    if g is None:
        return False
    effs = E.expand(g, 'may')
    reads = [e for e in effs if e.kind == 'READ' and e.path is not None and any(x[0] == 'param' and x[1] == g.path for x in _walk(e.path))]
    return bool(reads) and not any(e.kind in MUTATING for e in effs)


# ---- by-value builders -------------------------------------------------------------------------------------------------
def self_mutations(fn):
    """every way a method changes its by-value `self` (local 1) on the normal paths: [(projection, 'assign', bb, rvalue) |
    (projection, 'call', bb, Call)] — a field assignment, or a call receiving `&mut self.<field>` as its receiver.
    None when `self` (or a `&mut` of it) goes anywhere else (the method's effect on the value is then not understood)."""
    reach = fn.reachable(0)
    muts = []
    for d in fn.partial_defs(1):
        if d[1] in reach:
            muts.append((tuple(d[4][1:]), 'assign', d[1], d[3]))
    for bi, kind, idx, mode, pl in fn.uses_of(1):
        if bi not in reach or kind == 'drop':
            continue
        if kind == 'stmt' and mode == 'refmut':
            tgt = fn.blocks[bi]['s'][idx][1]
            if len(tgt) != 1:
                return None
            users = [u for u in fn.uses_of(tgt[0]) if u[1] != 'drop' and u[0] in reach]
            if len(users) != 1 or users[0][1] != 'arg' or users[0][2] != 0:
                return None
            c = fn.call_at(users[0][0])
            if c is None or c.indirect:
                return None
            muts.append((tuple(x for x in pl[1:] if x != '*'), 'call', c.bb, c))
        elif kind == 'stmt':
            continue       # reads / the final `move self`
        else:
            return None    # self handed to a call
    return muts


def sbom_name_table(sl, f):
    """{format variant: file name with '{name}' for the base-name parameter} for the SBOM path constructor
    `f(format, dir, name) = dir.join(<text built from name and a per-format literal>)`, or None when the result is not of
    that form (the directory must be the given one, the name one path component)"""
    v = strip(sl.inline_deep(sl.local(f, 0)))
    if v[0] == 'concat' and f.ret == 'std::path::PathBuf':
        # `let mut p = dir.to_path_buf(); p.push(name); p` is `dir.join(name)` (std defines join that way); the only
        # appender of a PathBuf that lib.value folds into a concat is PathBuf::push
        from .lib.value import concat_parts
        parts = list(concat_parts(v))
        if len(parts) == 2:
            v = ('call', 'std::path::Path::join', (peel_views(parts[0]), parts[1]))
    if not (v[0] == 'call' and v[1] in ('std::path::Path::join', 'std::path::PathBuf::join') and len(v[2]) == 2) or f.argc != 3:
        return None
    d = strip(v[2][0])
    if not (d[0] == 'param' and d[1] == f.path and d[2] == 1):
        return None
    name = strip(v[2][1])
    if name[0] == 'phi' and len(v) == 4 and v[3] and v[3][0] == f.path:
        # `match format { A => format!(..), B => format!(..) }`: one definition per arm, told apart by the decisions on
        # the format parameter that dominate it
        from .lib.tables import arm_defs, phi_local_of
        jc = f.call_at(v[3][1])
        loc = phi_local_of(f, jc.args[1], True) if jc is not None and len(jc.args) == 2 else None
        if loc is None:
            return None
        arms = []
        for bi, val, conds in arm_defs(f, loc, sl):
            cs = [cd for cd in conds if cd.kind == 'variant' and cd.subject is not None and strip(cd.subject)[0] == 'param'
                  and strip(cd.subject)[1] == f.path and strip(cd.subject)[2] == 0]
            if len(cs) != 1:
                return None
            arms.append((tuple(sorted(cs[0].outcome)), val))
            enum = cs[0].enum
        name = ('select', ('param', f.path, 0, f.local_name(1)), enum, tuple(arms))
    adt = None
    for x in _walk(name):
        if x[0] == 'select' and strip(x[1])[0] == 'param' and strip(x[1])[1] == f.path and strip(x[1])[2] == 0:
            adt = sl.prog.adts.get(x[2])
    if adt is None:
        return None

    def render(p, variant):
        if isinstance(p, str):
            return p
        q = strip(p)
        if q[0] == 'const':
            return q[1] if isinstance(q[1], str) else None
        if q[0] == 'param' and q[1] == f.path and q[2] == 2:
            return '{name}'
        if q[0] == 'fmt':
            parts = [render(x, variant) for x in q[1]]
        elif q[0] == 'concat':
            parts = [render(q[1], variant)] + [render(x, variant) for x in q[2]]
        elif q[0] == 'select' and strip(q[1])[0] == 'param' and strip(q[1])[1] == f.path and strip(q[1])[2] == 0:
            arms = [val for names, val in q[3] if variant in names]
            parts = [render(arms[0], variant)] if len(arms) == 1 else [None]
        else:
            return None
        return None if any(x is None for x in parts) else ''.join(parts)
    out = {}
    for var in adt['variants']:
        r = render(name, var['name'])
        if r is None:
            return None
        out[var['name']] = r
    return out


def certain_for_every_element(E, fn, top, is_target):
    """(ok, why): when fn succeeds, an effect satisfying `is_target` has happened for every element of the collection that
    the statement `top` (a call of fn: inside a `for` loop, or an iterator consumer such as try_for_each) ranges over.
      loop      runs_for_every_element(top) and the effect is certain within one execution of `top`
      consumer  the library's MUST expansion of the consumer yields the effect FORALL elements (short-circuiting consumers
                count only when their failure cannot end in success, stopped / filtered stages do not count), and the
                consumer itself is only skipped for an empty collection"""
    sl = E.slicer
    tmp = []
    E._expand_call(fn, top, None, 'must', {}, (), (fn.path,), tmp)
    hits = [q for q in tmp if is_target(q)]
    if any(top.bb in L.body and top.bb != L.header for L in E.loops(fn)):
        ok, why = runs_for_every_element(E, fn, top)
        if ok and not hits:
            return False, 'the effect is conditional inside the loop body'
        return ok, why
    if not hits:
        return False, 'the effect is not certain for the elements the statement ranges over'
    fa = hits[0].forall
    if fa is None:
        return False, 'the statement does not range over a collection'
    for cd in optional_conditions(E, fn, top.bb):
        if cd.kind == 'bool' and cd.outcome is False and cd.value[0] == 'call' and cd.value[1].endswith('::is_empty') \
                and len(cd.value[2]) == 1 and _same_collection(cd.value[2][0], fa):
            continue
        return False, 'the statement is skipped under %r' % (cd,)
    return True, ''
