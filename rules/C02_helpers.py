"""Helpers of C02: an effect enumerator that understands two ways in which a `Vec` local carries work from one place
of a function to another, so that the obligations of C02 (what must be removed / written, where every env scope is
persisted) are stated on *what happens to which path* and not on one spelling of the loops.

  VecEffects(prog, sl)   drop-in replacement of lib.effects.Effects with

    grown collections    `let mut rows = vec![a, b]; rows.push(c); rows.extend(xs.iter().map(f)); for r in rows { body }`
                         runs `body` for a, b, c and f(x) for every x of xs: the loop's collection is the initial value
                         followed by everything appended to that local before the loop (lib.value ignores `&mut` growth
                         of a Vec, so the plain enumerator only sees a and b).

    drained work-lists   `let mut todo = Vec::new(); if c { todo.push(x) } while let Some(t) = todo.last_mut() { ..
                         todo.push(y) .. if let Some(d) = todo.pop() { remove(d)? } }`: the function can only succeed
                         with `todo` empty, elements leave it only through `pop`, and every popped element is handed
                         to an effect that must succeed before the loop continues.  Hence on every success path that
                         pushed x the effect has happened on x (explicit-stack form of a recursive traversal).  The
                         derived MUST effect is combined with what happened on the paths that did *not* push (per
                         outcome of the helper whose result decides the push), exactly like lib.effects combines the
                         alternatives of several success sites ("unlink the symlink | empty and rmdir" agree on
                         REMOVE(path)).

  writer_scope_table(prog, sl)   layer_env_common.writer_scope_table on VecEffects.
"""
from .lib import iters
from .lib.effects import Effects, Eff, Link, eff_key, outcomes, vocab_lookup
from .lib.guards import conditions
from .lib.mir import op_place
from .lib.paths import strip

PUSH_ONE = ('std::vec::Vec::<T, A>::push', 'std::collections::VecDeque::<T, A>::push_back')
PUSH_MANY = ('std::iter::Extend::extend', 'std::vec::Vec::<T, A>::extend_from_slice', 'std::vec::Vec::<T, A>::append')
FRESH = ('::new', '::with_capacity', '::default')


def _deref_only(pl):
    return pl is not None and all(x == '*' for x in pl[1:])


def _mut_ref_targets(fn):
    """{ref local: local it mutably borrows} for `_r = &mut _l` statements"""
    refs = {}
    for b in fn.blocks:
        for st in b['s']:
            if st[0] == '=' and len(st[1]) == 1 and st[2]['r'] == 'ref' and st[2].get('mut') and _deref_only(st[2]['p']):
                refs[st[1][0]] = st[2]['p'][0]
    return refs


def _is(c, names):
    return not c.indirect and (c.decl in names or c.res in names)


class VecEffects(Effects):
    def __init__(self, prog, slicer, vocab=None, max_depth=10):
        Effects.__init__(self, prog, slicer, vocab, max_depth)
        self._grown = {}
        self._drained = {}

    # ---- drained work-lists -----------------------------------------------------------------------------------
    def drained(self, fn):
        if fn.path not in self._drained:
            self._drained[fn.path] = None
            self._drained[fn.path] = find_drained(self, fn)
        return self._drained[fn.path]

    def expand(self, fn, mode='must', site_bbs=None, mapping=None, chain=(), _stack=None):
        out = Effects.expand(self, fn, mode, site_bbs, mapping, chain, _stack)
        st = _stack or ()
        if mode == 'must' and site_bbs is None and fn.path not in st and len(st) <= self.max_depth:
            d = self.drained(fn)
            if d is not None:
                out = _add_drained(self, fn, d, out, mapping or {}, chain, st + (fn.path,))
        return out

    # ---- grown collections ------------------------------------------------------------------------------------
    def _iterated_locals(self, fn, next_call):
        """locals the iterator of a loop was made from: `next(&mut it)`, `it = into_iter(move v)`, `v = move w` ..."""
        pl = op_place(next_call.args[0]) if next_call.args else None
        if not _deref_only(pl):
            return []
        cur, chain = pl[0], []
        for _ in range(12):
            if cur in chain:
                break
            chain.append(cur)
            ds = fn.whole_defs(cur)
            if len(ds) != 1:
                break
            d = ds[0]
            nxt = None
            if d[0] == 'stmt':
                rv = d[3]
                if rv['r'] == 'use':
                    nxt = op_place(rv['o'])
                elif rv['r'] == 'ref':
                    nxt = rv['p']
            elif d[0] == 'call':
                cc = d[3]
                if not cc.indirect and len(cc.args) == 1 and (cc.decl == 'std::iter::IntoIterator::into_iter' or
                                                             (iters._is_source(cc.decl) and cc.decl.endswith(iters.SAME_ELEMS))
                                                             or cc.decl in ('std::ops::Deref::deref', 'std::ops::DerefMut::deref_mut')):
                    nxt = op_place(cc.args[0])
            if not _deref_only(nxt):
                break
            cur = nxt[0]
        return chain

    def grown_alts(self, fn, L):
        """alternatives [(element, forall, filtered)] of loop L when its collection local was appended to before the loop
        (None: nothing appended, the plain collection value says it all)"""
        key = (fn.path, L.header)
        if key in self._grown:
            return self._grown[key]
        self._grown[key] = None
        locs = set(self._iterated_locals(fn, L.next_call))
        if not locs:
            return None
        refs = _mut_ref_targets(fn)
        rpo = {b: i for i, b in enumerate(fn._rpo())}
        segs = []
        for c in sorted(fn.calls, key=lambda c: rpo.get(c.bb, 10 ** 6)):
            if not (_is(c, PUSH_ONE) or _is(c, PUSH_MANY)) or len(c.args) != 2:
                continue
            pl = op_place(c.args[0])
            if not (pl and len(pl) == 1 and refs.get(pl[0]) in locs):
                continue
            if c.bb in L.body or L.header not in fn.reachable(c.bb):
                continue
            segs.append(c)
        if not segs:
            return None
        sl = self.slicer
        base = L.collection
        b0 = strip(base) if base is not None else None
        if b0 is not None and b0[0] == 'call' and b0[1].endswith(FRESH) and not b0[2]:
            al = []
        else:
            al = list(iters.alts(sl, base))
        for c in segs:
            v = sl.operand(fn, c.args[1])
            always = fn.dominates(c.bb, L.header)
            outer = [l for l in self.loops(fn) if c.bb in l.body and c.bb != l.header]
            if outer:
                # appended inside an earlier loop: one element per visited element of that loop
                inner = min(outer, key=lambda l: len(l.body))
                every = always or all(fn.dominates(c.bb, lt) or c.bb == lt for lt in inner.latches)
                if _is(c, PUSH_ONE):
                    al.append((v, inner.collection, not every))
                else:
                    al.extend((e, inner.collection, True) for e, f, fl in iters.alts(sl, v))
            elif _is(c, PUSH_ONE):
                al.append((v, None, not always))
            else:
                al.extend((e, f, fl or not always) for e, f, fl in iters.alts(sl, v))
        self._grown[key] = al
        return al

    def _loop_around(self, fn, c):
        best = None
        for L in self.loops(fn):
            if c.bb in L.body and c.bb != L.header and L.collection is not None:
                if best is None or len(L.body) < len(best.body):
                    best = L
        return best

    def _unrollable(self, fn, c):
        best = self._loop_around(fn, c)
        if best is not None and self.grown_alts(fn, best) is not None:
            return best.collection
        return Effects._unrollable(self, fn, c)

    def _expand_call(self, fn, c, forall, mode, mapping, chain, stack, out):
        if forall is not None:
            L = self._loop_around(fn, c)
            al = self.grown_alts(fn, L) if (L is not None and L.collection is forall) else None
            if al is not None:
                key = iters.loop_key(forall)
                for elem, fa, filtered in al:
                    if filtered and mode == 'must':
                        continue
                    m = dict(mapping)
                    m['__repl__'] = list(mapping.get('__repl__', ())) + [(key, self.subst(elem, mapping))]
                    self._expand_call1(fn, c, fa, mode, m, chain, stack, out)
                return
        Effects._expand_call(self, fn, c, forall, mode, mapping, chain, stack, out)


# ---- drained work-lists ----------------------------------------------------------------------------------------------
POP = ('std::vec::Vec::<T, A>::pop',)
PEEK = ('core::slice::<impl [T]>::last', 'core::slice::<impl [T]>::last_mut', 'core::slice::<impl [T]>::first')
PEEK_MUT = ('core::slice::<impl [T]>::last_mut',)
MEASURE = ('std::vec::Vec::<T, A>::is_empty', 'std::vec::Vec::<T, A>::len', 'core::slice::<impl [T]>::is_empty',
           'core::slice::<impl [T]>::len')
DEREF = ('std::ops::Deref::deref', 'std::ops::DerefMut::deref_mut')


class Drained:
    """facts about one drained work-list of a function (see module doc)"""
    __slots__ = ('local', 'effect', 'kind', 'proj', 'pushes', 'exit_bb')


def _option_edges(fn, c):
    """(block entered when the Option returned by call c is Some, block entered when it is None) or None"""
    if c.target is None or not c.dest or len(c.dest) != 1:
        return None
    blk = fn.blocks[c.target]
    t = blk['t']
    if t['t'] != 'switch':
        return None
    pl = op_place(t['o'])
    if not pl or len(pl) != 1:
        return None
    d = [st for st in blk['s'] if st[0] == '=' and st[1] == [pl[0]] and st[2]['r'] == 'discr' and st[2]['p'] == [c.dest[0]]]
    if len(d) != 1 or d[0][2].get('enum') != 'std::option::Option':
        return None
    vm = {n: v for v, n in d[0][2]['variants']}
    tg = dict((v, b) for v, b in t['targets'])
    some = tg.get(vm.get('Some'), t['else'])
    none = tg.get(vm.get('None'), t['else'])
    if some == none:
        return None
    return some, none


def _option_variant(sl, v):
    """'Some' | 'None' | None for the success payload of a returned Result<Option<_>> / Option<_> value"""
    for cand in (v, sl.mk_unwrap(v, 1)):
        x = strip(cand) if cand is not None else None
        if x is None:
            continue
        if x[0] == 'agg' and x[1] == 'std::option::Option' and x[2] in ('Some', 'None'):
            return x[2]
        if x[0] == 'call' and x[1] in ('std::prelude::v1::Some', 'std::option::Option::Some') and len(x[2]) == 1:
            return 'Some'
    return None


def _project(v, proj):
    if proj is None:
        return v
    if v[0] == 'tuple' and proj.isdigit() and int(proj) < len(v[1]):
        return v[1][int(proj)]
    if v[0] == 'agg':
        d = dict(v[3])
        if proj in d:
            return d[proj]
    return ('field', v, proj)


def find_drained(E, fn):
    """Drained facts of fn, or None.  Every clause below is needed for the conclusion "when fn succeeds, the effect has
    happened on (the projection of) every value pushed"; if one cannot be established nothing is derived."""
    from .lib.effects import error_sites
    from .lib.guards import edge_dominates
    from .lib.discard import result_fates, verdict
    sl = E.slicer
    if not any(_is(c, POP) for c in fn.calls):
        return None
    sites = [s.bb for s in E.sites(fn)]
    if not sites:
        return None
    for W in range(len(fn.locals)):
        if not (fn.local_ty(W) or '').startswith(('std::vec::Vec<',)):
            continue
        wd = fn.whole_defs(W)
        # (1) starts empty
        if len(wd) != 1 or wd[0][0] != 'call' or wd[0][3].indirect or not wd[0][3].name.endswith(FRESH) or wd[0][3].args:
            continue
        # (2) the list is only touched through push / pop / peek / measure (every other use could add or drop elements)
        refs, ok = set(), True
        for bi, how, idx, mode, pl in fn.uses_of(W):
            if how == 'drop':
                continue
            if how == 'stmt' and mode in ('ref', 'refmut') and pl == [W]:
                refs.add(fn.blocks[bi]['s'][idx][1][0])
            else:
                ok = False
        work, seen = list(refs), set()
        touching = []
        while ok and work:
            r = work.pop()
            if r in seen:
                continue
            seen.add(r)
            for bi, how, idx, mode, pl in fn.uses_of(r):
                if how == 'arg' and idx == 0 and _deref_only(pl):
                    c = fn.call_at(bi)
                    if _is(c, DEREF) and c.dest and len(c.dest) == 1:
                        work.append(c.dest[0])
                    elif _is(c, PUSH_ONE) or _is(c, POP) or _is(c, PEEK) or _is(c, MEASURE):
                        touching.append(c)
                    else:
                        ok = False
                elif how == 'stmt' and mode in ('ref', 'refmut') and _deref_only(pl) and len(fn.blocks[bi]['s'][idx][1]) == 1:
                    work.append(fn.blocks[bi]['s'][idx][1][0])     # re-borrow
                elif how == 'drop':
                    continue
                else:
                    ok = False
        if not ok:
            continue
        pops = [c for c in touching if _is(c, POP)]
        pushes = [c for c in touching if _is(c, PUSH_ONE)]
        if not pops or not pushes:
            continue
        # (3) every popped element is handed to one effect that must have succeeded before the list is touched again or
        #     the function succeeds
        errs = set(error_sites(fn))
        tbbs = {c.bb for c in touching}
        found = None
        for p in pops:
            edges = _option_edges(fn, p)
            if edges is None:
                found = None
                break
            some_bb = edges[0]
            hit = None
            for r in fn.calls:
                ve = vocab_lookup(r, E.vocab)
                if not ve or ve[1] is None or ve[1] >= len(r.args) or not fn.dominates(some_bb, r.bb):
                    continue
                pv = strip(sl.operand(fn, r.args[ve[1]]))
                proj = None
                if pv[0] == 'field':
                    proj, pv = pv[2], strip(pv[1])
                if not (pv[0] == 'call' and len(pv) == 4 and pv[3] == (fn.path, p.bb)):
                    continue
                stops = {r.bb} | errs
                skipping = fn.reachable(some_bb, stop=stops) - stops
                if any(b in sites or b in tbbs or fn.blocks[b]['t']['t'] == 'ret' for b in skipping):
                    continue
                if verdict(result_fates(E.prog, fn, r)) != 'ok':
                    continue
                hit = (r, ve[0], proj)
                break
            if hit is None or (found is not None and (found[1], found[2]) != (hit[1], hit[2])):
                found = None
                break
            found = hit
        if found is None:
            continue
        # (4) nothing reaches into the part of an element the effect is applied to while it waits in the list
        for c in touching:
            if not _is(c, PEEK_MUT):
                continue
            if not c.dest or len(c.dest) != 1:
                ok = False
                break
            elems = []
            for bi, how, idx, mode, pl in fn.uses_of(c.dest[0]):
                if how == 'stmt' and mode == 'discr':
                    continue
                if how == 'stmt' and mode in ('c', 'm') and pl[1:] == ['@Some', '.0'] and len(fn.blocks[bi]['s'][idx][1]) == 1:
                    elems.append(fn.blocks[bi]['s'][idx][1][0])
                    continue
                ok = False
            for x in elems:
                for bi, how, idx, mode, pl in fn.uses_of(x):
                    fld = [q for q in pl[1:] if q != '*']
                    if found[2] is not None and fld and fld[0] != '.' + found[2]:
                        continue          # another component of the element
                    if mode in ('ref', 'c') and how == 'stmt':
                        continue          # read-only
                    ok = False
        if not ok:
            continue
        # (5) fn succeeds only with the list observed empty and nothing pushed afterwards
        exit_bb = None
        for s in sites:
            good = False
            for t in touching:
                if not (_is(t, POP) or _is(t, PEEK)):
                    continue
                edges = _option_edges(fn, t)
                if edges is None or not edge_dominates(fn, t.target, edges[1], s):
                    continue
                after = fn.reachable(edges[1])
                if any(q.bb in after and s in fn.reachable(q.bb) for q in pushes):
                    continue
                good = True
                exit_bb = edges[1] if exit_bb is None else exit_bb
            if not good:
                ok = False
        if not ok:
            continue
        d = Drained()
        d.local, d.effect, d.kind, d.proj, d.exit_bb = W, found[0], found[1], found[2], exit_bb
        d.pushes = [(q, _project(strip(sl.operand(fn, q.args[1])), found[2])) for q in pushes if not fn.in_loop(q.bb)]
        return d
    return None


def _drained_alternatives(E, fn, d, q, mapping, chain, stack):
    """effects that happened on the success paths of fn that did *not* run push q: [[Eff..]..] (one list per alternative),
    [] when q runs on every success path, None when the paths around q are not understood"""
    sl = E.slicer
    from .lib.guards import edge_dominates
    sites = [s.bb for s in E.sites(fn)]
    if all(fn.dominates(q.bb, s) for s in sites):
        return []
    conds = conditions(fn, q.bb, sl)
    own = [cd for cd in conds if not all(edge_dominates(fn, cd.sw_bb, cd.target, s) for s in sites)]
    if len(own) != 1:
        return None
    cd = own[0]
    if cd.kind != 'variant' or cd.enum != 'std::option::Option' or cd.subject is None:
        return None
    # once the decision is taken, the push is on every way to success
    if any(s in fn.reachable(cd.target, stop={q.bb}) - {q.bb} for s in sites):
        return None
    subj = cd.subject
    n = 0
    while subj[0] == 'unwrap':
        subj, n = subj[1], n + 1
    if not (subj[0] == 'call' and len(subj) == 4 and subj[3] and subj[3][0] == fn.path and subj[1] in E.prog.fns):
        return None
    hc = fn.call_at(subj[3][1])
    h = E.prog.fns[subj[1]]
    if hc is None or h.path in stack or not all(fn.dominates(hc.bb, s) for s in sites):
        return None
    m = E.call_mapping(fn, hc, h, mapping)
    alts = []
    for o in outcomes(E, h, m, chain + (Link(hc, mapping),), stack):
        v = o.value
        for _ in range(max(n - 1, 0)):
            v = sl.mk_unwrap(v, 1)
        var = _option_variant(sl, v)
        if var is not None and var in cd.outcome:
            continue      # this outcome of the helper leads to the push
        alts.append(o.must)
    return alts


def _add_drained(E, fn, d, out, mapping, chain, stack):
    have = {eff_key(e) for e in out}
    extra = []
    for q, pv in d.pushes:
        alts = _drained_alternatives(E, fn, d, q, mapping, chain, stack)
        if alts is None:
            continue
        path = E.subst(pv, mapping)
        e = Eff(d.kind, path, d.effect, chain, True, None, (path,))
        e.mapping = mapping
        k = eff_key(e)
        if k in have or not all(any(eff_key(x) == k for x in al) for al in alts):
            continue
        have.add(k)
        extra.append(e)
    if not extra:
        return out

    def own_bb(e):
        lk = e.chain[len(chain)] if len(e.chain) > len(chain) else e.call
        return lk.bb if lk is not None else None
    cut = len(out)
    for i, e in enumerate(out):
        b = own_bb(e)
        if b is not None and d.exit_bb is not None and fn.dominates(d.exit_bb, b):
            cut = i
            break
    return out[:cut] + extra + out[cut:]


def writer_scope_table(prog, sl):
    """layer_env_common.writer_scope_table (scope -> directory components, from the WRITE effects of write_to_layer_dir)
    on VecEffects: rows of a (dir, delta) table that are appended to the table (`push`, `extend(map over self.process)`)
    count like the literal rows."""
    from . import layer_env_common as L
    L.resolve_roles(prog, sl)
    f = prog.fn(L.W_LAYER)
    root = L.param_pred(f, 1)
    E = VecEffects(prog, sl)
    table = {}
    rows = []
    for e in E.expand(f, 'may'):
        if e.kind != 'WRITE' or e.path is None:
            continue
        cs = L.comps(e.path, root)
        scope, coll = L._entries_scope(f, e.path)
        if scope is None and e.args:
            for a in e.args[1:]:
                scope, coll = L._entries_scope(f, a)
                if scope is not None:
                    break
        dirs = None
        if cs is not None and len(cs) >= 1:
            dirs = cs[:-1]
            if coll is not None and dirs:
                last = dirs[-1]
                if not isinstance(last, str):
                    c2, p2 = L.loop_element(last)
                    if c2 == coll and p2 == ('0',):
                        dirs = dirs[:-1] + ('<key>',)
        rows.append((e, scope, dirs, None, e.path))
        if scope is not None and dirs is not None and all(isinstance(d, str) for d in dirs):
            if scope in table and table[scope] != dirs:
                table[scope] = None    # one scope persisted in two places
            else:
                table[scope] = dirs
        elif scope is not None:
            table.setdefault(scope, None)
    return f, table, rows
