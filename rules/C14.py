"""C14 — composite package descriptors are normalised without losing dependencies.

Decided from compiler facts, on meaning rather than spelling (rules/C14_helpers.py):
  R1 libcnb: replacement  case analysis of buildpack_id_from_libcnb_dependency / replace_libcnb_uri (combinator chains,
                          `match`, `let .. else`, `?` and private helpers give the same cases): the id is parsed from the
                          URI path exactly when the scheme is present and == "libcnb"; a parse error is returned and nothing
                          else happens without a successful parse; the id is looked up in the id->path map;
                          missing => Err(MissingBuildpackPath(id)); found => dependency built from that path
  R2 one-to-one           the `dependencies` of the success payload (normal form: private helpers inlined) are made from
                          the input's element by element: an iterator pipeline in which only `map` occurs (no
                          filter/skip/take/rev/dedup/flat_map), or a fresh Vec with exactly one push per iteration of a
                          `for` loop over the input list that reaches success only through iterator exhaustion
  R3 verbatim arms        non-libcnb dependencies (pass 1) and dependencies with any scheme (pass 2) are returned
                          as a clone of the input; only scheme-less URIs are rewritten (cases of the element mapping)
  R4 struct update        both result descriptors take `buildpack` and `platform` from the input descriptor
  R5 absolutise           rewritten only when relative (is_relative == !is_absolute), joined onto the parent of the source
                          package.toml; normalize_path per-component effects (for loop or fold/for_each closure):
                          CurDir -> nothing, ParentDir -> pop, Normal / RootDir -> push
  R6 written              the normalised descriptor is what is written to <destination>/package.toml (`?`)
Not decided: that the resulting string denotes the same file (URI escaping by uriparse), "parses again".
"""
from .lib.discard import result_fates, verdict
from .lib.effects import Effects, guards_of
from .lib.paths import strip
from .lib.value import canon, vstr, walk
from .C14_helpers import Cases, NEG, POS, mentions, sequence_of, shape_sig, shape_vals

PD = 'libcnb_package::package_descriptor::'
UTIL = 'libcnb_package::util::'


def is_param(v, fn, i):
    v = strip(v)
    return v[0] == 'param' and v[1] == fn.path and v[2] == i


def atoms_values(cases):
    """every value mentioned by the guards and results of a case list"""
    for atoms, sh in cases:
        for a in atoms:
            yield from walk(a)
        for leaf in shape_vals(sh):
            yield from walk(leaf)


def show(cases):
    sg = shape_sig

    def at(a):
        if a[0] == 'is':
            return '%s is %s' % (vstr(a[1])[:50], a[2] if isinstance(a[2], str) else '|'.join(sorted(a[2])))
        if a[0] == 'bool' and a[1][0] == 'eq':
            return '%s %s %s' % (vstr(a[1][1])[:40], '==' if a[2] else '!=', vstr(a[1][2])[:20])
        if a[0] == 'bool':
            return '%s%s' % ('' if a[2] else '!', vstr(a[1])[:50])
        if a[0] == 'nall':
            return '!(%s)' % ' & '.join(at(x) for x in a[1])
        return str(a[0])
    return '; '.join('[%s] => %s' % (', '.join(at(a) for a in atoms), sg(sh)) for atoms, sh in cases)[:400]


def run(ctx, rep):
    prog, sl = ctx.prog, ctx.slicer
    for r, d in (('R1', 'libcnb: URIs replaced by the looked-up path or an error'), ('R2', 'dependency list mapped one-to-one, in order'),
                 ('R3', 'other URIs copied verbatim'), ('R4', 'buildpack and platform taken from the input'), ('R5', 'lexical absolutisation shape'), ('R6', 'normalised descriptor is written')):
        rep.rule(r, d)
    rep.not_decided = ['denotation of the normalised path string (URI escaping by uriparse)', 'that the written file parses again (toml)']
    w = lambda f: '%s:%d' % (f.file, f.line)
    RU, IDF = PD + 'replace_libcnb_uri', PD + 'buildpack_id_from_libcnb_dependency'
    # ---- R2 / R4 for both passes --------------------------------------------------------------------------
    # Stated on the success payload of the pass in normal form (private helpers inlined, `x.map(f)` / `Ok(f(x?))` alike):
    # a PackageDescriptor whose `dependencies` are made element by element from the input's (iterator pipeline or push loop).
    seqs = {}
    for name, elem_fn in (('replace_libcnb_uris', RU), ('absolutize_dependency_paths', None)):
        f = prog.fn(PD + name)
        rep.analysed(f)
        nf = sl.mk_unwrap(sl.inline_deep(sl.local(f, 0), keep=(RU, IDF, UTIL + 'absolutize_path')), 1)
        bv = strip(nf)
        fl = dict(bv[3]) if bv[0] == 'agg' and (bv[1] or '').endswith('PackageDescriptor') else {}
        seq = sequence_of(prog, sl, f, fl['dependencies']) if 'dependencies' in fl else None
        seqs[name] = seq
        src = strip(seq.coll) if seq is not None else ('unknown',)
        shape = seq is not None and seq.one_to_one and src[0] == 'field' and src[2] == 'dependencies' and is_param(src[1], f, 0)
        rep.check(shape, 'R2', name, w(f), 'one output dependency per input dependency, in order (%s)' % (seq.kind if seq else '-'),
                  '%s does not map the dependency list one-to-one: %s over %s' % (name, (seq.why or seq.kind) if seq is not None else 'result is ' + vstr(bv)[:80], vstr(src)[:60]))
        src_of = lambda x: strip(x)[0] == 'field' and is_param(strip(x)[1], f, 0) and strip(x)[2]
        good = bool(fl) and src_of(fl.get('buildpack', ('unknown',))) == 'buildpack' and src_of(fl.get('platform', ('unknown',))) == 'platform' and \
            seq is not None and seq.kind is not None
        rep.check(good, 'R4', name, w(f), 'buildpack and platform copied from the input, dependencies = mapped list', '%s does not preserve buildpack/platform' % name)
        if elem_fn:
            ev = strip(seq.mapped) if seq is not None and seq.mapped is not None else ('unknown',)
            rep.check(ev[0] == 'call' and ev[1] == elem_fn and canon(ev[2][0]) == canon(seq.elem), 'R2', name + '/element', w(f),
                      'each element -> %s(element)' % elem_fn.split('::')[-1], 'element mapping is ' + vstr(ev)[:100])
    # ---- R1 / R3 : replace_libcnb_uri -----------------------------------------------------------------------
    # Case analysis of the function (C14_helpers.Cases): which results are produced under which decisions, whether the code
    # says `opt.map_or(Ok(dep.clone()), |id| ..)`, `let Some(id) = opt else { return Ok(dep.clone()) }` or `match`.
    ru = prog.fn(RU)
    rep.analysed(ru)
    for g in prog.closures_of(ru):
        rep.analysed(g)
    cs = Cases(prog, sl, ru, stop=(IDF,)).fn_cases(ru)
    idcs = {canon(x) for x in atoms_values(cs) if x[0] == 'call' and x[1] == IDF}
    idc = next(iter(idcs)) if len(idcs) == 1 else None
    id_ok = idc is not None and len(idc[2]) == 1 and is_param(idc[2][0], ru, 0)
    failed = [c for c in cs if ('is', idc, NEG) in c[0]]
    parsed = [c for c in cs if ('is', idc, NEG) not in c[0]]
    ok = id_ok and bool(failed) and bool(parsed) and all(sh[0] == 'Err' and mentions(sh, ('unwrap_err', idc)) for _, sh in failed) and \
        all(('is', idc, POS) in atoms for atoms, _ in parsed)
    rep.check(ok, 'R1', 'id-parse-propagated', w(ru), 'id parse error propagated; everything else happens only after a successful parse', 'replace_libcnb_uri: ' + show(cs))
    ido = ('unwrap', idc)
    idv = ('unwrap', ido)
    other = [c for c in cs if ('is', ido, NEG) in c[0]]
    good_verbatim = id_ok and bool(other) and all(sh[0] == 'Ok' and sh[1][0] == 'val' and is_param(sh[1][1], ru, 0) for _, sh in other)
    rep.check(good_verbatim, 'R3', 'pass1/non-libcnb', w(ru), 'non-libcnb dependency => Ok(clone of the input)', 'non-libcnb dependencies are not copied verbatim: ' + show(other or cs))
    libcnb = [c for c in cs if ('is', ido, POS) in c[0]]
    gets = {canon(x) for x in atoms_values(libcnb) if x[0] == 'call' and x[1].endswith('BTreeMap::<K, V, A>::get') and len(x[2]) == 2
            and is_param(x[2][0], ru, 1) and canon(x[2][1]) == idv}
    get = next(iter(gets)) if len(gets) == 1 else None
    missing, found, stray = [], [], []
    for atoms, sh in libcnb:
        if get is not None and ('is', get, NEG) in atoms:
            missing.append(sh[0] == 'Err' and any(y[0] == 'agg' and y[2] == 'MissingBuildpackPath' and canon(dict(y[3]).get('0')) == idv for leaf in shape_vals(sh) for y in walk(leaf)))
        elif get is not None and ('is', get, POS) in atoms:
            t = sl._ok_core(sh[1]) if sh[0] == 'val' else ('unknown',)
            found.append(t[0] == 'call' and t[1].endswith('::try_from') and 'PackageDescriptorDependency as std::convert::TryFrom<' in t[1] and
                         len(t[2]) == 1 and canon(t[2][0]) == ('unwrap', get))
        else:
            stray.append(sh)
    good_lookup = id_ok and bool(missing) and bool(found) and all(missing) and all(found) and not stray
    rep.check(good_lookup, 'R1', 'lookup-or-error', w(ru), 'id looked up in the map; missing => Err(MissingBuildpackPath(id)) propagated; found => dependency from that path',
              'libcnb: replacement is not map.get(id) -> MissingBuildpackPath(id) on absence -> try_from(path): ' + show(libcnb or cs))
    # scheme test: the id is parsed from the URI path exactly when the scheme is present and equals "libcnb"
    idf = prog.fn(IDF)
    rep.analysed(idf)
    ics = Cases(prog, sl, idf).fn_cases(idf)
    is_uri = lambda x: strip(x)[0] == 'field' and strip(x)[2] == 'uri' and is_param(strip(x)[1], idf, 0)
    schemes = {canon(x) for x in atoms_values(ics) if x[0] == 'call' and x[1].endswith('::scheme') and len(x[2]) == 1 and is_uri(x[2][0])}
    parses = {canon(x) for x in atoms_values(ics) if x[0] == 'call' and x[1].endswith('::parse') and len(x[2]) == 1 and strip(x[2][0])[0] == 'call' and
              strip(x[2][0])[1].endswith('::path') and is_uri(strip(x[2][0])[2][0])}
    sch = next(iter(schemes)) if len(schemes) == 1 else None
    prs = next(iter(parses)) if len(parses) == 1 else None

    def lt(a):
        """one of the two conjuncts of `scheme is Some(s) and s.as_str() == "libcnb"`"""
        if a == ('is', sch, POS):
            return 1
        if a[0] == 'bool' and a[2] is True and a[1][0] == 'eq':
            x, y = a[1][1], a[1][2]
            if x == ('const', 'libcnb'):
                x, y = y, x
            if y == ('const', 'libcnb') and x[0] == 'call' and x[1].endswith('::as_str') and len(x[2]) == 1 and x[2][0] == ('unwrap', sch):
                return 2
        return 0
    is_libcnb = lambda atoms: {lt(a) for a in atoms} >= {1, 2}
    not_libcnb = lambda atoms: any(a == ('is', sch, NEG) or (a[0] == 'bool' and lt((a[0], a[1], True)) == 2 and a[2] is False) or
                                   (a[0] == 'nall' and a[1] and all(lt(x) for x in a[1])) for a in atoms)
    kinds = {'some': [], 'none': [], 'err': [], 'other': []}
    for atoms, sh in ics:
        sig = shape_sig(sh)
        if sig == 'Ok(Some(_))':
            kinds['some'].append(is_libcnb(atoms) and canon(sh[1][1][1]) == ('unwrap', prs))
        elif sig == 'Ok(None)':
            kinds['none'].append(not_libcnb(atoms))
        elif sh[0] == 'Err':
            kinds['err'].append(is_libcnb(atoms) and mentions(sh, ('unwrap_err', prs)))
        else:
            kinds['other'].append(False)
    ok = sch is not None and prs is not None and not kinds['other'] and all(kinds[k] and all(kinds[k]) for k in ('some', 'none', 'err'))
    rep.check(ok, 'R1', 'scheme-test', w(idf), 'scheme present and == "libcnb" => Ok(Some(path.parse()?)); otherwise Ok(None)', 'libcnb: detection is ' + show(ics))
    # ---- R3 / R5 : absolutize -------------------------------------------------------------------------------
    ad = prog.fn(PD + 'absolutize_dependency_paths')
    seq = seqs['absolutize_dependency_paths']
    table = {}
    if seq is not None and seq.mapped is not None:
        C2 = Cases(prog, sl, ad, stop=(UTIL + 'absolutize_path',))
        for g in prog.closures_of(ad):
            rep.analysed(g)
        ecs = C2.call_cases(seq.closure, [seq.elem]) if seq.closure is not None else C2.value_cases(strip(seq.mapped), {})
        for atoms, sh in ecs:
            sc = [a for a in atoms if a[0] == 'is' and a[2] in (POS, NEG) and a[1][0] == 'call' and a[1][1].endswith('::scheme')]
            arm = {POS: 'Some', NEG: 'None'}[sc[-1][2]] if sc and len({a[2] for a in sc}) == 1 else '?'
            subj_ok = bool(sc) and all(len(a[1][2]) == 1 and strip(a[1][2][0])[0] == 'field' and strip(a[1][2][0])[2] == 'uri' and
                                      canon(strip(a[1][2][0])[1]) == canon(seq.elem) for a in sc)
            if sh[0] == 'Ok' and sh[1][0] == 'val':
                row = ('verbatim', canon(sh[1][1]) == canon(seq.elem), subj_ok)
            elif sh[0] == 'val' and strip(sh[1])[0] == 'call' and strip(sh[1])[1].endswith('try_from'):
                ap = strip(strip(sh[1])[2][0])
                good = ap[0] == 'call' and ap[1] == UTIL + 'absolutize_path'
                if good:
                    pth, par = strip(ap[2][0]), strip(ap[2][1])
                    good = any(x[0] == 'call' and x[1].endswith('::path') for x in walk(pth)) and \
                        any(x[0] == 'call' and x[1] == 'std::path::Path::parent' and is_param(x[2][0], ad, 1) for x in walk(par))
                row = ('absolutize', good, subj_ok)
            else:
                row = (shape_sig(sh), False, subj_ok)
            table[arm] = row if arm not in table or table[arm] == row else ('conflict', False, False)
    ok = table == {'None': ('absolutize', True, True), 'Some': ('verbatim', True, True)}
    rep.extra['absolutize_arms'] = {k: list(v) for k, v in table.items()}
    rep.check(ok, 'R3', 'pass2/scheme-arms', w(ad), 'scheme-less => absolutize(path, parent of package.toml); any scheme => verbatim clone',
              'absolutisation arms: %s' % rep.extra.get('absolutize_arms'))
    ap = prog.fn(UTIL + 'absolutize_path')
    rep.analysed(ap)
    arms = {}
    for atoms, sh in Cases(prog, sl, ap, stop=(UTIL + 'normalize_path',)).fn_cases(ap):
        # `is_relative` and `!is_absolute` are the same test (Cases brings both to is_absolute)
        rel = [a for a in atoms if a[0] == 'bool' and a[1][0] == 'call' and a[1][1] == 'std::path::Path::is_absolute' and a[1][2] == (canon(sl.local(ap, 1)),) and is_param(sl.local(ap, 1), ap, 0)]
        if not rel or sh[0] != 'val':
            continue
        v = strip(sh[1])
        what = None
        if v[0] == 'call' and v[1] == UTIL + 'normalize_path':
            j = strip(v[2][0])
            what = 'normalize(join(parent, path))' if j[0] == 'call' and j[1] == 'std::path::Path::join' and is_param(j[2][0], ap, 1) and is_param(j[2][1], ap, 0) else 'normalize(?)'
        elif is_param(v, ap, 0):
            what = 'unchanged'
        if what:
            key = not rel[-1][2]
            arms[key] = what if arms.get(key, what) == what else 'conflict'
    rep.check(arms == {True: 'normalize(join(parent, path))', False: 'unchanged'}, 'R5', 'absolutize_path', w(ap), 'relative => normalize(parent.join(path)); absolute => unchanged',
              'absolutize_path arms: %s' % arms)
    # normalize_path: what happens to the result per path component, whether the components are visited by a `for` loop or
    # by a closure handed to fold / for_each (effects expansion enters both and reports the guards at every level)
    npf = prog.fn(UTIL + 'normalize_path')
    rep.analysed(npf)
    E = Effects(prog, sl, vocab={'std::path::PathBuf::push': ('PATH_PUSH', 0), 'std::path::PathBuf::pop': ('PATH_POP', 0)})
    comp = {}
    for e in E.expand(npf, 'may'):
        if e.kind not in ('PATH_PUSH', 'PATH_POP'):
            continue
        rep.analysed(e.call.fn)
        cds = [cd for cd, views, subj in guards_of(E, e) if cd.kind == 'variant' and cd.enum == 'std::path::Component']
        per_component = e.forall is not None or e.call.fn.in_loop(e.call.bb)
        if cds and len(cds[-1].outcome) == 1 and per_component:
            comp.setdefault(next(iter(cds[-1].outcome)), []).append(e.call.name.split('::')[-1])
    want = {'RootDir': ['push'], 'ParentDir': ['pop'], 'Normal': ['push']}
    rep.check(comp == want, 'R5', 'normalize_path/arms', w(npf), 'RootDir/Normal => push, ParentDir => pop, CurDir => nothing', 'normalize_path component arms: %s' % comp)
    # ---- R6 ------------------------------------------------------------------------------------------------
    pc = prog.fn('libcnb_package::package::package_composite_buildpack')
    rep.analysed(pc)
    wr = [c for c in pc.calls if c.name == 'libcnb_common::toml_file::write_toml_file']
    ok = len(wr) == 1
    if ok:
        dv = sl.operand(pc, wr[0].args[0])
        pv = strip(sl.operand(pc, wr[0].args[1]))
        # normal form (value.mk_unwrap): the same whether the code says `read(..).and_then(|d| normalize(d, ..))?` or
        # `let d = read(..)?; normalize(d, ..)?`
        path_ok = pv[0] == 'call' and pv[1] == 'std::path::Path::join' and strip(pv[2][0])[0] == 'param' and strip(pv[2][0])[2] == 1 and strip(pv[2][1]) == ('const', 'package.toml')
        nv = strip(dv)
        ok = False
        if dv[0] == 'unwrap' and nv[0] == 'call' and nv[1] == PD + 'normalize_package_descriptor' and len(nv[2]) == 3 and path_ok:
            a = [strip(x) for x in nv[2]]
            src_path = lambda v: v[0] == 'call' and v[1] == 'std::path::Path::join' and strip(v[2][0])[0] == 'param' and strip(v[2][0])[2] == 0 \
                and strip(v[2][1]) == ('const', 'package.toml')
            rd = a[0][0] == 'call' and a[0][1] == 'libcnb_common::toml_file::read_toml_file' and src_path(strip(a[0][2][0])) and nv[2][0][0] == 'unwrap'
            # (descriptor read from <src>/package.toml, that same path, the id->path map parameter)
            ok = rd and src_path(a[1]) and a[2][0] == 'param' and a[2][1] == pc.path and a[2][2] == 2 \
                and verdict(result_fates(prog, pc, wr[0])) == 'ok'
    rep.check(ok, 'R6', 'written', w(pc), 'write_toml_file(normalize(read(<src>/package.toml), that path, id->path map)?, <dest>/package.toml)?',
              'the composite package.toml written is not the normalised source descriptor')
    # ... and it is the ONLY way <destination>/package.toml comes into being, on every success path: a second writer (a
    # verbatim fs::copy "fast path", a conditional skip of the normalising write) would leave relative paths behind
    from .lib.effects import Effects as _Eff
    E6 = _Eff(prog, sl)
    is_dest_pkg = lambda v: strip(v)[0] == 'call' and strip(v)[1] in ('std::path::Path::join', 'std::path::PathBuf::join') \
        and strip(strip(v)[2][0])[0] == 'param' and strip(strip(v)[2][0])[2] == 1 and strip(strip(v)[2][1]) == ('const', 'package.toml')
    via_writer = lambda e: any((c.name or '') == 'libcnb_common::toml_file::write_toml_file' for c in list(e.chain) + [e.call])
    may_w = [e for e in E6.expand(pc, 'may') if e.kind in ('WRITE', 'RENAME', 'OPEN') and e.path is not None and is_dest_pkg(e.path)]
    must_w = [e for e in E6.expand(pc, 'must') if e.kind == 'WRITE' and e.path is not None and is_dest_pkg(e.path) and via_writer(e)]
    others = [e for e in may_w if not via_writer(e)]
    rep.check(bool(must_w) and not others, 'R6', 'only-writer', w(pc), 'the normalising write is the only writer of <destination>/package.toml and runs on every success path',
              'package.toml can reach the destination without normalisation: %s' % ([('%s via %s' % (e.call.name, e.via())) for e in others] or 'the normalising write is conditional'))
