"""C14 — composite package descriptors are normalised without losing dependencies.

Decided structurally:
  R1 libcnb: replacement  scheme test == "libcnb"; id parsed (error propagated); path looked up in the id->path
                          map; missing => Err(MissingBuildpackPath); found => dependency built from that path
  R2 one-to-one           between descriptor.dependencies.iter() and collect::<Result<Vec<_>,_>>() only `map`
                          occurs in both passes (no filter/skip/take/rev/dedup/flat_map): count and order kept
  R3 verbatim arms        non-libcnb dependencies (pass 1) and dependencies with any scheme (pass 2) are returned
                          as a clone of the input; only scheme-less URIs are rewritten
  R4 struct update        both result descriptors take `buildpack` and `platform` from the input descriptor
  R5 absolutise           rewritten only under is_relative == true, joined onto the parent of the source
                          package.toml; normalize_path arm table: CurDir -> nothing, ParentDir -> pop,
                          Normal / RootDir -> push
  R6 written              the normalised descriptor is what is written to <destination>/package.toml (`?`)
Not decided: that the resulting string denotes the same file (URI escaping by uriparse), "parses again".
"""
from .lib.discard import result_fates, verdict
from .lib.guards import conditions
from .lib.paths import strip
from .lib.tables import arm_defs
from .lib.value import vstr, walk

PD = 'libcnb_package::package_descriptor::'
ORDER_KEEPING = {'std::iter::Iterator::map', 'core::slice::<impl [T]>::iter', 'std::iter::Iterator::collect', 'std::iter::IntoIterator::into_iter'}


def adapters(v):
    """names of the nested iterator calls from the outermost down to the source"""
    out = []
    v = strip(v)
    while v[0] == 'call' and v[2]:
        out.append(v[1])
        v = strip(v[2][0])
    return out, v


def closure_body(prog, sl, v):
    v = strip(v)
    if v[0] == 'closure' and v[1] in prog.fns:
        return prog.fns[v[1]]
    return None


def run(ctx, rep):
    prog, sl = ctx.prog, ctx.slicer
    for r, d in (('R1', 'libcnb: URIs replaced by the looked-up path or an error'), ('R2', 'dependency list mapped one-to-one, in order'),
                 ('R3', 'other URIs copied verbatim'), ('R4', 'buildpack and platform taken from the input'), ('R5', 'lexical absolutisation shape'), ('R6', 'normalised descriptor is written')):
        rep.rule(r, d)
    rep.not_decided = ['denotation of the normalised path string (URI escaping by uriparse)', 'that the written file parses again (toml)']
    w = lambda f: '%s:%d' % (f.file, f.line)
    # ---- R2 / R4 for both passes --------------------------------------------------------------------------
    for name, elem_fn in (('replace_libcnb_uris', PD + 'replace_libcnb_uri'), ('absolutize_dependency_paths', None)):
        f = prog.fn(PD + name)
        rep.analysed(f)
        v = strip(sl.local(f, 0))
        ok = v[0] == 'call' and v[1].endswith('Result::<T, E>::map')
        names, src = adapters(v[2][0]) if ok else ([], ('unknown',))
        shape = ok and set(names) <= ORDER_KEEPING and names.count('std::iter::Iterator::map') == 1 and names[0] == 'std::iter::Iterator::collect' and \
            src[0] == 'field' and src[2] == 'dependencies' and src[1][0] == 'param' and src[1][2] == 0
        rep.check(shape, 'R2', name, w(f), 'dependencies.iter().map(..).collect(): one output per input, in order',
                  '%s does not map the dependency list one-to-one: adapters %s over %s' % (name, [n.split('::')[-1] for n in names], vstr(src)[:60]))
        cb = closure_body(prog, sl, v[2][1]) if ok else None
        good = False
        if cb is not None:
            bv = strip(sl.local(cb, 0))
            if bv[0] == 'agg' and (bv[1] or '').endswith('PackageDescriptor'):
                fl = dict(bv[3])
                src_of = lambda x: strip(x)[0] == 'field' and strip(x)[1][0] == 'param' and strip(x)[1][1] == f.path and strip(x)[1][2] == 0 and strip(x)[2]
                good = src_of(fl.get('buildpack', ('unknown',))) == 'buildpack' and src_of(fl.get('platform', ('unknown',))) == 'platform' and \
                    strip(fl.get('dependencies', ('unknown',)))[0] == 'param'
        rep.check(good, 'R4', name, w(f), 'buildpack and platform copied from the input, dependencies = mapped list', '%s does not preserve buildpack/platform' % name)
        if elem_fn:
            mc = [x for x in walk(v) if x[0] == 'call' and x[1] == 'std::iter::Iterator::map']
            eb = closure_body(prog, sl, mc[0][2][1]) if mc else None
            ev = strip(sl.local(eb, 0)) if eb else ('unknown',)
            rep.check(ev[0] == 'call' and ev[1] == elem_fn and strip(ev[2][0])[0] == 'param', 'R2', name + '/element', w(f), 'each element -> %s(element)' % elem_fn.split('::')[-1],
                      'element mapping is ' + vstr(ev)[:100])
    # ---- R1 / R3 : replace_libcnb_uri -----------------------------------------------------------------------
    ru = prog.fn(PD + 'replace_libcnb_uri')
    rep.analysed(ru)
    v = strip(sl.local(ru, 0))
    ok = v[0] == 'call' and v[1].endswith('::and_then') and strip(v[2][0])[0] == 'call' and strip(strip(v[2][0]))[1].endswith('map_err')
    idc = strip(strip(v[2][0])[2][0]) if ok else ('unknown',)
    ok = ok and idc[0] == 'call' and idc[1] == PD + 'buildpack_id_from_libcnb_dependency' and strip(idc[2][0])[0] == 'param'
    rep.check(ok, 'R1', 'id-parse-propagated', w(ru), 'id parse error propagated (map_err + and_then)', 'replace_libcnb_uri = ' + vstr(v)[:140])
    # The remaining obligations are established over the function together with its closures, so that
    # `opt.map_or(Ok(dep.clone()), |id| ..)`, `let Some(id) = opt else { return Ok(dep.clone()) }` and `match` are all fine.
    from .lib.discard import local_fates, verdict as fate_verdict
    region = [ru] + prog.closures_of(ru)
    is_dep = lambda x: strip(x)[0] == 'param' and strip(x)[1] == ru.path and strip(x)[2] == 0
    is_map = lambda x: strip(x)[0] == 'param' and strip(x)[1] == ru.path and strip(x)[2] == 1
    good_verbatim = False
    good_lookup = False
    for g in region:
        # (a) verbatim clone when the dependency is not a libcnb: reference
        for c in g.calls:
            if c.name and c.name.endswith('Option::<T>::map_or') and len(c.args) == 3:
                dflt = strip(sl.operand(g, c.args[1]))
                if dflt[0] == 'agg' and dflt[2] == 'Ok' and is_dep(dict(dflt[3]).get('0', ('unknown',))):
                    good_verbatim = True
        for bi, b in enumerate(g.blocks):
            for st in b['s']:
                if st[0] == '=' and st[2]['r'] == 'agg' and st[2].get('variant') == 'Ok' and st[2].get('adt') == 'std::result::Result':
                    val = sl._rvalue(g, st[2], set(), 0, None)
                    if is_dep(dict(val[3]).get('0', ('unknown',))):
                        none = [cd for cd in conditions(g, bi, sl) if cd.kind == 'variant' and cd.enum == 'std::option::Option' and cd.outcome == frozenset({'None'})]
                        if none:
                            good_verbatim = True
        # (b) lookup in the id -> path map, missing => MissingBuildpackPath(id), propagated; (c) dependency from that path
        for c in g.calls:
            if c.name and c.name.endswith('BTreeMap::<K, V, A>::get') and is_map(sl.operand(g, c.args[0])):
                key = strip(sl.operand(g, c.args[1]))
                oks = [x for x in g.calls if x.name and x.name.endswith(('::ok_or', '::ok_or_else'))]
                err_ok = False
                for x in oks:
                    ev = sl.operand(g, x.args[1])
                    aggs = [y for y in walk(ev) if y[0] == 'agg' and y[2] == 'MissingBuildpackPath']
                    if not aggs and strip(ev)[0] == 'closure' and strip(ev)[1] in prog.fns:
                        aggs = [y for y in walk(sl.local(prog.fns[strip(ev)[1]], 0)) if y[0] == 'agg' and y[2] == 'MissingBuildpackPath']
                    if aggs and strip(dict(aggs[0][3])['0']) == key:
                        err_ok = True
                fates = local_fates(prog, g, c.dest[0], {}, set(), 0) if c.dest and len(c.dest) == 1 else []
                prop = fate_verdict(fates) == 'ok'
                tf_ok = False
                for g2 in region:
                    for t in g2.calls:
                        if t.full and 'PackageDescriptorDependency as std::convert::TryFrom<' in t.full:
                            av = sl.operand(g2, t.args[0])
                            from_lookup = any(y[0] == 'call' and y[1].endswith('BTreeMap::<K, V, A>::get') for y in walk(av)) or \
                                (strip(av)[0] == 'param' and g2.kind == 'Closure' and g2.path != g.path)
                            tf_ok = tf_ok or from_lookup
                good_lookup = err_ok and prop and tf_ok
    rep.check(good_verbatim, 'R3', 'pass1/non-libcnb', w(ru), 'non-libcnb dependency => Ok(clone of the input)', 'non-libcnb dependencies are not copied verbatim')
    rep.check(good_lookup, 'R1', 'lookup-or-error', w(ru), 'id looked up in the map; missing => Err(MissingBuildpackPath(id)) propagated; found => dependency from that path',
              'libcnb: replacement is not map.get(id) -> MissingBuildpackPath(id) on absence -> try_from(path)')
    idf = prog.fn(PD + 'buildpack_id_from_libcnb_dependency')
    rep.analysed(idf)
    v = strip(sl.local(idf, 0))
    names, src = adapters(v)
    shape = [n.split('::')[-1] for n in names] == ['transpose', 'map', 'filter']
    sch = False
    if shape:
        flt = next(x for x in walk(v) if x[0] == 'call' and x[1].endswith('::filter'))
        fb = closure_body(prog, sl, flt[2][1])
        fv = strip(sl.local(fb, 0)) if fb else ('unknown',)
        if fv[0] == 'call' and fv[1].endswith('is_some_and') and strip(fv[2][0])[0] == 'call' and strip(fv[2][0])[1].endswith('::scheme'):
            eb = closure_body(prog, sl, fv[2][1])
            ev = strip(sl.local(eb, 0)) if eb else ('unknown',)
            sch = ev[0] == 'call' and ev[1].endswith('::eq') and strip(ev[2][1]) == ('const', 'libcnb') and strip(ev[2][0])[0] == 'call' and strip(ev[2][0])[1].endswith('::as_str')
        mp = next(x for x in walk(v) if x[0] == 'call' and x[1].endswith('Option::<T>::map'))
        mb = closure_body(prog, sl, mp[2][1])
        mv = strip(sl.local(mb, 0)) if mb else ('unknown',)
        sch = sch and mv[0] == 'call' and mv[1].endswith('::parse') and strip(mv[2][0])[0] == 'call' and strip(mv[2][0])[1].endswith('::path')
    rep.check(shape and sch, 'R1', 'scheme-test', w(idf), 'Some(uri).filter(scheme == "libcnb").map(path.parse()).transpose()', 'libcnb: detection is ' + vstr(v)[:140])
    # ---- R3 / R5 : absolutize -------------------------------------------------------------------------------
    ad = prog.fn(PD + 'absolutize_dependency_paths')
    cl = [g for g in prog.closures_of(ad) if g.path.endswith('{closure#0}')]
    ok = False
    if cl:
        g = cl[0]
        rep.analysed(g)
        rows = arm_defs(g, 0, sl)
        table = {}
        for bi, v, conds in rows:
            v = strip(v)
            oc = [cd for cd in conds if cd.kind == 'variant' and cd.enum == 'std::option::Option']
            arm = next(iter(oc[-1].outcome)) if oc and len(oc[-1].outcome) == 1 else '?'
            subj_ok = bool(oc) and any(x[0] == 'call' and x[1].endswith('::scheme') for x in walk(oc[-1].subject))
            if v[0] == 'agg' and v[2] == 'Ok':
                inner = strip(dict(v[3])['0'])
                table[arm] = ('verbatim', inner[0] == 'param' and inner[2] == 1, subj_ok)
            elif v[0] == 'call' and v[1].endswith('try_from'):
                ap = strip(v[2][0])
                good = ap[0] == 'call' and ap[1] == 'libcnb_package::util::absolutize_path'
                if good:
                    pth, par = strip(ap[2][0]), strip(ap[2][1])
                    good = any(x[0] == 'call' and x[1].endswith('::path') for x in walk(pth)) and \
                        any(x[0] == 'call' and x[1] == 'std::path::Path::parent' and strip(x[2][0])[0] == 'param' and strip(x[2][0])[2] == 1 for x in walk(par))
                table[arm] = ('absolutize', good, subj_ok)
        ok = table.get('None') == ('absolutize', True, True) and table.get('Some') == ('verbatim', True, True)
        rep.extra['absolutize_arms'] = {k: list(v) for k, v in table.items()}
    rep.check(ok, 'R3', 'pass2/scheme-arms', w(ad), 'scheme-less => absolutize(path, parent of package.toml); any scheme => verbatim clone',
              'absolutisation arms: %s' % rep.extra.get('absolutize_arms'))
    ap = prog.fn('libcnb_package::util::absolutize_path')
    rep.analysed(ap)
    rows = arm_defs(ap, 0, sl)
    arms = {}
    for bi, v, conds in rows:
        v = strip(v)
        rel = [cd for cd in conds if cd.kind == 'bool' and cd.value[0] == 'call' and cd.value[1] == 'std::path::Path::is_relative' and strip(cd.value[2][0])[0] == 'param' and strip(cd.value[2][0])[2] == 0]
        if not rel:
            continue
        if v[0] == 'call' and v[1] == 'libcnb_package::util::normalize_path':
            j = strip(v[2][0])
            arms[rel[-1].outcome] = 'normalize(join(parent, path))' if j[0] == 'call' and j[1] == 'std::path::Path::join' and strip(j[2][0])[2] == 1 and strip(j[2][1])[2] == 0 else 'normalize(?)'
        elif v[0] == 'param' and v[2] == 0:
            arms[rel[-1].outcome] = 'unchanged'
    rep.check(arms == {True: 'normalize(join(parent, path))', False: 'unchanged'}, 'R5', 'absolutize_path', w(ap), 'relative => normalize(parent.join(path)); absolute => unchanged',
              'absolutize_path arms: %s' % arms)
    npf = prog.fn('libcnb_package::util::normalize_path')
    rep.analysed(npf)
    comp = {}
    for c in npf.calls:
        if c.indirect or not c.name or c.name.split('::')[-1] not in ('push', 'pop'):
            continue
        if not c.name.startswith('std::path::PathBuf::'):
            continue
        cds = [cd for cd in conditions(npf, c.bb, sl) if cd.kind == 'variant' and cd.enum == 'std::path::Component']
        if cds and len(cds[-1].outcome) == 1 and npf.in_loop(c.bb):
            comp.setdefault(next(iter(cds[-1].outcome)), []).append(c.name.split('::')[-1])
    want = {'RootDir': ['push'], 'ParentDir': ['pop'], 'Normal': ['push']}
    rep.check(comp == want, 'R5', 'normalize_path/arms', w(npf), 'RootDir/Normal => push, ParentDir => pop, CurDir => nothing', 'normalize_path component arms: %s' % comp)
    # ---- R6 ------------------------------------------------------------------------------------------------
    pc = prog.fn('libcnb_package::package::package_composite_buildpack')
    rep.analysed(pc)
    wr = [c for c in pc.calls if c.name == 'libcnb_common::toml_file::write_toml_file']
    ok = len(wr) == 1
    if ok:
        dv = sl.operand(pc, wr[0].args[0])
        pv = strip(sl.operand(pc, wr[0].args[1]))
        # normal form (value.mk_unwrap): the same whether the code says `read(..).and_then(|d| normalize(d, ..))?` or
        # `let d = read(..)?; normalize(d, ..)?`
        path_ok = pv[0] == 'call' and pv[1] == 'std::path::Path::join' and strip(pv[2][0])[0] == 'param' and strip(pv[2][0])[2] == 1 and strip(pv[2][1]) == ('const', 'package.toml')
        nv = strip(dv)
        ok = False
        if dv[0] == 'unwrap' and nv[0] == 'call' and nv[1] == PD + 'normalize_package_descriptor' and len(nv[2]) == 3 and path_ok:
            a = [strip(x) for x in nv[2]]
            src_path = lambda v: v[0] == 'call' and v[1] == 'std::path::Path::join' and strip(v[2][0])[0] == 'param' and strip(v[2][0])[2] == 0 \
                and strip(v[2][1]) == ('const', 'package.toml')
            rd = a[0][0] == 'call' and a[0][1] == 'libcnb_common::toml_file::read_toml_file' and src_path(strip(a[0][2][0])) and nv[2][0][0] == 'unwrap'
            # (descriptor read from <src>/package.toml, that same path, the id->path map parameter)
            ok = rd and src_path(a[1]) and a[2][0] == 'param' and a[2][1] == pc.path and a[2][2] == 2 \
                and verdict(result_fates(prog, pc, wr[0])) == 'ok'
    rep.check(ok, 'R6', 'written', w(pc), 'write_toml_file(normalize(read(<src>/package.toml), that path, id->path map)?, <dest>/package.toml)?',
              'the composite package.toml written is not the normalised source descriptor')
