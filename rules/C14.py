"""C14 — composite package descriptors are normalised without losing dependencies.

Decided from compiler facts, on meaning rather than spelling (rules/C14_helpers.py):
All of R1-R4 are stated on normalize_package_descriptor (the entry point package.rs calls) in normal form: its success
payload with private helpers inlined is a PackageDescriptor whose dependency list is made by two element-by-element passes
over the input's list.  Whether a pass is a function from descriptor to descriptor, a function over the bare list, a stage
of one combinator pipeline, or a push loop in a helper makes no difference.
  R1 libcnb: replacement  case analysis of buildpack_id_from_libcnb_dependency and of the element mapping of pass 1 (a
                          function like replace_libcnb_uri or the closure handed to `map`; combinator chains,
                          `match`, `let .. else`, `?` and private helpers give the same cases): the id is parsed from the
                          URI path exactly when the scheme is present and == "libcnb"; a parse error is returned and nothing
                          else happens without a successful parse; the id is looked up in the id->path map;
                          missing => Err(MissingBuildpackPath(id)); found => dependency built from that path
                          (a helper may answer `Ok(None)` / `None` for "keep as it is" and leave the clone to its caller:
                          `unwrap_or*`, `match` on the decided payload and `transpose` are part of the case analysis)
  R2 one-to-one           the `dependencies` of the success payload are made from the input's by exactly two passes, each
                          element by element: an iterator pipeline in which only `map` occurs (no
                          filter/skip/take/rev/dedup/flat_map), or a fresh Vec that receives exactly one push on every way
                          round a `for` loop over the list (one push site or several: `if c { v.push(a); continue } v.push(b)`)
                          which reaches success only through iterator exhaustion, or a pass that rewrites the returned
                          descriptor in place (`pass(&mut d)?` with `for x in &mut d.dependencies { .. *x = new .. }`: slots
                          are only assigned as a whole, at most once per iteration, from values read before; nothing else
                          of the descriptor is touched; C14_helpers.inplace_sequence); pass 1 starts from the input's
                          list, pass 2 from the (complete) list pass 1 made.  How the passes are sequenced is immaterial:
                          `p1(d).and_then(p2)`, `?`, or a literal table of closures / fn pointers threaded through a `for`
                          loop, `try_fold` or `fold(Ok(..), |r, p| r.and_then(..))` (unrolled in table order; a table that
                          is reversed, truncated, left early or not applied to the running value is not unrolled)
  R3 verbatim arms        non-libcnb dependencies (pass 1) and dependencies with any scheme (pass 2) are returned
                          as a clone of the input; only scheme-less URIs are rewritten (cases of the element mapping)
  R4 struct update        the result descriptor takes `buildpack` and `platform` from the input descriptor (through every
                          intermediate descriptor a pass may build) and its dependencies are the list made by the passes
  R5 absolutise           rewritten only when relative (is_relative == !is_absolute), joined onto the parent of the source
                          package.toml; normalize_path per-component effects (for loop or fold/for_each closure) on the
                          path being built (the returned PathBuf, or a Vec<Component> stack collected into it in order, on
                          which `pop` guarded by `last()` being Normal is PathBuf::pop):
                          CurDir -> nothing, ParentDir -> pop, Normal / RootDir -> push
  R6 written              the normalised descriptor is what is written to <destination>/package.toml (`?`), by the one
                          write_toml_file call reached from package_composite_buildpack (in it or in a phase helper)
Deepening round (what the value algebra alone does not see, and the bodies that carry the data):
  R2 list-untouched       no dependency list / descriptor on the construction path is mutably borrowed except to append
                          (dedup / sort / retain / truncate after collect change number or order without an assignment)
  R3 elements-untouched   no single dependency / URI is modified in place (`uri.normalize()` on the "verbatim" clone)
  R3 pass2/base-dir, own-path   exact arguments of absolutize_path: parent(<source package.toml>) itself and the whole URI path
                          (as written or in normal form: computed by a private helper / method, read from a context struct)
Round 5: decisions on the result of a private classifier (`match Kind::from(dep) { Kind::A(p) => .. }`, a function whose
every result is a literal variant of an enum of its own) are replaced by the classifier's own guards and payloads
(C14_helpers.expand_enums), in every case analysis (R1 scheme-test, R1/R3 element mappings).
  R4 whole-fields         fields assigned after construction count (`d.platform = ..`); piecewise assignments are refused
  R5 every-component      normalize_path visits path.components() completely (no break / early return / stopping adapter):
                          by a loop (for / while let) or fold / for_each around the push / pop or around the call of the
                          private per-component helper that makes them; the components may be collected and viewed as a
                          slice, of which `[1..]` may be visited instead when element [0] is a Prefix (slice pattern,
                          `first()` + `&c[1..]`); nothing else advances the iterator (extra next / next_back / nth)
  R5 by-kind-only         push / pop are decided by the component kind alone (no file-system or state dependent guard)
  R7 carriers             TryFrom<PathBuf|&str> for PackageDescriptorDependency, the serialiser / deserialiser of the `uri`
                          fields and the serde names: the URI is parse(<argument>), the string written is the URI itself,
                          formatting is plain Display, nothing is modified through a mutable borrow
Not decided: that the resulting string denotes the same file (URI escaping by uriparse), "parses again".
"""
import re

from .lib.discard import result_fates, verdict
from .lib import iters
from .lib.effects import Effects, find_loops, guards_of
from .lib.paths import strip
from .lib.value import canon, vstr, walk
from .C14_helpers import Cases, NEG, Normal, POS, adapters, carried, chain_of, elem_cases, fmt_not_plain, inplace_calls, inplace_sequence, returned_local, loop_total, mentions, mut_borrows, piecewise_updates, settle, shape_sig, shape_vals, unwrapped

PD = 'libcnb_package::package_descriptor::'
UTIL = 'libcnb_package::util::'
# the two passes over the dependency list, under the names the rule instances have always carried
PASSES = ('replace_libcnb_uris', 'absolutize_dependency_paths')
DATA = 'libcnb_data::package_descriptor::'
# a dependency list / a descriptor (by value, by reference, inside the Result / Option of a fallible construction)
DEP_LIST_TY = re.compile(r"^(&(?:'\w+ )?(?:mut )?)*((std|core)::(result::Result|option::Option)<)?((std|alloc)::vec::Vec<|\[|(std|alloc)::boxed::Box<\[)?"
                         r"libcnb_data::package_descriptor::PackageDescriptor(Dependency)?\b")
ELEM_TY = re.compile(r"^(&(?:'\w+ )?(?:mut )?)*(libcnb_data::package_descriptor::PackageDescriptorDependency|uriparse::URIReference|uriparse::uri_reference::URIReference)\b")
APPEND_ONLY = ('push', 'reserve', 'reserve_exact', 'shrink_to_fit')


def is_param(v, fn, i):
    v = strip(v)
    return v[0] == 'param' and v[1] == fn.path and v[2] == i


def atoms_values(cases):
    """every value mentioned by the guards and results of a case list"""
    for atoms, sh in cases:
        for a in atoms:
            yield from walk(a)
        for leaf in shape_vals(sh):
            yield from walk(leaf)


def strip_one(v):
    """x of unwrap(x) (assignments recorded on the way peeled), else None"""
    while isinstance(v, tuple) and v and v[0] == 'updated':
        v = v[1]
    return v[1] if isinstance(v, tuple) and v and v[0] == 'unwrap' else None


def show(cases):
    sg = shape_sig

    def at(a):
        if a[0] == 'is':
            return '%s is %s' % (vstr(a[1])[:50], a[2] if isinstance(a[2], str) else '|'.join(sorted(a[2])))
        if a[0] == 'bool' and a[1][0] == 'eq':
            return '%s %s %s' % (vstr(a[1][1])[:40], '==' if a[2] else '!=', vstr(a[1][2])[:20])
        if a[0] == 'bool':
            return '%s%s' % ('' if a[2] else '!', vstr(a[1])[:50])
        if a[0] == 'nall':
            return '!(%s)' % ' & '.join(at(x) for x in a[1])
        return str(a[0])
    return '; '.join('[%s] => %s' % (', '.join(at(a) for a in atoms), sg(sh)) for atoms, sh in cases)[:400]


def run(ctx, rep):
    prog, sl = ctx.prog, ctx.slicer
    for r, d in (('R1', 'libcnb: URIs replaced by the looked-up path or an error'), ('R2', 'dependency list mapped one-to-one, in order'),
                 ('R3', 'other URIs copied verbatim'), ('R4', 'buildpack and platform taken from the input'), ('R5', 'lexical absolutisation shape'), ('R6', 'normalised descriptor is written'),
                 ('R7', 'URIs and platform are carried unchanged into and out of the descriptor types')):
        rep.rule(r, d)
    rep.not_decided = ['denotation of the normalised path string (URI escaping by uriparse)', 'that the written file parses again (toml)']
    w = lambda f: '%s:%d' % (f.file, f.line)
    NPD, IDF, AP = PD + 'normalize_package_descriptor', PD + 'buildpack_id_from_libcnb_dependency', UTIL + 'absolutize_path'
    # ---- R2 / R4: the normalised descriptor as a whole ------------------------------------------------------------
    # Stated on the success payload of normalize_package_descriptor in normal form (C14_helpers.Normal: helpers inlined,
    # `x.map(f)` / `Ok(f(x?))` / and_then closures alike): a PackageDescriptor whose buildpack / platform are the input's
    # and whose `dependencies` are made from the input's by two element-by-element passes (iterator pipeline or push loop
    # each), the first one rewriting libcnb: URIs, the second one absolutising paths.  It does not matter whether a pass is
    # a function of its own taking and returning a descriptor, a function over the bare list, or a stage of one pipeline.
    npd = prog.fn(NPD)
    rep.analysed(npd)
    N = Normal(prog, sl, keep=(IDF, AP, UTIL + 'normalize_path'))
    raw = N.payload(npd)
    bv = settle(raw)   # (field assignments made after the construction of the descriptor count)
    if bv[0] == 'param' and bv[1] == npd.path and bv[2] == 0:
        # the input descriptor itself (`descriptor.clone()`): field by field the input's fields, with what was assigned since
        def rebase(v):
            if isinstance(v, tuple) and v and v[0] == 'updated':
                return ('updated', rebase(v[1]), v[2])
            if isinstance(v, tuple) and v and v[0] == 'unwrap':
                return rebase(v[1])
            return ('agg', DATA + 'PackageDescriptor', None, tuple((k, ('field', bv, k)) for k in ('buildpack', 'dependencies', 'platform')))
        bv = settle(rebase(raw))
    fl = dict(bv[3]) if bv[0] == 'agg' and (bv[1] or '').endswith('PackageDescriptor') else {}
    chain, source = chain_of(prog, sl, N, npd, fl['dependencies']) if 'dependencies' in fl else ([], ('unknown',))
    # ... and then by the passes that rewrite the returned descriptor in place (`pass(&mut d)?` before `Ok(d)`): the value
    # algebra does not see what a callee does through a `&mut`, C14_helpers.inplace_sequence reads it from the callee
    inplace, accounted = [], set()
    root = returned_local(npd)
    if root is not None:
        ip_calls, ip_why = inplace_calls(prog, npd, root, DEP_LIST_TY)
        for c, g, k in ip_calls:
            sq = inplace_sequence(prog, sl, g, k, {(g.path, i): sl.operand(npd, a) for i, a in enumerate(c.args) if i < g.argc}, N)
            rep.analysed(g)
            inplace.append(sq)
            if sq.one_to_one:
                accounted |= sq.accounted | {(npd.path, c.bb)}
        if ip_why is not None:
            from .C14_helpers import Seq
            inplace.append(Seq('in-place', [], ('unknown',), None, None, why=ip_why))
    for gp in N.entered:
        rep.analysed(prog.fns[gp])
        for g in prog.closures_of(prog.fns[gp]):
            rep.analysed(g)
    for g in prog.closures_of(npd):
        rep.analysed(g)
    passes = list(reversed(chain)) + inplace
    src = strip(source)
    from_input = src[0] == 'field' and src[2] == 'dependencies' and is_param(src[1], npd, 0)
    src_of = lambda x: strip(x)[0] == 'field' and is_param(strip(x)[1], npd, 0) and strip(x)[2]
    fields_ok = bool(fl) and src_of(fl.get('buildpack', ('unknown',))) == 'buildpack' and src_of(fl.get('platform', ('unknown',))) == 'platform'
    seqs = {}
    for i, name in enumerate(PASSES):
        seq = seqs[name] = passes[i] if i < len(passes) else None
        # pass 1 starts from the input's list; pass 2 from the list made by pass 1 (chain_of), and there is no third pass
        shape = seq is not None and seq.one_to_one and len(passes) == len(PASSES) and from_input
        why = 'result is ' + vstr(bv)[:80]
        if seq is not None:
            why = seq.why or ('%d passes over %s' % (len(passes), vstr(src)[:60]) if seq.one_to_one else seq.kind)
        rep.check(shape, 'R2', name, w(npd), 'one output dependency per input dependency, in order (%s)' % (seq.kind if seq else '-'),
                  '%s does not map the dependency list one-to-one: %s' % (name, why))
        rep.check(fields_ok and seq is not None and seq.kind is not None, 'R4', name, w(npd),
                  'buildpack and platform copied from the input, dependencies = mapped list', '%s does not preserve buildpack/platform' % name)
    # ... and the lists are not modified in place on the way (the value algebra above follows what is *assigned*; a
    # `dependencies.dedup()` / `.sort_by_key(..)` / `.truncate(..)` / `.retain(..)` through a mutable borrow changes number or
    # order without any assignment).  In every function that takes part in building the result (the entry point, the helpers
    # the normal form went through, their closures) a dependency list / descriptor may only be borrowed mutably to append to it.
    build_fns = {npd.path: npd}
    for gp in N.entered:
        build_fns[gp] = prog.fns[gp]
    # (and whatever else of this crate the entry point can reach: the element mappings and their helpers)
    for gp, g in prog.reach([npd], stop=lambda f: f.crate != npd.crate).items():
        if g.crate == npd.crate:
            build_fns[gp] = g
    for g in list(build_fns.values()):
        for c in prog.closures_of(g):
            build_fns[c.path] = c
    touched, opaque, elems = [], [], []
    for g in build_fns.values():
        for pl, c in mut_borrows(g):
            if ELEM_TY.match(g.local_ty(pl[0]) or ''):
                # a single dependency / URI modified in place (`dependency.uri.normalize()`): the value algebra would
                # still read it as the clone of the input it was made from
                elems.append('%s in %s' % ((((c.name or c.decl) if c is not None else None) or 'a stored mutable borrow').rsplit('::', 1)[-1], g.path.split('::', 1)[-1]))
                continue
            if not DEP_LIST_TY.match(g.local_ty(pl[0]) or ''):
                continue
            name = ((c.name or c.decl) if c is not None else None) or ''
            last = name.rsplit('::', 1)[-1]
            if name.startswith('std::vec::Vec::<') and last in APPEND_ONLY:
                continue
            if c is not None and (g.path, c.bb) in accounted:
                # handed to a pass that rewrites it in place slot by slot / iterated mutably by such a pass: examined there
                continue
            what = '%s in %s' % (last or 'a stored mutable borrow', g.path.split('::', 1)[-1])
            (touched if name.startswith(('std::vec::Vec::<', 'std::slice::<impl [T]>::', 'core::slice::<impl [T]>::', 'alloc::')) else opaque).append(what)
    if opaque and not touched:
        rep.unproven('R2', 'list-untouched', w(npd), 'a dependency list / descriptor is handed out mutably: %s' % sorted(set(opaque)))
    else:
        rep.check(not touched, 'R2', 'list-untouched', w(npd), 'the dependency lists are only appended to, never reordered / shortened in place',
                  'the dependency list is modified in place after it was made: %s' % sorted(set(touched + opaque)))
    # ... and no descriptor on the way has a *part* of a field assigned in place (`d.platform.os = ..` in the first pass is
    # invisible to the second pass's `..descriptor.clone()` in the value algebra): every in-place assignment is of a whole
    # field, which the normal form above honours
    pw = piecewise_updates(N.payload(npd))
    for gp, ms in N.entered.items():
        for m in ms:
            for a in m.values():
                pw += piecewise_updates(a)
    for g in build_fns.values():
        for local in range(len(g.locals)):
            if DEP_LIST_TY.match(g.local_ty(local) or '') and any(len([x for x in d[4][1:] if str(x) not in ('*', '.*')]) > 1 for d in g.partial_defs(local) if d[0] == 'stmt'):
                pw.append('%s in %s' % (g.local_name(local) or '_%d' % local, g.path.split('::', 1)[-1]))
    rep.check(not pw, 'R4', 'whole-fields', w(npd), 'descriptors are only assigned field by field', 'a part of a descriptor field is assigned in place: %s' % sorted(set(pw)))
    if elems:
        rep.unproven('R3', 'elements-untouched', w(npd), 'a dependency / URI is modified in place: %s' % sorted(set(elems)))
    else:
        rep.holds('R3', 'elements-untouched', w(npd), 'no dependency or URI is modified in place while the lists are rebuilt')
    same = lambda a, b: canon(strip(a)) == canon(strip(b))
    # ---- R1 / R3 : libcnb: replacement (element mapping of pass 1) -------------------------------------------------
    # Case analysis of the mapping applied to one element (C14_helpers.Cases / elem_cases): which results are produced under
    # which decisions, whether the code says `opt.map_or(Ok(dep.clone()), |id| ..)`, `let Some(id) = opt else { return Ok(dep.clone()) }`
    # or `match`, in a function of its own, in the closure handed to `map`, in the body of a push loop (push sites + early
    # returns) or in the body of a loop that assigns the slots in place (assignments + "nothing assigned" + early returns).
    s1 = seqs[PASSES[0]]
    elem = s1.elem if s1 is not None and s1.elem is not None else ('unknown', 'element')
    is_elem = lambda x: same(x, elem)
    cs = []
    if s1 is not None and (s1.closure is not None or s1.mapped is not None):
        C1 = Cases(prog, sl, npd, stop=(IDF,))
        cs = elem_cases(C1, s1)
    idcs = {canon(x) for x in atoms_values(cs) if x[0] == 'call' and x[1] == IDF}
    idc = next(iter(idcs)) if len(idcs) == 1 else None
    id_ok = idc is not None and len(idc[2]) == 1 and is_elem(idc[2][0])
    rep.check(id_ok, 'R2', PASSES[0] + '/element', w(npd), 'each element -> its libcnb: replacement (a function of that element)',
              'element mapping is ' + (show(cs) if cs else vstr(s1.mapped if s1 is not None and s1.mapped is not None else ('unknown',))[:100]))
    failed = [c for c in cs if ('is', idc, NEG) in c[0]]
    parsed = [c for c in cs if ('is', idc, NEG) not in c[0]]
    ok = id_ok and bool(failed) and bool(parsed) and all(sh[0] == 'Err' and mentions(sh, ('unwrap_err', idc)) for _, sh in failed) and \
        all(('is', idc, POS) in atoms for atoms, _ in parsed)
    rep.check(ok, 'R1', 'id-parse-propagated', w(npd), 'id parse error propagated; everything else happens only after a successful parse', 'libcnb: replacement: ' + show(cs))
    ido = ('unwrap', idc)
    idv = ('unwrap', ido)
    other = [c for c in cs if ('is', ido, NEG) in c[0]]
    good_verbatim = id_ok and bool(other) and all(sh[0] == 'Ok' and sh[1][0] == 'val' and is_elem(sh[1][1]) for _, sh in other)
    rep.check(good_verbatim, 'R3', 'pass1/non-libcnb', w(npd), 'non-libcnb dependency => Ok(clone of the input)', 'non-libcnb dependencies are not copied verbatim: ' + show(other or cs))
    libcnb = [c for c in cs if ('is', ido, POS) in c[0]]
    gets = {canon(x) for x in atoms_values(libcnb) if x[0] == 'call' and x[1].endswith('BTreeMap::<K, V, A>::get') and len(x[2]) == 2
            and is_param(x[2][0], npd, 2) and canon(x[2][1]) == idv}
    get = next(iter(gets)) if len(gets) == 1 else None
    missing, found, stray = [], [], []

    def conversion(x):
        """the call try_from(<the looked-up path>) whose (propagated) result x is"""
        t = sl._ok_core(x)
        ok = t[0] == 'call' and t[1].endswith('::try_from') and 'PackageDescriptorDependency as std::convert::TryFrom<' in t[1] and \
            len(t[2]) == 1 and canon(t[2][0]) == ('unwrap', get)
        return t if ok else None
    payload_of, failed_conv = [], []
    for atoms, sh in libcnb:
        if get is not None and ('is', get, NEG) in atoms:
            missing.append(sh[0] == 'Err' and any(y[0] == 'agg' and y[2] == 'MissingBuildpackPath' and canon(dict(y[3]).get('0')) == idv for leaf in shape_vals(sh) for y in walk(leaf)))
        elif get is not None and ('is', get, POS) in atoms:
            neg = [a[1] for a in atoms if a[0] == 'is' and a[2] == NEG and conversion(a[1]) is not None]
            leaf = strip_one(sh[1][1]) if sh[0] == 'Ok' and sh[1][0] == 'val' else None
            if neg:
                # the conversion failed: its error is what is returned
                failed_conv.extend(neg)
                found.append(sh[0] == 'Err' and any(mentions(sh, ('unwrap_err', x)) for x in neg))
            elif sh[0] == 'val':
                # the Result of the conversion, propagated as it is
                found.append(conversion(sh[1]) is not None)
            elif leaf is not None and conversion(leaf) is not None:
                # the success payload of the conversion (its failure is another case: required below)
                found.append(('is', canon(conversion(leaf)), POS) in atoms)
                payload_of.append(canon(conversion(leaf)))
            else:
                found.append(False)
        else:
            stray.append(sh)
    if any(x not in failed_conv for x in payload_of):
        found.append(False)
    good_lookup = id_ok and bool(missing) and bool(found) and all(missing) and all(found) and not stray
    rep.check(good_lookup, 'R1', 'lookup-or-error', w(npd), 'id looked up in the map; missing => Err(MissingBuildpackPath(id)) propagated; found => dependency from that path',
              'libcnb: replacement is not map.get(id) -> MissingBuildpackPath(id) on absence -> try_from(path): ' + show(libcnb or cs))
    # scheme test: the id is parsed from the URI path exactly when the scheme is present and equals "libcnb"
    idf = prog.fn(IDF)
    rep.analysed(idf)
    ics = Cases(prog, sl, idf).fn_cases(idf)
    is_uri = lambda x: strip(x)[0] == 'field' and strip(x)[2] == 'uri' and is_param(strip(x)[1], idf, 0)
    schemes = {canon(x) for x in atoms_values(ics) if x[0] == 'call' and x[1].endswith('::scheme') and len(x[2]) == 1 and is_uri(x[2][0])}
    parses = {canon(x) for x in atoms_values(ics) if x[0] == 'call' and x[1].endswith('::parse') and len(x[2]) == 1 and strip(x[2][0])[0] == 'call' and
              strip(x[2][0])[1].endswith('::path') and is_uri(strip(x[2][0])[2][0])}
    sch = next(iter(schemes)) if len(schemes) == 1 else None
    prs = next(iter(parses)) if len(parses) == 1 else None

    def lt(a):
        """one of the two conjuncts of `scheme is Some(s) and s.as_str() == "libcnb"`"""
        if a == ('is', sch, POS):
            return 1
        if a[0] == 'bool' and a[2] is True and a[1][0] == 'eq':
            x, y = a[1][1], a[1][2]
            if x == ('const', 'libcnb'):
                x, y = y, x
            if y == ('const', 'libcnb') and x[0] == 'call' and x[1].endswith('::as_str') and len(x[2]) == 1 and x[2][0] == ('unwrap', sch):
                return 2
        return 0
    is_libcnb = lambda atoms: {lt(a) for a in atoms} >= {1, 2}
    not_libcnb = lambda atoms: any(a == ('is', sch, NEG) or (a[0] == 'bool' and lt((a[0], a[1], True)) == 2 and a[2] is False) or
                                   (a[0] == 'nall' and a[1] and all(lt(x) for x in a[1])) for a in atoms)
    kinds = {'some': [], 'none': [], 'err': [], 'other': []}
    for atoms, sh in ics:
        sig = shape_sig(sh)
        if sig == 'Ok(Some(_))':
            kinds['some'].append(is_libcnb(atoms) and canon(sh[1][1][1]) == ('unwrap', prs))
        elif sig == 'Ok(None)':
            kinds['none'].append(not_libcnb(atoms))
        elif sh[0] == 'Err':
            kinds['err'].append(is_libcnb(atoms) and mentions(sh, ('unwrap_err', prs)))
        else:
            kinds['other'].append(False)
    ok = sch is not None and prs is not None and not kinds['other'] and all(kinds[k] and all(kinds[k]) for k in ('some', 'none', 'err'))
    rep.check(ok, 'R1', 'scheme-test', w(idf), 'scheme present and == "libcnb" => Ok(Some(path.parse()?)); otherwise Ok(None)', 'libcnb: detection is ' + show(ics))
    # ---- R3 / R5 : absolutize (element mapping of pass 2) -------------------------------------------------------------
    seq = seqs[PASSES[1]]
    table = {}
    abs_args = []   # (path argument, base argument) of every absolutize_path call of the element mapping (R3 exact-args)
    NA = Normal(prog, sl, keep=(IDF, AP, UTIL + 'normalize_path'))
    if seq is not None and seq.mapped is not None:
        C2 = Cases(prog, sl, npd, stop=(AP,))
        for atoms, sh in elem_cases(C2, seq):
            sc = [a for a in atoms if a[0] == 'is' and a[2] in (POS, NEG) and a[1][0] == 'call' and a[1][1].endswith('::scheme')]
            arm = {POS: 'Some', NEG: 'None'}[sc[-1][2]] if sc and len({a[2] for a in sc}) == 1 else '?'
            subj_ok = bool(sc) and all(len(a[1][2]) == 1 and strip(a[1][2][0])[0] == 'field' and strip(a[1][2][0])[2] == 'uri' and
                                      same(strip(a[1][2][0])[1], seq.elem) for a in sc)
            if sh[0] == 'Ok' and sh[1][0] == 'val':
                row = ('verbatim', same(sh[1][1], seq.elem), subj_ok)
            elif sh[0] == 'val' and strip(sh[1])[0] == 'call' and strip(sh[1])[1].endswith('try_from'):
                ap = strip(strip(sh[1])[2][0])
                good = ap[0] == 'call' and ap[1] == AP
                if good:
                    # (in normal form: a base directory / path computed by a private helper or read from a field of a
                    #  context struct built by the entry point is what that helper returns / what was put into the field)
                    #  (each argument as written and in normal form: the element itself is named as the pass sees it)
                    a_pth, a_par = (ap[2][0], NA.nf(ap[2][0])), (ap[2][1], NA.nf(ap[2][1]))
                    abs_args.append((a_pth, a_par))
                    # the path of this element's URI, against the parent of the source package.toml
                    good = any(x[0] == 'call' and x[1].endswith('::path') and len(x[2]) == 1 and strip(x[2][0])[0] == 'field' and
                               strip(x[2][0])[2] == 'uri' and same(strip(x[2][0])[1], seq.elem) for pth in a_pth for x in walk(strip(pth))) and \
                        any(x[0] == 'call' and x[1] == 'std::path::Path::parent' and is_param(x[2][0], npd, 1) for par in a_par for x in walk(strip(par)))
                row = ('absolutize', good, subj_ok)
            else:
                row = (shape_sig(sh), False, subj_ok)
            table[arm] = row if arm not in table or table[arm] == row else ('conflict', False, False)
    ok = table == {'None': ('absolutize', True, True), 'Some': ('verbatim', True, True)}
    rep.extra['absolutize_arms'] = {k: list(v) for k, v in table.items()}
    rep.check(ok, 'R3', 'pass2/scheme-arms', w(npd), 'scheme-less => absolutize(path, parent of package.toml); any scheme => verbatim clone',
              'absolutisation arms: %s' % rep.extra.get('absolutize_arms'))
    # exact arguments of absolutize_path: the path is this element's URI path and the base is the parent directory of the
    # source package.toml *itself* (not a directory derived from it: `parent().and_then(Path::parent)`), up to conversions
    # between string / path representations and the (unobservable) fallback for a path without parent
    plain = not fmt_not_plain(sl, build_fns.values())
    base_ok = own_ok = bool(abs_args)

    def is_base(ba):
        b = carried(sl, ba, fmt=plain)
        return b[0] == 'call' and b[1] == 'std::path::Path::parent' and len(b[2]) == 1 and is_param(carried(sl, b[2][0]), npd, 1)

    def is_own(pa):
        p = carried(sl, pa, fmt=plain)
        u = carried(sl, p[2][0]) if p[0] == 'call' and len(p[2]) == 1 else ('unknown',)
        return p[0] == 'call' and p[1].endswith('::path') and u[0] == 'field' and u[2] == 'uri' and same(u[1], seq.elem)
    for pas, bas in abs_args:
        base_ok = base_ok and any(is_base(ba) for ba in bas)
        own_ok = own_ok and any(is_own(pa) for pa in pas)
    rep.check(base_ok, 'R3', 'pass2/base-dir', w(npd), 'relative paths are resolved against parent(<source package.toml>)',
              'the base directory of the absolutisation is %s' % [vstr(carried(sl, bas[-1]))[:120] for pas, bas in abs_args])
    rep.check(own_ok, 'R3', 'pass2/own-path', w(npd), 'the absolutised path is the whole path of the dependency URI',
              'the path handed to absolutize_path is %s' % [vstr(carried(sl, pas[-1]))[:160] for pas, bas in abs_args])
    ap = prog.fn(UTIL + 'absolutize_path')
    rep.analysed(ap)
    arms = {}
    for atoms, sh in Cases(prog, sl, ap, stop=(UTIL + 'normalize_path',)).fn_cases(ap):
        # `is_relative` and `!is_absolute` are the same test (Cases brings both to is_absolute)
        rel = [a for a in atoms if a[0] == 'bool' and a[1][0] == 'call' and a[1][1] == 'std::path::Path::is_absolute' and a[1][2] == (canon(sl.local(ap, 1)),) and is_param(sl.local(ap, 1), ap, 0)]
        if not rel or sh[0] != 'val':
            continue
        v = strip(sh[1])
        what = None
        if v[0] == 'call' and v[1] == UTIL + 'normalize_path':
            j = strip(v[2][0])
            what = 'normalize(join(parent, path))' if j[0] == 'call' and j[1] == 'std::path::Path::join' and is_param(j[2][0], ap, 1) and is_param(j[2][1], ap, 0) else 'normalize(?)'
        elif is_param(v, ap, 0):
            what = 'unchanged'
        if what:
            key = not rel[-1][2]
            arms[key] = what if arms.get(key, what) == what else 'conflict'
    rep.check(arms == {True: 'normalize(join(parent, path))', False: 'unchanged'}, 'R5', 'absolutize_path', w(ap), 'relative => normalize(parent.join(path)); absolute => unchanged',
              'absolutize_path arms: %s' % arms)
    # normalize_path: what happens to the result per path component, whether the components are visited by a `for` loop or
    # by a closure handed to fold / for_each (effects expansion enters both and reports the guards at every level)
    npf = prog.fn(UTIL + 'normalize_path')
    rep.analysed(npf)
    # The path being built is the PathBuf the function returns, or a stack of components (Vec<Component>) that is turned into
    # the returned PathBuf element by element, in order (`stack.into_iter().collect()`: FromIterator for PathBuf is one
    # PathBuf::push per element).  On the stack, `push(component)` is PathBuf::push(component); `pop()` is PathBuf::pop()
    # exactly when the top of the stack is a Normal component (PathBuf::pop does nothing on "", "/" or a bare prefix, and
    # the arms below allow nothing but Prefix / RootDir / Normal components to be pushed), so a stack pop must be guarded by
    # `stack.last()` being Some(Normal): that guard is the definition of PathBuf::pop, not an extra condition.
    VEC_PUSH, VEC_POP = 'std::vec::Vec::<T, A>::push', 'std::vec::Vec::<T, A>::pop'
    E = Effects(prog, sl, vocab={'std::path::PathBuf::push': ('PATH_PUSH', 0), 'std::path::PathBuf::pop': ('PATH_POP', 0),
                                 VEC_PUSH: ('PATH_PUSH', 0), VEC_POP: ('PATH_POP', 0)})
    stack_site = None
    rnames, rsrc = adapters(sl.local(npf, 0))
    rsrc = unwrapped(rsrc)
    if rnames and rnames[0] == iters.IT + 'collect' and set(rnames) <= {iters.IT + 'collect', 'std::iter::IntoIterator::into_iter', 'core::slice::<impl [T]>::iter',
                                                                       iters.IT + 'copied', iters.IT + 'cloned'} \
            and rsrc[0] == 'call' and rsrc[1].startswith('std::vec::Vec::<') and rsrc[1].endswith(('::new', '::with_capacity')) and len(rsrc) > 3 and rsrc[3]:
        mk = prog.fns[rsrc[3][0]].call_at(rsrc[3][1]) if rsrc[3][0] in prog.fns else None
        if mk is not None and re.match(r"^std::vec::Vec<std::path::Component<'\w+>>$", mk.dty or ''):
            stack_site = tuple(rsrc[3])
    on_stack = lambda v: stack_site is not None and unwrapped(v)[0] == 'call' and len(unwrapped(v)) > 3 and unwrapped(v)[3] is not None and tuple(unwrapped(v)[3]) == stack_site

    def path_effects():
        """pushes / pops on the path being built: (effect, on the component stack?)"""
        for e in E.expand(npf, 'may'):
            if e.kind not in ('PATH_PUSH', 'PATH_POP'):
                continue
            if (e.call.decl or e.call.name) in (VEC_PUSH, VEC_POP):
                if e.path is not None and on_stack(e.path):
                    yield e, True
                continue
            yield e, False

    def top_cond(cd):
        """a decision on the top of the component stack: `stack.last()` is Some / is a component of some kind"""
        sv = cd.subject if cd.subject is not None else cd.value
        if cd.kind != 'variant' or sv is None:
            return False
        x = unwrapped(sv)
        if x[0] == 'call' and x[1].endswith(('::last', '::last_mut')) and x[1].startswith(('core::slice::', 'std::slice::')) and len(x[2]) == 1:
            y = carried(sl, x[2][0])
            return on_stack(y)
        return False

    def pop_is_pathbuf_pop(e):
        """the stack pop happens exactly when PathBuf::pop would remove something: top of the stack is Some(Normal)"""
        tops = [cd for cd, views, subj in guards_of(E, e) if top_cond(cd)]
        return any(cd.enum == 'std::option::Option' and cd.outcome == frozenset({'Some'}) for cd in tops) and \
            any(cd.enum == 'std::path::Component' and 'Normal' in cd.outcome and cd.outcome <= {'Normal', 'CurDir', 'ParentDir'} for cd in tops)
    comp = {}
    counted = set()
    bare_pops = []
    for e, stk in path_effects():
        rep.analysed(e.call.fn)
        gs = [cd for cd, views, subj in guards_of(E, e)]
        cds = [cd for cd in gs if cd.kind == 'variant' and cd.enum == 'std::path::Component' and not top_cond(cd)]
        per_component = e.forall is not None or e.call.fn.in_loop(e.call.bb) or any(lk.call.fn.in_loop(lk.call.bb) for lk in e.chain)
        # (`RootDir | Normal(..) => push` is one arm for two kinds)
        # (one push / pop instruction reached along one call chain is one step of the rule, also when the expansion reports
        #  it once per alternative of the collection the loop runs over: `match front { [Prefix, rest @ ..] => rest, all => all }`)
        site = (e.call.fn.path, e.call.bb, tuple((lk.call.fn.path, lk.call.bb) for lk in e.chain), cds[-1].outcome if cds else None)
        if cds and cds[-1].outcome and per_component and site not in counted:
            counted.add(site)
            for kind in sorted(cds[-1].outcome):
                comp.setdefault(kind, []).append(e.call.name.split('::')[-1])
        if stk and e.kind == 'PATH_POP' and not pop_is_pathbuf_pop(e):
            bare_pops.append(e)
    if any(not [cd for cd, views, subj in guards_of(E, e) if not (cd.kind == 'variant' and cd.enum == 'std::path::Component' and not top_cond(cd)) and
                not (cd.kind == 'variant' and cd.enum == 'std::option::Option' and cd.outcome == frozenset({'Some'}))] for e in bare_pops):
        # nothing but the kind of the current component decides the pop: it also removes the root directory / the prefix
        comp.setdefault('ParentDir', []).append('pop of the root / prefix')
    want = {'RootDir': ['push'], 'ParentDir': ['pop'], 'Normal': ['push']}
    # (a Prefix component can only come first: pushing it inside the loop is what taking it off the front beforehand does)
    arms_ok = {k: v for k, v in comp.items() if k != 'Prefix'} == want and set(comp.get('Prefix', ['push'])) == {'push'}
    rep.check(arms_ok, 'R5', 'normalize_path/arms', w(npf), 'RootDir/Normal => push, ParentDir => pop, CurDir => nothing', 'normalize_path component arms: %s' % comp)
    # ... decided by the kind of the component alone: a push / pop that additionally depends on the state of the result, on
    # the file system (`if !result.is_symlink() { result.pop(); }`) or on anything else is not the lexical rule of the table
    extra = []
    for e, stk in path_effects():
        is_pop = stk and e.kind == 'PATH_POP' and pop_is_pathbuf_pop(e)
        for cd, views, subj in guards_of(E, e):
            sv = cd.subject if cd.subject is not None else cd.value
            if top_cond(cd):
                # the top-of-stack test that makes a stack pop the PathBuf::pop of the lexical rule (see above); on a push,
                # or in any other form, it is a dependence on the state of the result
                if is_pop and ((cd.enum == 'std::option::Option' and cd.outcome == frozenset({'Some'})) or
                               (cd.enum == 'std::path::Component' and 'Normal' in cd.outcome and cd.outcome <= {'Normal', 'CurDir', 'ParentDir'})):
                    continue
                extra.append('%s also depends on %s' % (e.call.name.split('::')[-1], vstr(sv)[:80]))
                continue
            if cd.kind == 'variant' and cd.enum == 'std::path::Component':
                continue
            if cd.kind == 'variant' and cd.enum == 'std::option::Option' and cd.outcome == frozenset({'Some'}) and \
                    unwrapped(sv)[0] == 'call' and unwrapped(sv)[1] in (iters.IT + 'next', 'std::iter::Peekable::<I>::next_if', 'std::iter::Peekable::<I>::peek'):
                continue
            extra.append('%s also depends on %s' % (e.call.name.split('::')[-1], vstr(sv)[:80]))
        if stk and e.kind == 'PATH_POP' and not is_pop:
            extra.append('pop from the component stack is not guarded by its top being a Normal component')
    if extra:
        rep.unproven('R5', 'normalize_path/by-kind-only', w(npf), '; '.join(sorted(set(extra))))
    else:
        rep.holds('R5', 'normalize_path/by-kind-only', w(npf), 'push / pop depend on the kind of the component only')
    # ... for EVERY component of the given path, in order: the components are visited by a loop that is left only when the
    # iterator is exhausted (no `break` / early `return`, e.g. "stop when `..` cannot pop any further") or by a closure
    # handed to a consumer that cannot stop (fold / for_each), and the iterator is `path.components()` itself, at most
    # wrapped by adapters that neither drop nor reorder elements
    TOTAL = (iters.IT + 'fold', iters.IT + 'for_each')
    KEEPS_ALL = {iters.IT + 'peekable', iters.IT + 'by_ref', iters.IT + 'fuse', 'std::iter::IntoIterator::into_iter'}
    visits, bad, unknown = [], [], []
    SLICE_VIEW = {'std::vec::Vec::<T, A>::as_slice', 'std::ops::Deref::deref', 'core::slice::<impl [T]>::iter', iters.IT + 'copied', iters.IT + 'cloned'}

    _adv = {}

    def only_prefix(f):
        """the predicate closure answers true for Prefix components only (`next_if(|c| matches!(c, Component::Prefix(..)))`)"""
        f = unwrapped(f)
        cl = prog.fns.get(f[1]) if f[0] == 'closure' else None
        if cl is None:
            return False
        rows = Cases(prog, sl, cl).rows(cl)
        for bi, v, conds, extra in rows:
            v = unwrapped(v)
            if v == ('const', False):
                continue
            if v != ('const', True) or not any(cd.kind == 'variant' and cd.enum == 'std::path::Component' and cd.outcome == frozenset({'Prefix'}) and
                                               cd.subject is not None and unwrapped(cd.subject)[0] == 'param' for cd in conds):
                return False
        return bool(rows)

    def advanced_elsewhere(g, next_call, coll0=None):
        key = (g.path, next_call.bb if next_call is not None else None)
        if key in _adv:
            return _adv[key]
        from .lib.guards import conditions as _conds
        out = []
        live = g.reachable(0)
        for pl, c in mut_borrows(g):
            ty = g.local_ty(pl[0]) or ''
            if 'std::path::Component' not in ty or re.match(r"^(&(?:'\w+ )?(?:mut )?)*(std::vec::Vec<|alloc::vec::Vec<|\[|std::option::Option<)", ty):
                continue
            if c is None:
                out.append('a stored mutable borrow')
                continue
            if c.bb not in live or (next_call is not None and c.bb == next_call.bb):
                continue
            # (`components.clone().next()`: a look-ahead on a throw-away copy advances the copy, not the iterator)
            ds = g.whole_defs(pl[0])
            if ds and all(d[0] == 'call' and (d[3].decl or '') == 'std::clone::Clone::clone' for d in ds) and \
                    [u for u in g.uses_of(pl[0]) if u[1] not in ('drop',)].__len__() == 1:
                continue
            last = (c.decl or c.name or '?').rsplit('::', 1)[-1]
            if last in ('peek', 'peek_mut', 'size_hint', 'len', 'as_path'):
                continue
            if last in ('by_ref', 'into_iter') and coll0 is not None and any(x[0] == 'call' and len(x) > 3 and x[3] is not None and tuple(x[3]) == (g.path, c.bb) for x in walk(coll0)):
                # (`for c in components.by_ref()`: the borrow is the collection the visiting loop / consumer runs over)
                continue
            if last in ('next', 'next_if', 'next_if_eq') and not g.in_loop(c.bb) and \
                    any(cd.kind == 'variant' and cd.enum == 'std::path::Component' and cd.outcome == frozenset({'Prefix'}) for cd in _conds(g, c.bb, sl)):
                continue
            if last == 'next_if' and not g.in_loop(c.bb) and len(c.args) == 2 and only_prefix(sl.operand(g, c.args[1])):
                continue
            out.append(last)
        _adv[key] = sorted(set(out))
        return _adv[key]

    def seq_view(v):
        """the sequence a slice view stands for (`v.as_slice()`, `&*v`, `&v[..]`)"""
        v = unwrapped(v)
        for _ in range(4):
            if v[0] == 'call' and len(v[2]) == 1 and v[1] in ('std::vec::Vec::<T, A>::as_slice', 'std::ops::Deref::deref'):
                v = unwrapped(v[2][0])
            elif v[0] == 'call' and v[1] == 'std::ops::Index::index' and len(v[2]) == 2 and unwrapped(v[2][1])[0] == 'agg' and unwrapped(v[2][1])[1] == 'std::ops::RangeFull':
                v = unwrapped(v[2][0])
            else:
                break
        return v

    def all_components(coll):
        """coll is `path.components()` itself, at most wrapped by adapters that neither drop nor reorder elements, or
        collected into a Vec and viewed as a slice (a finite sequence: the same elements in the same order)"""
        names, src = adapters(coll) if coll is not None else ([], ('unknown',))
        names = [n for n in names if n not in iters.COLLECTING]
        srcv = unwrapped(src)
        for _ in range(3):
            srcv = seq_view(srcv)
            if srcv[0] == 'call' and srcv[1] in iters.COLLECTING and len(srcv[2]) == 1:
                n2, s2 = adapters(srcv)
                names, srcv = names + [n for n in n2 if n not in iters.COLLECTING], unwrapped(s2)
        return set(names) <= KEEPS_ALL | SLICE_VIEW and srcv[0] == 'call' and srcv[1] == 'std::path::Path::components' and len(srcv[2]) == 1 and \
            is_param(carried(sl, srcv[2][0]), npf, 0)

    def drops(coll):
        """an adapter that is known to leave out / reorder elements sits on the collection"""
        names, src = adapters(coll) if coll is not None else ([], ('unknown',))
        return bool(set(names) & (iters.FEWER | iters.TRUNCATING | {iters.IT + 'rev', 'std::iter::DoubleEndedIterator::rev', iters.IT + 'filter_map', iters.IT + 'flat_map'}))

    def rest_of(c):
        """X when c is the sub-slice `X[1..]` (slice pattern `[first, rest @ ..]` or `&x[1..]`)"""
        if c[0] == 'index' and len(c) == 3 and c[2] == '[1..-0]':
            return c[1]
        if c[0] == 'call' and c[1] == 'std::ops::Index::index' and len(c[2]) == 2:
            r = unwrapped(c[2][1])
            if r[0] == 'agg' and r[1] == 'std::ops::RangeFrom' and dict(r[3]).get('start') == ('const', 1):
                return c[2][0]
        return None

    def front_is_prefix(g, whole):
        """every place of g where a sub-slice is taken is the sub-slice `[1..]`, reached only when element [0] of that same
        slice is a Prefix component (`[first @ Component::Prefix(..), rest @ ..]`, `Some(Component::Prefix(..)) = x.first()`):
        what is left out of the visit is the Windows path prefix that can only come first, as with `peek()` + `next()` on
        the iterator.  -> True | False (something else is left out) | None (a test on the first element that is not understood)"""
        from .lib.guards import conditions as _conds
        wv = canon(seq_view(whole))
        sites = []
        live = g.reachable(0)
        for bi, b in enumerate(g.blocks):
            if bi not in live:
                continue
            for st in b['s']:
                rv = st[2] if st[0] == '=' and len(st) > 2 and isinstance(st[2], dict) else None
                pl = rv.get('p') if rv is not None else None
                if isinstance(pl, list) and any(isinstance(x, str) and re.match(r'^\[\d+\.\.-?\d+\]$', x) for x in pl[1:]):
                    sites.append((bi, pl[-1] == '[1..-0]'))
        for c in g.calls:
            if c.bb in live and (c.decl or c.name) == 'std::ops::Index::index' and len(c.args) == 2:
                r = unwrapped(sl.operand(g, c.args[1]))
                if r[0] == 'agg' and r[1] == 'std::ops::RangeFull':
                    continue
                if r[0] == 'agg' and (r[1] or '').startswith('std::ops::Range'):
                    sites.append((c.bb, r[1] == 'std::ops::RangeFrom' and dict(r[3]).get('start') == ('const', 1) and canon(seq_view(sl.operand(g, c.args[0]))) == wv))
        if not sites:
            return False
        res = True
        for bi, one in sites:
            if not one:
                return False
            ok = about_first = False
            for cd in _conds(g, bi, sl):
                sv = cd.subject if cd.subject is not None else cd.value
                firsts = [x for x in walk(sv) if (x[0] == 'index' and len(x) == 3 and x[2] == '[0]' and canon(seq_view(x[1])) == wv) or
                          (x[0] == 'call' and x[1].endswith(('::first', '::get')) and x[2] and canon(seq_view(x[2][0])) == wv)] if sv is not None else []
                about_first = about_first or bool(firsts)
                s0 = unwrapped(cd.subject) if cd.subject is not None else None
                if cd.kind == 'variant' and cd.enum == 'std::path::Component' and cd.outcome == frozenset({'Prefix'}) and s0 is not None and \
                        ((s0[0] == 'index' and len(s0) == 3 and s0[2] == '[0]' and canon(seq_view(s0[1])) == wv) or
                         (s0[0] == 'call' and s0[1] == 'core::slice::<impl [T]>::first' and len(s0[2]) == 1 and canon(seq_view(s0[2][0])) == wv)):
                    ok = True
            if not ok:
                if not about_first:
                    return False
                res = None
        return res

    for e, stk in path_effects():
        # where the components are visited: the innermost loop around the effect or around a call on the way to it (the
        # per-component step may be a private helper called from the loop body), or the total consumer (fold / for_each) the
        # closure on the way was handed to
        levels = [(e.call.fn, e.call.bb, e.mapping, e.chain[-1] if e.chain else None)]
        for i in range(len(e.chain) - 1, -1, -1):
            lk = e.chain[i]
            levels.append((lk.call.fn, lk.call.bb, lk.mapping, e.chain[i - 1] if i > 0 else None))
        coll = coll0 = verdict_ = visit_fn = None
        for g, bb, mp, outer in levels:
            loops = [L for L in find_loops(g, sl) if bb in L.body and bb != L.header]
            if loops:
                L = min(loops, key=lambda L: len(L.body))
                if not loop_total(g, L):
                    verdict_ = ('bad', '%s: the loop over the components can be left before the last component' % e.call.name.split('::')[-1])
                else:
                    coll0 = L.collection
                    coll = E.subst(L.collection, mp) if mp and L.collection is not None else L.collection
                    verdict_, visit_fn = ('loop', None), g
                break
            if outer is not None and outer.call.decl in TOTAL and outer.call.args:
                # (the step handed to fold / for_each, as a closure or as a function item)
                coll = coll0 = sl.operand(outer.call.fn, outer.call.args[0])
                coll = E.subst(coll, outer.mapping) if outer.mapping else coll
                verdict_, visit_fn = ('total', None), outer.call.fn
                break
            if g.kind == 'Closure' and outer is not None:
                verdict_ = ('unknown', '%s runs in a closure handed to %s' % (e.call.name.split('::')[-1], (outer.call.decl or outer.call.name or '?').split('::')[-1]))
                break
        if verdict_ is None:
            # outside the visit of the components: the start value (a Windows path prefix taken off the front) is not
            # part of the per-component rule; anything else is not understood
            pre = [cd for cd, views, subj in guards_of(E, e) if cd.kind == 'variant' and cd.enum == 'std::path::Component' and not top_cond(cd)]
            if not (pre and all(cd.outcome == frozenset({'Prefix'}) for cd in pre)):
                unknown.append('%s outside the visit of the components' % e.call.name.split('::')[-1])
            continue
        if verdict_[0] == 'bad':
            bad.append(verdict_[1])
            continue
        if verdict_[0] == 'unknown':
            unknown.append(verdict_[1])
            continue
        # ... and nothing but that loop / consumer advances the iterator over the components (`components.next()` inside the
        # body skips a component, `components.next_back()` beforehand drops the last one); looking at the front (`peek`) is
        # not advancing, and taking the Windows path prefix off the front is the start value of the rule
        for what in advanced_elsewhere(visit_fn, L.next_call if verdict_[0] == 'loop' else None, coll0):
            unknown.append('the iterator over the components is also advanced by %s' % what)
        # (a start value / rest decided by a `match` on the front of the collected components gives one alternative each)
        cv = unwrapped(coll) if coll is not None else ('unknown',)
        calts = list(cv[1]) if cv[0] == 'phi' else [coll]
        status = [] if coll is not None else ['bad']
        for c1 in calts:
            c1u = unwrapped(c1)
            whole = rest_of(c1u)
            if whole is not None:
                fp = front_is_prefix(visit_fn, whole) if all_components(whole) and visit_fn.path == npf.path else False
                status.append('ok' if fp else ('unk' if fp is None else 'bad'))
            elif all_components(c1):
                status.append('ok')
            else:
                # (an adapter known to leave out elements is a breach; a view of the components that is not understood is not)
                status.append('bad' if drops(c1) or not any(x[0] == 'call' and x[1] == 'std::path::Path::components' for x in walk(c1u)) else 'unk')
        good = False if 'bad' in status else (None if 'unk' in status else True)
        if good:
            visits.append(e.call.name.split('::')[-1])
        elif good is None:
            unknown.append('%s: not understood which components are visited: %s' % (e.call.name.split('::')[-1], vstr(coll)[:100] if coll is not None else '?'))
        else:
            bad.append('%s: the components visited are %s' % (e.call.name.split('::')[-1], vstr(coll)[:100] if coll is not None else '?'))
    if unknown and not bad:
        rep.unproven('R5', 'normalize_path/every-component', w(npf), '; '.join(sorted(set(unknown))))
    else:
        rep.check(not bad and len(visits) >= 2, 'R5', 'normalize_path/every-component', w(npf), 'every component of the given path is visited, in order',
                  'normalize_path does not handle every component of its argument: %s' % (sorted(set(bad + unknown)) or 'no per-component push/pop found'))
    # ---- R6 ------------------------------------------------------------------------------------------------
    pc = prog.fn('libcnb_package::package::package_composite_buildpack')
    rep.analysed(pc)
    # the call that writes the descriptor, wherever it is made (in package_composite_buildpack itself or in a private phase
    # helper), with its arguments in the terms of package_composite_buildpack (effects expansion, write_toml_file as vocabulary)
    WT = 'libcnb_common::toml_file::write_toml_file'
    wr = [e for e in Effects(prog, sl, vocab={WT: ('TOMLW', 1)}).expand(pc, 'may') if e.kind == 'TOMLW' and len(e.args or ()) == 2]
    ok = len(wr) == 1
    if ok:
        # normal form (C14_helpers.Normal: private phase helpers of package.rs inlined, value.mk_unwrap): the same whether
        # the code says `read(..).and_then(|d| normalize(d, ..))?`, `let d = read(..)?; normalize(d, ..)?` or moves the
        # read + normalise into a helper of its own
        N6 = Normal(prog, sl, keep=(NPD, 'libcnb_common::toml_file::read_toml_file', WT))
        dv = N6.nf(wr[0].args[0])
        pv = strip(N6.nf(wr[0].args[1]))
        # (the error of the write is returned, at every level of the call chain)
        links = [getattr(lk, 'call', lk) for lk in wr[0].chain] + [wr[0].call]
        for c in links:
            rep.analysed(c.fn)
        propagated = all(verdict(result_fates(prog, c.fn, c)) == 'ok' for c in links)
        for gp in N6.entered:
            rep.analysed(prog.fns[gp])
        path_ok = pv[0] == 'call' and pv[1] == 'std::path::Path::join' and strip(pv[2][0])[0] == 'param' and strip(pv[2][0])[2] == 1 and strip(pv[2][1]) == ('const', 'package.toml')
        nv = strip(dv)
        ok = False
        if dv[0] == 'unwrap' and nv[0] == 'call' and nv[1] == PD + 'normalize_package_descriptor' and len(nv[2]) == 3 and path_ok:
            a = [strip(x) for x in nv[2]]
            src_path = lambda v: v[0] == 'call' and v[1] == 'std::path::Path::join' and strip(v[2][0])[0] == 'param' and strip(v[2][0])[2] == 0 \
                and strip(v[2][1]) == ('const', 'package.toml')
            rd = a[0][0] == 'call' and a[0][1] == 'libcnb_common::toml_file::read_toml_file' and src_path(strip(a[0][2][0])) and nv[2][0][0] == 'unwrap'
            # (descriptor read from <src>/package.toml, that same path, the id->path map parameter)
            ok = rd and src_path(a[1]) and a[2][0] == 'param' and a[2][1] == pc.path and a[2][2] == 2 \
                and propagated
    rep.check(ok, 'R6', 'written', w(pc), 'write_toml_file(normalize(read(<src>/package.toml), that path, id->path map)?, <dest>/package.toml)?',
              'the composite package.toml written is not the normalised source descriptor')
    # ... and it is the ONLY way <destination>/package.toml comes into being, on every success path: a second writer (a
    # verbatim fs::copy "fast path", a conditional skip of the normalising write) would leave relative paths behind
    from .lib.effects import Effects as _Eff
    E6 = _Eff(prog, sl)
    is_dest_pkg = lambda v: strip(v)[0] == 'call' and strip(v)[1] in ('std::path::Path::join', 'std::path::PathBuf::join') \
        and strip(strip(v)[2][0])[0] == 'param' and strip(strip(v)[2][0])[2] == 1 and strip(strip(v)[2][1]) == ('const', 'package.toml')
    via_writer = lambda e: any((c.name or '') == 'libcnb_common::toml_file::write_toml_file' for c in list(e.chain) + [e.call])
    may_w = [e for e in E6.expand(pc, 'may') if e.kind in ('WRITE', 'RENAME', 'OPEN') and e.path is not None and is_dest_pkg(e.path)]
    must_w = [e for e in E6.expand(pc, 'must') if e.kind == 'WRITE' and e.path is not None and is_dest_pkg(e.path) and via_writer(e)]
    others = [e for e in may_w if not via_writer(e)]
    rep.check(bool(must_w) and not others, 'R6', 'only-writer', w(pc), 'the normalising write is the only writer of <destination>/package.toml and runs on every success path',
              'package.toml can reach the destination without normalisation: %s' % ([('%s via %s' % (e.call.name, e.via())) for e in others] or 'the normalising write is conditional'))

    # ---- R7: the data carriers of libcnb-data ------------------------------------------------------------------------------
    # Everything above is about *which* path / dependency is put where; the conversions that carry the value are trusted by
    # it: PackageDescriptorDependency::try_from(path | str) (every replaced and every absolutised dependency goes through
    # it), the serialiser / deserialiser functions of the `uri` fields (every URI of the written package.toml goes through
    # the first, every URI "copied verbatim" came in through the second) and the names the platform is written with.
    # Each of them must hand on the value it is given: in normal form (helpers and closures inlined, conversions between
    # representations of the same string peeled) the URI is parse(<the argument>) resp. the string written is the URI
    # itself, and nothing in those functions holds a mutable borrow (an in-place `uri.normalize()`, `s.make_ascii_lowercase()`).
    PARSE = ('TryFrom::try_from', 'FromStr::from_str', '::parse', 'TryInto::try_into')
    URI_TYPES = (DATA + 'PackageDescriptorDependency', DATA + 'PackageDescriptorBuildpackReference')

    def parsed_from(v):
        """x when v is (a representation of) the URI parsed from x"""
        v = carried(sl, v, fmt=plain7)
        if v[0] == 'call' and len(v[2]) == 1 and v[1].endswith(PARSE):
            return carried(sl, v[2][0], fmt=plain7)
        return None

    def borrows(N2, f):
        fs = {f.path: f}
        for gp in N2.entered:
            fs[gp] = prog.fns[gp]
        for g in list(fs.values()):
            rep.analysed(g)
            for c in prog.closures_of(g):
                fs[c.path] = c
        out = []
        for g in fs.values():
            for pl, c in mut_borrows(g):
                out.append('%s in %s' % ((((c.name or c.decl) if c is not None else None) or 'a mutable borrow').rsplit('::', 1)[-1], g.path.rsplit('::', 1)[-1]))
        return sorted(set(out)), not fmt_not_plain(sl, fs.values())

    def carrier(subject, f, ok, good, bad):
        """value-level verdict + no in-place modification"""
        where = '%s:%d' % (f.file, f.line)
        if not ok:
            rep.violated('R7', subject, where, bad)
        elif N2b:
            rep.unproven('R7', subject, where, 'the value is modified through a mutable borrow: %s' % N2b)
        else:
            rep.holds('R7', subject, where, good)

    convs = prog.find(r"^<libcnb_data::package_descriptor::PackageDescriptorDependency as std::convert::TryFrom<.*>>::try_from$")
    rep.check(len(convs) >= 2, 'R7', 'conversions', 'libcnb-data/src/package_descriptor.rs', 'TryFrom<PathBuf> and TryFrom<&str> for PackageDescriptorDependency found',
              'conversions into PackageDescriptorDependency found: %s' % [f.path for f in convs])
    for f in convs:
        N2 = Normal(prog, sl)
        pv = strip(N2.payload(f))
        N2b, plain7 = borrows(N2, f)
        uv = dict(pv[3]).get('uri') if pv[0] == 'agg' and (pv[1] or '') == URI_TYPES[0] else None
        src = parsed_from(uv) if uv is not None else None
        src_ty = f.path.split('TryFrom<', 1)[1].rsplit('>>::', 1)[0]
        carrier('uri-from/' + src_ty.replace('std::path::', ''), f, src is not None and is_param(src, f, 0),
                'the dependency URI is the given %s, parsed' % src_ty, 'the URI of the converted dependency is %s' % vstr(carried(sl, uv) if uv is not None else pv)[:200])
    for t in URI_TYPES:
        short = t.rsplit('::', 1)[-1]
        sw = [f for f in prog.find(r"Serialize for %s>::serialize::__SerializeWith.*::serialize$" % re.escape(t))]
        sfs = {c.name for f in sw for c in f.calls if not c.indirect and c.name in prog.fns and prog.fns[c.name].kind != 'Closure'}
        dw = [f for f in prog.find(r"Deserialize<'de> for %s>::deserialize::__Visitor.*::visit_map::__DeserializeWith.*::deserialize$" % re.escape(t))]
        dfs = {c.name for f in dw for c in f.calls if not c.indirect and c.name in prog.fns and prog.fns[c.name].kind != 'Closure'}
        a = prog.adts.get(t) or {}
        where = '%s:%s' % (a.get('file', 'libcnb-data/src/package_descriptor.rs'), a.get('line', 0))
        rep.check(len(sfs) == 1 and len(dfs) == 1, 'R7', 'uri-codec/' + short, where, 'the uri field is written / read by one function each',
                  '%s.uri is written by %s and read by %s (expected one string codec each)' % (short, sorted(sfs), sorted(dfs)))
        for fp in sorted(sfs):
            f = prog.fns[fp]
            N2 = Normal(prog, sl)
            rv = unwrapped(N2.nf(sl.local(f, 0)))
            N2b, plain7 = borrows(N2, f)
            ok = rv[0] == 'call' and rv[1].endswith(('Serializer::serialize_str', 'Serializer::collect_str')) and len(rv[2]) == 2 and \
                is_param(carried(sl, rv[2][0]), f, 1) and is_param(carried(sl, rv[2][1], fmt=plain7), f, 0)
            carrier('uri-written/' + short, f, ok, 'the string written is the URI itself', 'the uri field is written as %s' % vstr(rv)[:200])
        for fp in sorted(dfs):
            f = prog.fns[fp]
            N2 = Normal(prog, sl)
            pv = N2.payload(f)
            N2b, plain7 = borrows(N2, f)
            src = parsed_from(pv)
            ok = src is not None and src[0] == 'call' and src[1].endswith('::deserialize') and \
                any(x in src[1] for x in ('for std::string::String>', "for std::borrow::Cow<'", 'for &')) and len(src[2]) == 1 and is_param(carried(sl, src[2][0]), f, 0)
            carrier('uri-read/' + short, f, ok, 'the URI is the string of the document, parsed', 'the uri field is read as %s' % vstr(carried(sl, pv))[:200])
    # names: what is written for the platform (and under which keys) is what the package.toml schema says; no key is skipped
    from .lib import serde_schema as S
    SPEC = {DATA + 'PackageDescriptor': ['buildpack', 'dependencies', 'platform'], DATA + 'PackageDescriptorBuildpackReference': ['uri'],
            DATA + 'PackageDescriptorDependency': ['uri'], DATA + 'Platform': ['os']}
    problems, undecided = [], []
    for t, want in SPEC.items():
        se = S.ser_struct(prog, sl, t)
        if se is None or se['kind'] != 'struct' or se['problems']:
            undecided.append('%s: %s' % (t.rsplit('::', 1)[-1], 'derived struct Serialize not found' if se is None else (se['problems'] or se['kind'])))
            continue
        for fp in se['fns']:
            rep.analysed(prog.fns[fp])
        if sorted(se['keys']) != sorted(want):
            problems.append('%s is written with keys %s' % (t.rsplit('::', 1)[-1], sorted(se['keys'])))
        for key, k in se['keys'].items():
            if k.skip_pred and not (key == 'dependencies' and k.skip_pred == 'std::vec::Vec::<T, A>::is_empty'):
                undecided.append('%s.%s is skipped when %s' % (t.rsplit('::', 1)[-1], key, k.skip_pred))
    se = S.ser_struct(prog, sl, DATA + 'PlatformOs')
    got = se['variants'] if se else None
    if got != {'Linux': 'linux', 'Windows': 'windows'}:
        problems.append('PlatformOs is written as %s' % got)
    a = prog.adts.get(DATA + 'PlatformOs') or {}
    where = '%s:%s' % (a.get('file', 'libcnb-data/src/package_descriptor.rs'), a.get('line', 0))
    if undecided and not problems:
        rep.unproven('R7', 'names', where, '; '.join(undecided))
    else:
        rep.check(not problems, 'R7', 'names', where, 'keys buildpack / dependencies / platform / uri / os; platform os written as "linux" / "windows"',
                  'the written package.toml does not use the schema names: %s' % '; '.join(problems + undecided))
