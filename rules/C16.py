"""C16 — libcnb-test removes every Docker resource and temp dir however the test ends.

Decided structurally (RAII typestate; "an owned value with a Drop impl is dropped on every exit edge,
unwinding included" is the language's guarantee):
  R1 release actions  Drop for TemporaryDockerResources runs `docker rmi --force <self.image_name>` and
                      `docker volume remove --force <both cache volume names>`; Drop for ContainerContext runs
                      `docker rm --force <self.container_name>` (field provenance through the command structs)
  R2 acquire-before-use the guard exists before the first command that can create the resource: the image /
                      volume guard is a by-value parameter of build_internal (constructed in build), the
                      container guard is constructed at a block dominating `docker run`; the guard-owning
                      functions contain a Drop of the guard on an unwind (cleanup) block
  R3 no escape        no mem::forget / ManuallyDrop / Box::leak / TempDir::into_path|keep in libcnb-test
  R4 exactly once     the guard types implement neither Clone nor Copy; single construction site each; names come
                      from random_docker_identifier; rebuild takes self by value and forwards the same guard
  R5 temp dirs        the app copy and the buildpack output dir are owned as TempDir values (local / enum field)
  R6 no abort         no Cargo profile in the workspace sets panic = "abort"
Not decided: that Docker honours the commands; double faults (a panicking ContainerContext::drop during unwinding
aborts the process) — documented observation, two independent faults are outside the one-injection quantifier.
"""
import os
from .lib.cmdmodel import command_model, from_command_fns
from .lib.effects import vocab_lookup
from .lib.paths import strip
from .lib.value import vstr, walk

TDR = 'libcnb_test::test_runner::TemporaryDockerResources'
CC = 'libcnb_test::container_context::ContainerContext'
RUN = 'libcnb_test::util::run_command'


def drop_commands(prog, sl, ty):
    f = prog.fns.get('<%s as std::ops::Drop>::drop' % ty)
    if f is None:
        return None, []
    out = []
    for c in f.calls:
        if c.name == RUN:
            out.append((c, strip(sl.operand(f, c.args[0]))))
    return f, out


def self_fields(v, f):
    res = []
    for x in walk(v):
        if x[0] == 'field' and x[1][0] == 'param' and x[1][1] == f.path and x[1][2] == 0:
            res.append(x[2])
    return res


def run(ctx, rep):
    prog, sl = ctx.prog, ctx.slicer
    for r, d in (('R1', 'drop impls issue the forced removal commands for exactly their own names'), ('R2', 'guards exist before the resource can be created and are dropped on unwind'),
                 ('R3', 'no leak primitives in libcnb-test'), ('R4', 'single owner: no Clone/Copy, one construction site, rebuild forwards the guard by value'),
                 ('R5', 'temporary directories are owned TempDir values'), ('R6', 'no panic = "abort" profile')):
        rep.rule(r, d)
    rep.not_decided = ['that Docker honours the commands', 'double-fault abort when ContainerContext::drop panics during unwinding (observation)']
    cmds = from_command_fns(prog)
    models = {ty: command_model(prog, sl, f) for ty, f in cmds.items()}
    w = lambda f: '%s:%d' % (f.file, f.line)

    def removal_shape(ty, sub, field):
        """From<ty>: args [sub..., field], --force under field force; new() sets force = true"""
        m = models.get(ty)
        if m is None:
            return False, 'conversion not found'
        program, items = m
        consts = [e[1] for it in items for e in it.elems if e[0] == 'const']
        fields = [e[1] for it in items for e in it.elems if e[0] == 'field']
        force = [it for it in items if it.elems == [('const', '--force')]]
        ok = program == 'docker' and consts[:len(sub)] == sub and fields == [field] and len(force) == 1 and force[0].conds == [('force', True)]
        nf = prog.fns.get(ty + '::new')
        if nf is None:
            return False, 'constructor not found'
        nv = strip(sl.local(nf, 0))
        fl = dict(nv[3]) if nv[0] == 'agg' else {}
        forced = strip(fl.get('force', ('unknown',))) == ('const', True)
        named = any(x[0] == 'param' and x[2] == 0 for x in walk(fl.get(field, ('unknown',))))
        return ok and forced and named, 'argv=%s %s fields=%s force_guard=%s force_default=%s' % (program, consts, fields, [it.conds for it in force], forced)

    # ---- R1 --------------------------------------------------------------------------------------------
    f, cs = drop_commands(prog, sl, TDR)
    if f is None:
        rep.violated('R1', 'resources/drop-impl', '-', 'TemporaryDockerResources has no Drop impl: image and volumes are never removed')
    else:
        rep.analysed(f)
        got = {}
        for c, v in cs:
            if v[0] == 'call':
                got[v[1]] = (c, sorted(self_fields(v, f)))
        img = got.get('libcnb_test::docker::DockerRemoveImageCommand::new')
        vol = got.get('libcnb_test::docker::DockerRemoveVolumeCommand::new')
        rep.check(img is not None and img[1] == ['image_name'], 'R1', 'resources/image', w(f), 'drop removes self.image_name', 'drop does not remove the image by its own name: %s' % (img and img[1]))
        rep.check(vol is not None and vol[1] == ['build_cache_volume_name', 'launch_cache_volume_name'], 'R1', 'resources/volumes', w(f),
                  'drop removes both cache volumes', 'drop removes volumes %s (expected both cache volumes)' % (vol and vol[1]))
        for ty, sub, field in (('libcnb_test::docker::DockerRemoveImageCommand', ['rmi'], 'image_name'), ('libcnb_test::docker::DockerRemoveVolumeCommand', ['volume', 'remove'], 'volume_names')):
            ok, why = removal_shape(ty, sub, field)
            rep.check(ok, 'R1', 'command/' + ty.split('::')[-1], w(cmds[ty]) if ty in cmds else '-', 'docker %s --force <names>' % ' '.join(sub), 'removal command shape: ' + why)
        # the drop must not diverge before both commands ran: both calls unconditional
        rets = f.return_blocks()
        rep.check(all(f.dominates(c.bb, r) for c, v in cs for r in rets) and len(cs) == 2, 'R1', 'resources/unconditional', w(f), 'both removals run on every drop', 'a removal is conditional')
    g, cs = drop_commands(prog, sl, CC)
    if g is None:
        rep.violated('R1', 'container/drop-impl', '-', 'ContainerContext has no Drop impl: detached containers are never removed')
    else:
        rep.analysed(g)
        ok = len(cs) == 1 and cs[0][1][0] == 'call' and cs[0][1][1] == 'libcnb_test::docker::DockerRemoveContainerCommand::new' and self_fields(cs[0][1], g) == ['container_name']
        rep.check(ok, 'R1', 'container/remove', w(g), 'drop removes self.container_name', 'container drop does not remove its own container')
        ok, why = removal_shape('libcnb_test::docker::DockerRemoveContainerCommand', ['rm'], 'container_name')
        rep.check(ok, 'R1', 'command/DockerRemoveContainerCommand', w(g), 'docker rm --force <name>', 'removal command shape: ' + why)
    # ---- R2 --------------------------------------------------------------------------------------------
    bi = prog.find_one(r'^libcnb_test::test_runner::TestRunner::build_internal$')
    rep.analysed(bi)
    rep.check(bi.args[1] == TDR, 'R2', 'resources/by-value-param', w(bi), 'build_internal owns the guard (by-value parameter)', 'build_internal takes the guard as %s' % bi.args[1])
    unwind_drops = [b for b in bi.blocks if b['cleanup'] and b['t']['t'] == 'drop' and b['t']['p'] == [2]]
    rep.check(bool(unwind_drops), 'R2', 'resources/unwind-drop', w(bi), 'the guard is dropped on the unwind path of build_internal', 'no unwind-path drop of the guard in build_internal')
    spawns = [c for c in bi.calls if c.name == RUN]
    tc = [s for b in bi.blocks for s in b['s'] if s[0] == '=' and s[2]['r'] == 'agg' and (s[2].get('adt') or '').endswith('TestContext')]
    ok = len(tc) == 1
    if ok:
        v = sl._rvalue(bi, tc[0][2], set(), 0, None)
        dr = strip(dict(v[3]).get('docker_resources', ('unknown',)))
        ok = dr[0] == 'param' and dr[2] == 1
    rep.check(ok and bool(spawns), 'R2', 'resources/moved-into-context', w(bi), 'the same guard is moved into the TestContext handed to the test closure', 'the guard is not moved into the TestContext')
    # pack uses the guard's names
    pk = [c for c in bi.calls if c.name == 'libcnb_test::pack::PackBuildCommand::new']
    ok = len(pk) == 1
    if ok:
        a = [strip(sl.operand(bi, x)) for x in pk[0].args]
        names = [x[2] if x[0] == 'field' and x[1][0] == 'param' and x[1][2] == 1 else None for x in a[2:5]]
        ok = names == ['image_name', 'build_cache_volume_name', 'launch_cache_volume_name']
    rep.check(ok, 'R2', 'resources/names-used', w(bi), 'pack builds exactly the image / volumes named by the guard', 'pack is not given the guard\'s image/volume names')
    sc = prog.find_one(r"^libcnb_test::test_context::TestContext::<'_>::start_container$")
    rep.analysed(sc)
    ccs = [(bi2, s) for bi2, b in enumerate(sc.blocks) for s in b['s'] if s[0] == '=' and s[2]['r'] == 'agg' and s[2].get('adt') == CC]
    runs = [c for c in sc.calls if c.name == RUN]
    ok = len(ccs) == 1 and len(runs) == 1 and sc.dominates(ccs[0][0], runs[0].bb)  # same block: statements precede the call terminator
    rep.check(ok, 'R2', 'container/guard-before-run', runs[0].where() if runs else w(sc), 'ContainerContext is constructed before `docker run` is issued',
              'the container guard is created after (or not on every path before) `docker run`: a failing/panicking start leaks the detached container')
    if ok:
        v = sl._rvalue(sc, ccs[0][1][2], set(), 0, None)
        nm = strip(dict(v[3]).get('container_name', ('unknown',)))
        rn = [c for c in sc.calls if c.name == 'libcnb_test::docker::DockerRunCommand::new']
        same = len(rn) == 1 and strip(sl.operand(sc, rn[0].args[1])) == nm and nm[0] == 'call' and nm[1] == 'libcnb_test::util::random_docker_identifier'
        rep.check(same, 'R2', 'container/same-name', w(sc), 'guard and `docker run --name` use the same generated name', 'the guard does not hold the name given to docker run')
        lcl = ccs[0][1][1][0]
        ud = [b for b in sc.blocks if b['cleanup'] and b['t']['t'] == 'drop' and b['t']['p'] == [lcl]]
        rep.check(bool(ud), 'R2', 'container/unwind-drop', w(sc), 'container guard dropped on the unwind path', 'no unwind-path drop of the container guard')
    # ---- R3 --------------------------------------------------------------------------------------------
    bad = []
    n = 0
    for f2 in prog.fns.values():
        if f2.crate != 'libcnb_test':
            continue
        n += 1
        for c in f2.calls:
            ve = vocab_lookup(c)
            if ve and ve[0] == 'FORGET':
                bad.append('%s at %s' % (c.name, c.where()))
            if c.name and c.name.startswith('tempfile::') and c.name.split('::')[-1] in ('into_path', 'keep', 'persist', 'disable_cleanup'):
                bad.append('%s at %s' % (c.name, c.where()))
    rep.check(not bad, 'R3', 'no-leak-primitives', 'libcnb-test', 'no forget/leak/keep in %d functions' % n, 'leak primitives used: %s' % bad)
    # ---- R4 --------------------------------------------------------------------------------------------
    for ty in (TDR, CC):
        traits = [i['trait'] for i in prog.impls if i['self_head'] == ty]
        rep.check(not ({'std::clone::Clone', 'std::marker::Copy'} & set(traits)), 'R4', 'no-clone/' + ty.split('::')[-1], '-', 'neither Clone nor Copy', '%s implements %s' % (ty, traits))
        sites = [(f2.path, bi2) for f2 in prog.fns.values() if not f2.derived for bi2, b in enumerate(f2.blocks) for s in b['s']
                 if s[0] == '=' and s[2]['r'] == 'agg' and s[2].get('adt') == ty]
        want = 'libcnb_test::test_runner::TestRunner::build' if ty == TDR else sc.path
        rep.check([p for p, _ in sites] == [want], 'R4', 'construction/' + ty.split('::')[-1], '-', 'constructed only in %s' % want.split('::')[-1], 'constructed in %s' % sites)
    bf = prog.find_one(r'^libcnb_test::test_runner::TestRunner::build$')
    rep.analysed(bf)
    agg = [s for b in bf.blocks for s in b['s'] if s[0] == '=' and s[2]['r'] == 'agg' and s[2].get('adt') == TDR]
    if agg:
        v = sl._rvalue(bf, agg[0][2], set(), 0, None)
        names = {'image_name', 'build_cache_volume_name', 'launch_cache_volume_name'}
        ok = names <= {n for n, _ in v[3]} and all(any(x[0] == 'call' and x[1] == 'libcnb_test::util::random_docker_identifier' for x in walk(fv))
                                                     for n, fv in v[3] if n in names)
        rep.check(ok, 'R4', 'names-generated', w(bf), 'all three names derive from random_docker_identifier()', 'resource names are not generated per run: ' + vstr(v)[:160])
    rb = prog.find_one(r"^libcnb_test::test_context::TestContext::<'_>::rebuild$")
    rep.analysed(rb)
    call = [c for c in rb.calls if c.name and c.name.endswith('TestRunner::build_internal')]
    ok = rb.args[0].startswith('libcnb_test::test_context::TestContext<') and len(call) == 1
    if ok:
        a1 = strip(sl.operand(rb, call[0].args[1]))
        ok = a1[0] == 'field' and a1[2] == 'docker_resources' and a1[1][0] == 'param' and a1[1][2] == 0
    rep.check(ok, 'R4', 'rebuild', w(rb), 'rebuild consumes self and forwards the same guard', 'rebuild does not forward its own guard by value')
    # ---- R5 --------------------------------------------------------------------------------------------
    tys = [l['ty'] for l in bi.locals]
    rep.check('tempfile::TempDir' in tys and 'libcnb_test::app::AppDir' in tys, 'R5', 'locals', w(bi), 'build_internal owns a TempDir (buildpacks) and an AppDir', 'temp dir locals: %s' % [t for t in tys if 'Temp' in t or 'AppDir' in t])
    ad = prog.adt('libcnb_test::app::AppDir')
    tv = [v for v in ad['variants'] if v['name'] == 'Temporary']
    rep.check(bool(tv) and tv[0]['fields'][0]['ty'] == 'tempfile::TempDir', 'R5', 'AppDir', '%s:%s' % (ad['file'], ad['line']), 'AppDir::Temporary owns a TempDir', 'AppDir::Temporary does not own a TempDir')
    ca = prog.fn('libcnb_test::app::copy_app')
    rep.analysed(ca)
    cl = prog.closures_of(ca)
    ok = any(any(c.full and c.full.startswith('<tempfile::TempDir as std::convert::Into<libcnb_test::app::AppDir>>::into') or
                 (c.full or '').startswith('<libcnb_test::app::AppDir as std::convert::From<tempfile::TempDir>>::from') for c in g2.calls) for g2 in cl)
    rep.check(ok, 'R5', 'copy_app', w(ca), 'the app copy is returned as the owning TempDir', 'copy_app does not return the owning TempDir')
    ds = prog.find_one(r"^libcnb_test::test_context::TestContext::<'_>::download_sbom_files$")
    rep.check('tempfile::TempDir' in [l['ty'] for l in ds.locals], 'R5', 'sbom-dir', w(ds), 'SBOM download dir is an owned TempDir', 'SBOM download dir is not an owned TempDir')
    # ---- R6 --------------------------------------------------------------------------------------------
    import tomllib
    bad = []
    seen = 0
    for d, dn, fn in os.walk(ctx.repo):
        dn[:] = [x for x in dn if x not in ('target', '.git')]
        if 'Cargo.toml' in fn:
            seen += 1
            try:
                doc = tomllib.load(open(os.path.join(d, 'Cargo.toml'), 'rb'))
            except Exception as e:
                bad.append('%s unreadable: %s' % (d, e))
                continue
            for name, prof in (doc.get('profile') or {}).items():
                if isinstance(prof, dict) and prof.get('panic') == 'abort':
                    bad.append('%s [profile.%s]' % (os.path.join(d, 'Cargo.toml'), name))
    rep.check(not bad and seen > 0, 'R6', 'profiles', 'Cargo.toml', 'no profile sets panic = "abort" (%d manifests)' % seen, 'panic = "abort" in %s: Drop guards would not run' % bad)
    crate_panic = [v['panic'] for k, v in prog.crates.items() if k[0] == 'libcnb_test']
    rep.check(crate_panic == ['Unwind'], 'R6', 'strategy', '-', 'libcnb_test is compiled with panic=unwind', 'libcnb_test panic strategy: %s' % crate_panic)
