"""C16 — libcnb-test removes every Docker resource and temp dir however the test ends.

Decided structurally (RAII typestate; "an owned value with a Drop impl is dropped on every exit edge,
unwinding included" is the language's guarantee):
  R1 release actions  Drop for TemporaryDockerResources runs `docker rmi --force <self.image_name>` and
                      `docker volume remove --force <both cache volume names>`; Drop for ContainerContext runs
                      `docker rm --force <self.container_name>` (field provenance through the command structs)
  R2 acquire-before-use the guard exists before the first command that can create the resource: the image /
                      volume guard is a by-value parameter of build_internal (constructed in build), the
                      container guard is constructed at a block dominating `docker run`; the guard-owning
                      functions contain a Drop of the guard on an unwind (cleanup) block
  R3 no escape        no mem::forget / ManuallyDrop / Box::leak / TempDir::into_path|keep in libcnb-test
  R4 exactly once     the guard types implement neither Clone nor Copy; single construction site each; names come
                      from random_docker_identifier; rebuild takes self by value and forwards the same guard
  R5 temp dirs        the app copy and the buildpack output dir are owned as TempDir values (local / enum field)
  R6 no abort         no Cargo profile in the workspace sets panic = "abort"
Not decided: that Docker honours the commands; double faults (a panicking ContainerContext::drop during unwinding
aborts the process) — documented observation, two independent faults are outside the one-injection quantifier.

How the obligations are read off the facts (so that they hold for every spelling of the same behaviour):
  * "drop runs command X" / "start_container issues `docker run`" / "pack is given names" / "rebuild forwards the guard"
    are effects (lib/effects.py) of the entry function with run_command, the command constructors and build_internal in
    the vocabulary: helpers, closures handed to combinators and loops over literal command tables are transparent and
    the arguments arrive in the entry function's terms; "on every drop" is must == may.
  * "the guard handed to the test closure" is the argument of the CALLBACK effect, not a particular statement.
  * "constructed only in build" is over construction sites with private constructor helpers made transparent
    (C16_helpers.construction_sites); guard values are compared as inline_deep normal forms.
  * "copy_app returns the owning TempDir" is the success payload (mk_unwrap) of copy_app: the tempdir() value sits in a
    field of AppDir that owns a TempDir by value (enum payload / struct field, also as Option / Box of it).
  * "the guard exists before `docker run`" is judged in the frame that issues the command (C16_helpers.guard_frames):
    start_container, or the private function that makes the guard, runs the command and hands the guard back by value;
    the unwind drop is required in every frame that issues a command while owning the guard.
"""
import os
from .lib.cmdmodel import command_model, from_command_fns
from .lib.effects import Effects, vocab_lookup
from .lib.paths import strip
from .lib.value import vstr, walk, canon
from .C16_helpers import construction_sites, guard_frames, held, owning_fields, param_fields, top_call

TDR = 'libcnb_test::test_runner::TemporaryDockerResources'
CC = 'libcnb_test::container_context::ContainerContext'
RUN = 'libcnb_test::util::run_command'
RID = 'libcnb_test::util::random_docker_identifier'
BI = 'libcnb_test::test_runner::TestRunner::build_internal'
PACK_NEW = 'libcnb_test::pack::PackBuildCommand::new'
DRUN_NEW = 'libcnb_test::docker::DockerRunCommand::new'
RM_IMAGE = 'libcnb_test::docker::DockerRemoveImageCommand'
RM_VOLUME = 'libcnb_test::docker::DockerRemoveVolumeCommand'
RM_CONTAINER = 'libcnb_test::docker::DockerRemoveContainerCommand'
RM_CTORS = {t + '::new': t for t in (RM_IMAGE, RM_VOLUME, RM_CONTAINER)}
GUARD_NAMES = ['image_name', 'build_cache_volume_name', 'launch_cache_volume_name']


def run(ctx, rep):
    prog, sl = ctx.prog, ctx.slicer
    for r, d in (('R1', 'drop impls issue the forced removal commands for exactly their own names'), ('R2', 'guards exist before the resource can be created and are dropped on unwind'),
                 ('R3', 'no leak primitives in libcnb-test'), ('R4', 'single owner: no Clone/Copy, one construction site, rebuild forwards the guard by value'),
                 ('R5', 'temporary directories are owned TempDir values'), ('R6', 'no panic = "abort" profile')):
        rep.rule(r, d)
    rep.not_decided = ['that Docker honours the commands', 'double-fault abort when ContainerContext::drop panics during unwinding (observation)']
    cmds = from_command_fns(prog)
    models = {ty: command_model(prog, sl, f) for ty, f in cmds.items()}
    w = lambda f: '%s:%d' % (f.file, f.line)
    # call sites of these functions are enumerated context-sensitively, arguments in the entry function's terms
    E = Effects(prog, sl, vocab={RUN: ('RUN', 0), PACK_NEW: ('PACK_NEW', None), DRUN_NEW: ('DRUN_NEW', None), BI: ('BUILD_INTERNAL', None)})
    _exp = {}

    def effects(f, mode):
        k = (f.path, mode)
        if k not in _exp:
            _exp[k] = E.expand(f, mode)
        return _exp[k]

    def removal_shape(ty, sub, field):
        """From<ty>: args [sub..., field], --force under field force; new() sets force = true"""
        m = models.get(ty)
        if m is None:
            return False, 'conversion not found'
        program, items = m
        consts = [e[1] for it in items for e in it.elems if e[0] == 'const']
        fields = [e[1] for it in items for e in it.elems if e[0] == 'field']
        force = [it for it in items if it.elems == [('const', '--force')]]
        ok = program == 'docker' and consts[:len(sub)] == sub and fields == [field] and len(force) == 1 and force[0].conds == [('force', True)]
        nf = prog.fns.get(ty + '::new')
        if nf is None:
            return False, 'constructor not found'
        nv = strip(sl.local(nf, 0))
        fl = dict(nv[3]) if nv[0] == 'agg' else {}
        forced = strip(fl.get('force', ('unknown',))) == ('const', True)
        named = any(x[0] == 'param' and x[2] == 0 for x in walk(fl.get(field, ('unknown',))))
        return ok and forced and named, 'argv=%s %s fields=%s force_guard=%s force_default=%s' % (program, consts, fields, [it.conds for it in force], forced)

    def drop_runs(ty):
        """(drop fn, commands the drop may run, commands it runs on every drop) as RUN effects in terms of `self`"""
        f = prog.fns.get('<%s as std::ops::Drop>::drop' % ty)
        if f is None:
            return None, [], []
        return f, [e for e in effects(f, 'may') if e.kind == 'RUN'], [e for e in effects(f, 'must') if e.kind == 'RUN']

    def removal(e, f):
        """what a command handed to run_command denotes: (removal command type | None, fields of self it names).
        `X::new(..)` (force default checked with the command shape) and a literal `X { force: true, .. }` are the same
        command; private helpers producing it are inlined"""
        v = sl.inline_deep(strip(e.path), keep=tuple(RM_CTORS))
        if v[0] == 'call' and v[1] in RM_CTORS:
            return RM_CTORS[v[1]], param_fields(v, f.path, 0)
        if v[0] == 'agg' and v[1] in RM_CTORS.values() and strip(dict(v[3]).get('force', ('unknown',))) == ('const', True):
            return v[1], param_fields(v, f.path, 0)
        return None, []

    ekey = lambda e: (id(e.call), canon(e.path) if e.path is not None else None)

    # ---- R1 --------------------------------------------------------------------------------------------
    f, may, must = drop_runs(TDR)
    if f is None:
        rep.violated('R1', 'resources/drop-impl', '-', 'TemporaryDockerResources has no Drop impl: image and volumes are never removed')
    else:
        rep.analysed(f)
        got = {}
        for e in may:
            ty, fields = removal(e, f)
            if ty is not None:
                got[ty] = sorted(fields)
        img = got.get(RM_IMAGE)
        vol = got.get(RM_VOLUME)
        rep.check(img == ['image_name'], 'R1', 'resources/image', w(f), 'drop removes self.image_name', 'drop does not remove the image by its own name: %s' % img)
        rep.check(vol == ['build_cache_volume_name', 'launch_cache_volume_name'], 'R1', 'resources/volumes', w(f),
                  'drop removes both cache volumes', 'drop removes volumes %s (expected both cache volumes)' % vol)
        for ty, sub, field in ((RM_IMAGE, ['rmi'], 'image_name'), (RM_VOLUME, ['volume', 'remove'], 'volume_names')):
            ok, why = removal_shape(ty, sub, field)
            rep.check(ok, 'R1', 'command/' + ty.split('::')[-1], w(cmds[ty]) if ty in cmds else '-', 'docker %s --force <names>' % ' '.join(sub), 'removal command shape: ' + why)
        # the drop must not diverge before both commands ran: exactly the two removals, each on every path through drop
        mk = {ekey(e) for e in must}
        rep.check(len(may) == 2 and all(ekey(e) in mk for e in may), 'R1', 'resources/unconditional', w(f), 'both removals run on every drop', 'a removal is conditional')
    g, may, must = drop_runs(CC)
    if g is None:
        rep.violated('R1', 'container/drop-impl', '-', 'ContainerContext has no Drop impl: detached containers are never removed')
    else:
        rep.analysed(g)
        ok = len(may) == 1 and removal(may[0], g) == (RM_CONTAINER, ['container_name'])
        rep.check(ok, 'R1', 'container/remove', w(g), 'drop removes self.container_name', 'container drop does not remove its own container')
        mkc = {ekey(e) for e in must}
        rep.check(len(may) == 1 and all(ekey(e) in mkc for e in may), 'R1', 'container/unconditional', w(g),
                  'the container is removed on every drop (also while the thread is unwinding)',
                  'the container removal is conditional (e.g. skipped while panicking): a detached container can be left behind')
        ok, why = removal_shape(RM_CONTAINER, ['rm'], 'container_name')
        rep.check(ok, 'R1', 'command/DockerRemoveContainerCommand', w(g), 'docker rm --force <name>', 'removal command shape: ' + why)
    # ---- R2 --------------------------------------------------------------------------------------------
    bi = prog.find_one(r'^libcnb_test::test_runner::TestRunner::build_internal$')
    rep.analysed(bi)
    gi = bi.args.index(TDR) if TDR in bi.args else None        # which parameter owns the guard

    def is_guard(v, fn=bi, idx=None):
        v = strip(v)
        return gi is not None and v[0] == 'param' and v[1] == fn.path and v[2] == (gi if idx is None else idx)

    rep.check(gi is not None, 'R2', 'resources/by-value-param', w(bi), 'build_internal owns the guard (by-value parameter)', 'build_internal takes the guard as %s' % (bi.args[1] if len(bi.args) > 1 else None))
    unwind_drops = [b for b in bi.blocks if gi is not None and b['cleanup'] and b['t']['t'] == 'drop' and b['t']['p'] == [gi + 1]]
    rep.check(bool(unwind_drops), 'R2', 'resources/unwind-drop', w(bi), 'the guard is dropped on the unwind path of build_internal', 'no unwind-path drop of the guard in build_internal')
    bi_may = effects(bi, 'may')
    spawns = [e for e in bi_may if e.kind == 'RUN']
    # the test closure (a parameter of build_internal) is called with a TestContext whose docker_resources is the guard
    handed = []
    for e in bi_may:
        if e.kind != 'CALLBACK' or e.path is None or strip(e.path)[0] != 'param' or strip(e.path)[1] != bi.path:
            continue
        for a in (e.args or ())[1:]:
            tcv = next((x for x in walk(sl.inline_deep(a)) if x[0] == 'agg' and (x[1] or '').endswith('TestContext')), None)
            if tcv is not None:
                handed.append(dict(tcv[3]).get('docker_resources', ('unknown',)))
    ok = bool(handed) and all(is_guard(v) for v in handed)
    rep.check(ok and bool(spawns), 'R2', 'resources/moved-into-context', w(bi), 'the same guard is moved into the TestContext handed to the test closure', 'the guard is not moved into the TestContext')
    # pack uses the guard's names
    packs = [e for e in bi_may if e.kind == 'PACK_NEW']

    def guard_field(v):
        v = strip(v)
        return v[2] if v[0] == 'field' and is_guard(v[1]) else None
    ok = bool(packs) and all([guard_field(x) for x in e.args[2:5]] == GUARD_NAMES for e in packs)
    rep.check(ok, 'R2', 'resources/names-used', w(bi), 'pack builds exactly the image / volumes named by the guard', 'pack is not given the guard\'s image/volume names')
    sc = prog.find_one(r"^libcnb_test::test_context::TestContext::<'_>::start_container$")
    rep.analysed(sc)
    cc_made, cc_helpers = construction_sites(prog, sl, CC)
    sc_may = effects(sc, 'may')
    runs = [e for e in sc_may if e.kind == 'RUN']
    docker_runs = [e for e in runs if any(x[0] == 'call' and x[1] == DRUN_NEW for x in walk(sl.inline_deep(e.path, keep=(DRUN_NEW, RID))))]
    # the guard exists when a command is issued, in whichever frame that happens: start_container itself, or the private
    # function making the guard when the acquire phase (build the command, make the guard, `docker run`) is split off and
    # the guard handed back by value — there the ordering is judged on that function's own commands
    fr_ok, fr_why, frames = guard_frames(prog, CC, cc_helpers, sc, lambda fn: [e for e in effects(fn, 'may') if e.kind == 'RUN'])
    ok = fr_ok and bool(docker_runs) and sum(len(o) for _, _, o in frames) >= len(runs)
    rep.check(ok, 'R2', 'container/guard-before-run', top_call(runs[0]).where() if runs else w(sc), 'ContainerContext is constructed before `docker run` is issued',
              'the container guard is created after (or not on every path before) `docker run`: a failing/panicking start leaks the detached container', fr_why)
    if ok:
        for fn, _, _ in frames[1:]:
            rep.analysed(fn)
        norm = lambda v: strip(sl.inline_deep(strip(v), keep=(RID,)))
        gv = frames[0][1].value(sl, keep=(RID,))
        nm = norm(dict(gv[3]).get('container_name', ('unknown',))) if gv[0] == 'agg' else ('unknown',)
        news = [e for e in sc_may if e.kind == 'DRUN_NEW']
        same = bool(news) and all(len(e.args) > 1 and norm(e.args[1]) == nm for e in news) and nm[0] == 'call' and nm[1] == RID
        rep.check(same, 'R2', 'container/same-name', w(sc), 'guard and `docker run --name` use the same generated name', 'the guard does not hold the name given to docker run')
        # every frame that issues a command while it owns the guard drops the guard when that command unwinds
        owning = [(fn, m) for fn, m, o in frames if o]
        ud_ok = bool(owning)
        for fn, m in owning:
            owners = {i for i, l in enumerate(fn.locals) if l['ty'] == CC} | {m.dest()}
            ud_ok = ud_ok and any(b['cleanup'] and b['t']['t'] == 'drop' and len(b['t']['p']) == 1 and b['t']['p'][0] in owners for b in fn.blocks)
        rep.check(ud_ok, 'R2', 'container/unwind-drop', w(sc), 'container guard dropped on the unwind path', 'no unwind-path drop of the container guard')
    # ---- R3 --------------------------------------------------------------------------------------------
    bad = []
    n = 0
    for f2 in prog.fns.values():
        if f2.crate != 'libcnb_test':
            continue
        n += 1
        for c in f2.calls:
            ve = vocab_lookup(c)
            if ve and ve[0] == 'FORGET':
                bad.append('%s at %s' % (c.name, c.where()))
            if c.name and c.name.startswith('tempfile::') and c.name.split('::')[-1] in ('into_path', 'keep', 'persist', 'disable_cleanup'):
                bad.append('%s at %s' % (c.name, c.where()))
    rep.check(not bad, 'R3', 'no-leak-primitives', 'libcnb-test', 'no forget/leak/keep in %d functions' % n, 'leak primitives used: %s' % bad)
    # ---- R4 --------------------------------------------------------------------------------------------
    for ty in (TDR, CC):
        traits = [i['trait'] for i in prog.impls if i['self_head'] == ty]
        rep.check(not ({'std::clone::Clone', 'std::marker::Copy'} & set(traits)), 'R4', 'no-clone/' + ty.split('::')[-1], '-', 'neither Clone nor Copy', '%s implements %s' % (ty, traits))
        made = cc_made if ty == CC else construction_sites(prog, sl, ty)[0]
        want = 'libcnb_test::test_runner::TestRunner::build' if ty == TDR else sc.path
        rep.check([m.fn.path for m in made] == [want] and made[0].kind != 'fnitem', 'R4', 'construction/' + ty.split('::')[-1], '-', 'constructed only in %s' % want.split('::')[-1],
                  'constructed in %s' % [(m.fn.path, m.bb) for m in made])
    bf = prog.find_one(r'^libcnb_test::test_runner::TestRunner::build$')
    rep.analysed(bf)
    fwd = [e for e in effects(bf, 'may') if e.kind == 'BUILD_INTERNAL']
    if fwd:
        # the guard handed to build_internal, private constructors inlined
        ok = gi is not None
        v = ('unknown',)
        for e in fwd:
            v = sl.inline_deep(strip(e.args[gi]), keep=(RID,)) if ok and gi < len(e.args) else ('unknown',)
            ok = ok and v[0] == 'agg' and v[1] == TDR and set(GUARD_NAMES) <= {n for n, _ in v[3]} and \
                all(any(x[0] == 'call' and x[1] == RID for x in walk(fv)) for n, fv in v[3] if n in GUARD_NAMES)
        rep.check(ok, 'R4', 'names-generated', w(bf), 'all three names derive from random_docker_identifier()', 'resource names are not generated per run: ' + vstr(v)[:160])
    rb = prog.find_one(r"^libcnb_test::test_context::TestContext::<'_>::rebuild$")
    rep.analysed(rb)
    fwd = [e for e in effects(rb, 'may') if e.kind == 'BUILD_INTERNAL']
    ok = rb.args[0].startswith('libcnb_test::test_context::TestContext<') and bool(fwd) and gi is not None
    if ok:
        for e in fwd:
            a1 = strip(e.args[gi]) if gi < len(e.args) else ('unknown',)
            ok = ok and a1[0] == 'field' and a1[2] == 'docker_resources' and is_guard(a1[1], rb, 0)
    rep.check(ok, 'R4', 'rebuild', w(rb), 'rebuild consumes self and forwards the same guard', 'rebuild does not forward its own guard by value')
    # ---- R5 --------------------------------------------------------------------------------------------
    tys = [l['ty'] for l in bi.locals]
    rep.check('tempfile::TempDir' in tys and 'libcnb_test::app::AppDir' in tys, 'R5', 'locals', w(bi), 'build_internal owns a TempDir (buildpacks) and an AppDir', 'temp dir locals: %s' % [t for t in tys if 'Temp' in t or 'AppDir' in t])
    ad = prog.adt('libcnb_test::app::AppDir')
    # AppDir owns the temporary copy: a field that holds a TempDir by value (directly, or as Option / Box of one — all drop
    # the directory with the AppDir), whatever the shape of the type (enum variant payload / struct field)
    own = owning_fields(ad, 'tempfile::TempDir')
    rep.check(bool(own), 'R5', 'AppDir', '%s:%s' % (ad['file'], ad['line']), 'AppDir owns a TempDir (%s)' % ', '.join('%s.%s' % o for o in sorted(own)),
              'AppDir::Temporary does not own a TempDir')
    ca = prog.fn('libcnb_test::app::copy_app')
    rep.analysed(ca)
    # success payload of copy_app, whatever the spelling (combinator chain / `?` / match): the TempDir made by tempdir() sits
    # in an owning field of the AppDir — written as a literal, through a private constructor (inlined) or through the
    # From<TempDir> conversion (transparent as a value)
    pay = sl.inline_deep(sl.mk_unwrap(sl.local(ca, 0), 1))
    is_tmp = lambda v: strip(v)[0] == 'call' and (strip(v)[1] or '').startswith('tempfile::') and 'libcnb_test::app::AppDir' in ca.ret
    owning_value = lambda v, inner: v[0] == 'agg' and v[1] == 'libcnb_test::app::AppDir' and \
        any((v[2], n) in own and inner(held(fv)) for n, fv in v[3])
    if owning_value(strip(pay), is_tmp):
        ok = True
    elif is_tmp(pay):
        conv = prog.fns.get('<libcnb_test::app::AppDir as std::convert::From<tempfile::TempDir>>::from')
        ok = conv is not None and owning_value(strip(sl.inline_deep(sl.local(conv, 0))), lambda x: strip(x)[0] == 'param' and strip(x)[1] == conv.path and strip(x)[2] == 0)
    else:
        ok = False
    rep.check(ok, 'R5', 'copy_app', w(ca), 'the app copy is returned as the owning TempDir', 'copy_app does not return the owning TempDir')
    ds = prog.find_one(r"^libcnb_test::test_context::TestContext::<'_>::download_sbom_files$")
    rep.check('tempfile::TempDir' in [l['ty'] for l in ds.locals], 'R5', 'sbom-dir', w(ds), 'SBOM download dir is an owned TempDir', 'SBOM download dir is not an owned TempDir')
    # ---- R6 --------------------------------------------------------------------------------------------
    import tomllib
    bad = []
    seen = 0
    for d, dn, fn in os.walk(ctx.repo):
        dn[:] = [x for x in dn if x not in ('target', '.git')]
        if 'Cargo.toml' in fn:
            seen += 1
            try:
                doc = tomllib.load(open(os.path.join(d, 'Cargo.toml'), 'rb'))
            except Exception as e:
                bad.append('%s unreadable: %s' % (d, e))
                continue
            for name, prof in (doc.get('profile') or {}).items():
                if isinstance(prof, dict) and prof.get('panic') == 'abort':
                    bad.append('%s [profile.%s]' % (os.path.join(d, 'Cargo.toml'), name))
    rep.check(not bad and seen > 0, 'R6', 'profiles', 'Cargo.toml', 'no profile sets panic = "abort" (%d manifests)' % seen, 'panic = "abort" in %s: Drop guards would not run' % bad)
    crate_panic = [v['panic'] for k, v in prog.crates.items() if k[0] == 'libcnb_test']
    rep.check(crate_panic == ['Unwind'], 'R6', 'strategy', '-', 'libcnb_test is compiled with panic=unwind', 'libcnb_test panic strategy: %s' % crate_panic)
