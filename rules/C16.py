"""C16 — libcnb-test removes every Docker resource and temp dir however the test ends.

Decided structurally (RAII typestate; "an owned value with a Drop impl is dropped on every exit edge,
unwinding included" is the language's guarantee):
  R1 release actions  Drop for TemporaryDockerResources runs `docker rmi --force <self.image_name>` and
                      `docker volume remove --force <both cache volume names>`; Drop for ContainerContext runs
                      `docker rm --force <self.container_name>` (field provenance through the command structs)
  R2 acquire-before-use the guard exists before the first command that can create the resource: the image /
                      volume guard is a by-value parameter of build_internal (constructed in build), the
                      container guard is constructed at a block dominating `docker run`; the guard-owning
                      functions contain a Drop of the guard on an unwind (cleanup) block
  R3 no escape        no mem::forget / ManuallyDrop / Box::leak / TempDir::into_path|keep in libcnb-test
  R4 exactly once     the guard types implement neither Clone nor Copy; single construction site each; names come
                      from random_docker_identifier; rebuild takes self by value and forwards the same guard
  R5 temp dirs        the app copy and the buildpack output dir are owned as TempDir values (local / enum field)
  R6 no abort         no Cargo profile in the workspace sets panic = "abort"
Deepening round (function deepen() below; necessary conditions of clauses the structural rules leave open):
  R1 failure-tolerant / command-unmodified / run_command, R2 pack-command / self-removing, R3 no-process-exit,
  R4 removal-only-in-drop / guard-immutable / identifier-random, R5 buildpack-dir / sbom-dir-used.
Not decided: that Docker honours the commands; double faults (a panicking ContainerContext::drop during unwinding
aborts the process) — documented observation, two independent faults are outside the one-injection quantifier.

How the obligations are read off the facts (so that they hold for every spelling of the same behaviour):
  * "drop runs command X" / "start_container issues `docker run`" / "pack is given names" / "rebuild forwards the guard"
    are effects (lib/effects.py) of the entry function with run_command, the command constructors and build_internal in
    the vocabulary: helpers, closures handed to combinators and loops over literal command tables are transparent and
    the arguments arrive in the entry function's terms; "on every drop" is must == may.
  * "the guard handed to the test closure" is the argument of the CALLBACK effect, not a particular statement.
  * "constructed only in build" is over construction sites with private constructor helpers made transparent
    (C16_helpers.construction_sites); guard values are compared as inline_deep normal forms.
  * "copy_app returns the owning TempDir" is the success payload (mk_unwrap) of copy_app: the tempdir() value sits in a
    field of AppDir that owns a TempDir by value (enum payload / struct field, also as Option / Box of it).
  * "the removal / pack / run command has this argv" is read off the effects of the `From<X> for Command` conversion with
    Command::new / arg / args in the vocabulary (C16_helpers.argv_model): one entry per argv word with the conditions on the
    struct's fields under which it is emitted — a shared private assembler, an extension trait on Command, a delegation to
    `From<&X>` and an iterator chain handed to `args` (`.chain(force.then_some("--force"))`) give the same model.
    Table-driven emission is the same argv: a `for` over a literal table of (flag, word) / (option, value) rows (array,
    vec![], rows as tuples or a private struct), the table behind `.filter(..)` / `.filter_map(..)` and consumed by
    `for_each` or handed to `args` as a pipeline, or a local closure called once per word — each word is the substituted
    row's word under the row's own tests (C16_helpers._level_row / alts_conds), rows in table order; a loop that can be left
    before its last row, positional adapters (take / skip) and function values that cannot be entered make the affected
    words opaque (UNPROVEN), never absent.
  * "the drop removes the names pack created" compares *terms over the guard* (C16_helpers.guard_term): a name is a field of
    the guard or a pure string function of its fields (also behind a private accessor, inlined), so a guard that stores only
    the image name and derives the volume names is the same guard; "names derive from random_docker_identifier" and "the
    guard holds the name given to docker run" evaluate those terms on the literal that constructs the guard (eval_term).
  * "the identifier has n random characters" counts draws of `repeat_with(..).take(n)` / a literal range, or of a counted
    `for` loop over a literal range that pushes one drawn character per iteration (C16_helpers.pushed_draws).
  * "a word vector handed to `args`" is followed to the frame that owns the vector (C16_helpers._vec_home): the conversion
    may collect the words with push / extend and hand the Vec (or `&mut` of it) to a private assembler that calls
    `Command::new(..).args(vec)`; frames the vector passes through must not modify it (retain / truncate / sort make the
    model `disturbed`: removal shapes fail, `--rm` / pack names become UNPROVEN).
  * "build_internal owns the temp dirs" is ownership across the test closure (C16_helpers.owned_across): a place whose
    type owns a TempDir / an AppDir by value (local, tuple, Option / Box, private carrier struct returned by a preparation
    phase: owns_deep) is assigned before the call that hands the TestContext to the closure and dropped by the frame both
    after the call returned and on its unwind path — a carrier bound to `_` or an explicit drop before the closure fails.
  * "the guard exists before `docker run`" is judged in the frame that issues the command (C16_helpers.guard_frames):
    start_container, or the private function that makes the guard, runs the command and hands the guard back by value;
    the unwind drop is required in every frame that issues a command while owning the guard.
"""
import os
from .lib.cmdmodel import from_command_fns
from .lib.effects import Effects, vocab_lookup
from .lib.mir import fmt_place
from .lib.paths import strip
from .lib.value import vstr, walk, canon
from .C16_helpers import construction_sites, guard_frames, held, owning_fields, param_fields, top_call, owns_deep, owned_across
from .C16_helpers import GUARD, guard_term, eval_term, term_label, disturbed
from .lib import iters
from .C16_helpers import (argv_model, pushed_draws, ctor_field_params, divergence_points, word_conditions, guard_mutations, literal_sites, params_in, result_fate_levels, sets_param, tempdir_path)

TDR = 'libcnb_test::test_runner::TemporaryDockerResources'
CC = 'libcnb_test::container_context::ContainerContext'
RUN = 'libcnb_test::util::run_command'
RID = 'libcnb_test::util::random_docker_identifier'
BI = 'libcnb_test::test_runner::TestRunner::build_internal'
PACK_NEW = 'libcnb_test::pack::PackBuildCommand::new'
DRUN_NEW = 'libcnb_test::docker::DockerRunCommand::new'
RM_IMAGE = 'libcnb_test::docker::DockerRemoveImageCommand'
RM_VOLUME = 'libcnb_test::docker::DockerRemoveVolumeCommand'
RM_CONTAINER = 'libcnb_test::docker::DockerRemoveContainerCommand'
RM_CTORS = {t + '::new': t for t in (RM_IMAGE, RM_VOLUME, RM_CONTAINER)}


def run(ctx, rep):
    prog, sl = ctx.prog, ctx.slicer
    for r, d in (('R1', 'drop impls issue the forced removal commands for exactly their own names'), ('R2', 'guards exist before the resource can be created and are dropped on unwind'),
                 ('R3', 'no leak primitives in libcnb-test'), ('R4', 'single owner: no Clone/Copy, one construction site, rebuild forwards the guard by value'),
                 ('R5', 'temporary directories are owned TempDir values'), ('R6', 'no panic = "abort" profile')):
        rep.rule(r, d)
    rep.not_decided = ['that Docker honours the commands', 'double-fault abort when ContainerContext::drop panics during unwinding (observation)']
    cmds = from_command_fns(prog)
    # argv of each conversion as effects of the conversion function (helpers, extension-trait methods, a delegation to
    # `From<&X>`, iterator chains handed to `args` are transparent): one Item per argv word
    models = {ty: argv_model(prog, sl, f) for ty, f in cmds.items()}
    w = lambda f: '%s:%d' % (f.file, f.line)
    # call sites of these functions are enumerated context-sensitively, arguments in the entry function's terms
    E = Effects(prog, sl, vocab={RUN: ('RUN', 0), PACK_NEW: ('PACK_NEW', None), DRUN_NEW: ('DRUN_NEW', None), BI: ('BUILD_INTERNAL', None)})
    _exp = {}

    def effects(f, mode):
        k = (f.path, mode)
        if k not in _exp:
            _exp[k] = E.expand(f, mode)
        return _exp[k]

    def removal_shape(ty, sub, field):
        """From<ty>: args [sub..., field], --force under field force; new() sets force = true"""
        m = models.get(ty)
        if m is None:
            return False, 'conversion not found'
        program, items = m
        consts = [e[1] for it in items for e in it.elems if e[0] == 'const']
        fields = [e[1] for it in items for e in it.elems if e[0] == 'field']
        force = [it for it in items if it.elems == [('const', '--force')]]
        ok = program == 'docker' and consts[:len(sub)] == sub and fields == [field] and len(force) == 1 and force[0].conds == [('force', True)] and force[0].loop is None and not disturbed(m)
        nf = prog.fns.get(ty + '::new')
        if nf is None:
            return False, 'constructor not found'
        nv = strip(sl.local(nf, 0))
        fl = dict(nv[3]) if nv[0] == 'agg' else {}
        forced = strip(fl.get('force', ('unknown',))) == ('const', True)
        named = any(x[0] == 'param' and x[2] == 0 for x in walk(fl.get(field, ('unknown',))))
        return ok and forced and named, 'argv=%s %s fields=%s force_guard=%s force_default=%s' % (program, consts, fields, [it.conds for it in force], forced)

    def drop_runs(ty):
        """(drop fn, commands the drop may run, commands it runs on every drop) as RUN effects in terms of `self`"""
        f = prog.fns.get('<%s as std::ops::Drop>::drop' % ty)
        if f is None:
            return None, [], []
        return f, [e for e in effects(f, 'may') if e.kind == 'RUN'], [e for e in effects(f, 'must') if e.kind == 'RUN']

    def removal(e, f):
        """what a command handed to run_command denotes: (removal command type | None, fields of self it names).
        `X::new(..)` (force default checked with the command shape) and a literal `X { force: true, .. }` are the same
        command; private helpers producing it are inlined"""
        ty, _, fields = removal_names(e, f)
        return ty, fields

    def removal_names(e, f):
        """(removal command type | None, names it removes as terms over f's `self` (None: not a pure function of the guard),
        fields of self mentioned).  The names are the elements of the constructor argument / the names field of the literal
        (a volume list decomposed with the iterator algebra), whatever way the guard stores or derives them."""
        v = sl.inline_deep(strip(e.path), keep=tuple(RM_CTORS))
        if v[0] == 'call' and v[1] in RM_CTORS and v[2]:
            ty, arg = RM_CTORS[v[1]], v[2][0]
        elif v[0] == 'agg' and v[1] in RM_CTORS.values() and strip(dict(v[3]).get('force', ('unknown',))) == ('const', True):
            rest = [fv for n, fv in v[3] if n != 'force']
            ty, arg = v[1], (rest[0] if len(rest) == 1 else ('unknown',))
        else:
            return None, [], []
        root = lambda x: x[0] == 'param' and x[1] == f.path and x[2] == 0
        if ty == RM_VOLUME:
            al = iters.alts(sl, strip(arg))
            if al and all(fa is None and not fl for _, fa, fl in al):
                terms = [guard_term(sl, el, root) for el, _, _ in al]
            else:       # a list that does not decompose: one name per field of self it mentions
                terms = [('field', GUARD, n) for n in param_fields(v, f.path, 0)]
        else:
            terms = [guard_term(sl, arg, root)]
        return ty, terms, param_fields(v, f.path, 0)

    ekey = lambda e: (id(e.call), canon(e.path) if e.path is not None else None)

    # the names `pack build` is given, as terms over the guard owned by build_internal (needed by R1 and R2)
    bi = prog.find_one(r'^libcnb_test::test_runner::TestRunner::build_internal$')
    rep.analysed(bi)
    gi = bi.args.index(TDR) if TDR in bi.args else None        # which parameter owns the guard

    def is_guard(v, fn=bi, idx=None):
        v = strip(v)
        return gi is not None and v[0] == 'param' and v[1] == fn.path and v[2] == (gi if idx is None else idx)

    def pack_term(v):
        """a value handed to PackBuildCommand::new as a term over build_internal's guard (None: not one of its names)"""
        return guard_term(sl, v, lambda x: is_guard(x)) if gi is not None else None

    bi_may = effects(bi, 'may')
    packs = [e for e in bi_may if e.kind == 'PACK_NEW']
    pack_names = [[pack_term(x) for x in e.args[2:5]] for e in packs]       # [image, build cache, launch cache] per call
    created = pack_names[0] if pack_names and all(p == pack_names[0] for p in pack_names) and len(pack_names[0]) == 3 and None not in pack_names[0] else None
    tkey = lambda t: repr(t)
    # ---- R1 --------------------------------------------------------------------------------------------
    f, may, must = drop_runs(TDR)
    drop_names = {}
    if f is None:
        rep.violated('R1', 'resources/drop-impl', '-', 'TemporaryDockerResources has no Drop impl: image and volumes are never removed')
    else:
        rep.analysed(f)
        for e in may:
            ty, terms, _ = removal_names(e, f)
            if ty is not None:
                drop_names[ty] = terms
        img = drop_names.get(RM_IMAGE)
        vol = drop_names.get(RM_VOLUME)
        # one image name, two different volume names, each a name of the guard itself (a field, or derived from its fields
        # only) — and, when pack's names are known, exactly the ones `pack build` creates
        ok_img = img is not None and len(img) == 1 and img[0] is not None and (created is None or img[0] == created[0])
        ok_vol = vol is not None and len(vol) == 2 and None not in vol and vol[0] != vol[1] and (not ok_img or img[0] not in vol) and \
            (created is None or sorted(vol, key=tkey) == sorted(created[1:], key=tkey))
        rep.check(ok_img, 'R1', 'resources/image', w(f), 'drop removes the guard\'s image name (%s)' % term_label(img[0] if img else None),
                  'drop does not remove the image by its own name: %s' % ([term_label(t) for t in img] if img is not None else None))
        rep.check(ok_vol, 'R1', 'resources/volumes', w(f),
                  'drop removes both cache volumes', 'drop removes volumes %s (expected both cache volumes%s)' %
                  ([term_label(t) for t in vol] if vol is not None else None, ': %s' % [term_label(t) for t in created[1:]] if created else ''))
        for ty, sub, field in ((RM_IMAGE, ['rmi'], 'image_name'), (RM_VOLUME, ['volume', 'remove'], 'volume_names')):
            ok, why = removal_shape(ty, sub, field)
            rep.check(ok, 'R1', 'command/' + ty.split('::')[-1], w(cmds[ty]) if ty in cmds else '-', 'docker %s --force <names>' % ' '.join(sub), 'removal command shape: ' + why)
        # the drop must not diverge before both commands ran: exactly the two removals, each on every path through drop
        mk = {ekey(e) for e in must}
        rep.check(len(may) == 2 and all(ekey(e) in mk for e in may), 'R1', 'resources/unconditional', w(f), 'both removals run on every drop', 'a removal is conditional')
    g, may, must = drop_runs(CC)
    container_term = None
    if g is None:
        rep.violated('R1', 'container/drop-impl', '-', 'ContainerContext has no Drop impl: detached containers are never removed')
    else:
        rep.analysed(g)
        cty, cterms, _ = removal_names(may[0], g) if len(may) == 1 else (None, [], [])
        ok = cty == RM_CONTAINER and len(cterms) == 1 and cterms[0] is not None
        container_term = cterms[0] if ok else None
        rep.check(ok, 'R1', 'container/remove', w(g), 'drop removes self.container_name', 'container drop does not remove its own container')
        mkc = {ekey(e) for e in must}
        rep.check(len(may) == 1 and all(ekey(e) in mkc for e in may), 'R1', 'container/unconditional', w(g),
                  'the container is removed on every drop (also while the thread is unwinding)',
                  'the container removal is conditional (e.g. skipped while panicking): a detached container can be left behind')
        ok, why = removal_shape(RM_CONTAINER, ['rm'], 'container_name')
        rep.check(ok, 'R1', 'command/DockerRemoveContainerCommand', w(g), 'docker rm --force <name>', 'removal command shape: ' + why)
    # ---- R2 --------------------------------------------------------------------------------------------
    rep.check(gi is not None, 'R2', 'resources/by-value-param', w(bi), 'build_internal owns the guard (by-value parameter)', 'build_internal takes the guard as %s' % (bi.args[1] if len(bi.args) > 1 else None))
    unwind_drops = [b for b in bi.blocks if gi is not None and b['cleanup'] and b['t']['t'] == 'drop' and b['t']['p'] == [gi + 1]]
    rep.check(bool(unwind_drops), 'R2', 'resources/unwind-drop', w(bi), 'the guard is dropped on the unwind path of build_internal', 'no unwind-path drop of the guard in build_internal')
    spawns = [e for e in bi_may if e.kind == 'RUN']
    # the test closure (a parameter of build_internal) is called with a TestContext whose docker_resources is the guard
    handed = []
    cb_calls = []       # where build_internal hands the TestContext to the test closure
    for e in bi_may:
        if e.kind != 'CALLBACK' or e.path is None or strip(e.path)[0] != 'param' or strip(e.path)[1] != bi.path:
            continue
        for a in (e.args or ())[1:]:
            tcv = next((x for x in walk(sl.inline_deep(a)) if x[0] == 'agg' and (x[1] or '').endswith('TestContext')), None)
            if tcv is not None:
                cb_calls.append(top_call(e))
                handed.append(dict(tcv[3]).get('docker_resources', ('unknown',)))
    ok = bool(handed) and all(is_guard(v) for v in handed)
    rep.check(ok and bool(spawns), 'R2', 'resources/moved-into-context', w(bi), 'the same guard is moved into the TestContext handed to the test closure', 'the guard is not moved into the TestContext')
    # pack uses the guard's names: three different names of the guard (image, build cache, launch cache); R1 compares what
    # the drop removes against exactly these
    ok = created is not None and len({tkey(t) for t in created}) == 3
    rep.check(ok, 'R2', 'resources/names-used', w(bi), 'pack builds exactly the image / volumes named by the guard', 'pack is not given the guard\'s image/volume names',
              str([[term_label(t) for t in p] for p in pack_names]))
    sc = prog.find_one(r"^libcnb_test::test_context::TestContext::<'_>::start_container$")
    rep.analysed(sc)
    cc_made, cc_helpers = construction_sites(prog, sl, CC)
    sc_may = effects(sc, 'may')
    runs = [e for e in sc_may if e.kind == 'RUN']
    docker_runs = [e for e in runs if any(x[0] == 'call' and x[1] == DRUN_NEW for x in walk(sl.inline_deep(e.path, keep=(DRUN_NEW, RID))))]
    # the guard exists when a command is issued, in whichever frame that happens: start_container itself, or the private
    # function making the guard when the acquire phase (build the command, make the guard, `docker run`) is split off and
    # the guard handed back by value — there the ordering is judged on that function's own commands
    fr_ok, fr_why, frames = guard_frames(prog, CC, cc_helpers, sc, lambda fn: [e for e in effects(fn, 'may') if e.kind == 'RUN'])
    ok = fr_ok and bool(docker_runs) and sum(len(o) for _, _, o in frames) >= len(runs)
    rep.check(ok, 'R2', 'container/guard-before-run', top_call(runs[0]).where() if runs else w(sc), 'ContainerContext is constructed before `docker run` is issued',
              'the container guard is created after (or not on every path before) `docker run`: a failing/panicking start leaks the detached container', fr_why)
    if ok:
        for fn, _, _ in frames[1:]:
            rep.analysed(fn)
        norm = lambda v: strip(sl.inline_deep(strip(v), keep=(RID,)))
        gv = frames[0][1].value(sl, keep=(RID,))
        # the name the drop removes, evaluated on the guard literal
        nv = eval_term(container_term, gv) if container_term is not None else None
        nm = norm(nv) if nv is not None else ('unknown',)
        news = [e for e in sc_may if e.kind == 'DRUN_NEW']
        same = bool(news) and all(len(e.args) > 1 and norm(e.args[1]) == nm for e in news) and nm[0] == 'call' and nm[1] == RID
        rep.check(same, 'R2', 'container/same-name', w(sc), 'guard and `docker run --name` use the same generated name', 'the guard does not hold the name given to docker run')
        # every frame that issues a command while it owns the guard drops the guard when that command unwinds
        owning = [(fn, m) for fn, m, o in frames if o]
        ud_ok = bool(owning)
        for fn, m in owning:
            owners = {i for i, l in enumerate(fn.locals) if l['ty'] == CC} | {m.dest()}
            ud_ok = ud_ok and any(b['cleanup'] and b['t']['t'] == 'drop' and len(b['t']['p']) == 1 and b['t']['p'][0] in owners for b in fn.blocks)
        rep.check(ud_ok, 'R2', 'container/unwind-drop', w(sc), 'container guard dropped on the unwind path', 'no unwind-path drop of the container guard')
    # ---- R3 --------------------------------------------------------------------------------------------
    bad = []
    n = 0
    for f2 in prog.fns.values():
        if f2.crate != 'libcnb_test':
            continue
        n += 1
        for c in f2.calls:
            ve = vocab_lookup(c)
            if ve and ve[0] == 'FORGET':
                bad.append('%s at %s' % (c.name, c.where()))
            if c.name and c.name.startswith('tempfile::') and c.name.split('::')[-1] in ('into_path', 'keep', 'persist', 'disable_cleanup'):
                bad.append('%s at %s' % (c.name, c.where()))
    rep.check(not bad, 'R3', 'no-leak-primitives', 'libcnb-test', 'no forget/leak/keep in %d functions' % n, 'leak primitives used: %s' % bad)
    # ---- R4 --------------------------------------------------------------------------------------------
    for ty in (TDR, CC):
        traits = [i['trait'] for i in prog.impls if i['self_head'] == ty]
        rep.check(not ({'std::clone::Clone', 'std::marker::Copy'} & set(traits)), 'R4', 'no-clone/' + ty.split('::')[-1], '-', 'neither Clone nor Copy', '%s implements %s' % (ty, traits))
        made = cc_made if ty == CC else construction_sites(prog, sl, ty)[0]
        want = 'libcnb_test::test_runner::TestRunner::build' if ty == TDR else sc.path
        rep.check([m.fn.path for m in made] == [want] and made[0].kind != 'fnitem', 'R4', 'construction/' + ty.split('::')[-1], '-', 'constructed only in %s' % want.split('::')[-1],
                  'constructed in %s' % [(m.fn.path, m.bb) for m in made])
    bf = prog.find_one(r'^libcnb_test::test_runner::TestRunner::build$')
    rep.analysed(bf)
    fwd = [e for e in effects(bf, 'may') if e.kind == 'BUILD_INTERNAL']
    if fwd:
        # the guard handed to build_internal, private constructors inlined
        ok = gi is not None
        v = ('unknown',)
        for e in fwd:
            v = sl.inline_deep(strip(e.args[gi]), keep=(RID,)) if ok and gi < len(e.args) else ('unknown',)
            # every name the guard stands for (what pack creates / the drop removes), evaluated on the guard literal, carries
            # the random identifier
            names = (created or [None]) + [t for ts in drop_names.values() for t in ts]
            vals = [eval_term(t, v) if t is not None else None for t in names]
            ok = ok and v[0] == 'agg' and v[1] == TDR and len(names) >= 3 and \
                all(nv is not None and any(x[0] == 'call' and x[1] == RID for x in walk(nv)) for nv in vals)
        rep.check(ok, 'R4', 'names-generated', w(bf), 'all three names derive from random_docker_identifier()', 'resource names are not generated per run: ' + vstr(v)[:160])
    rb = prog.find_one(r"^libcnb_test::test_context::TestContext::<'_>::rebuild$")
    rep.analysed(rb)
    fwd = [e for e in effects(rb, 'may') if e.kind == 'BUILD_INTERNAL']
    ok = rb.args[0].startswith('libcnb_test::test_context::TestContext<') and bool(fwd) and gi is not None
    if ok:
        for e in fwd:
            a1 = strip(e.args[gi]) if gi < len(e.args) else ('unknown',)
            ok = ok and a1[0] == 'field' and a1[2] == 'docker_resources' and is_guard(a1[1], rb, 0)
    rep.check(ok, 'R4', 'rebuild', w(rb), 'rebuild consumes self and forwards the same guard', 'rebuild does not forward its own guard by value')
    # ---- R5 --------------------------------------------------------------------------------------------
    # the buildpack output dir (a TempDir) and the app copy (an AppDir) are owned by build_internal's frame while the test
    # closure runs and released by it afterwards, on return and on unwind — as two locals, or inside a private carrier
    # struct / tuple that a preparation phase hands back by value (ownership judged on the types of the dropped places)
    tys = [l['ty'] for l in bi.locals]
    miss = []
    for inner in ('tempfile::TempDir', 'libcnb_test::app::AppDir'):
        if not any(owns_deep(prog, t, inner) for t in tys):
            miss.append('no local owns a %s' % inner.split('::')[-1])
        for c in cb_calls:
            normal, unwind = owned_across(prog, bi, c, inner)
            if not normal or not unwind:
                miss.append('no %s is released %s the test closure' % (inner.split('::')[-1], 'after' if not normal else 'when unwinding from'))
    rep.check(bool(cb_calls) and not miss, 'R5', 'locals', w(bi), 'build_internal owns a TempDir (buildpacks) and an AppDir until the test closure has finished',
              'temp dirs are not owned by build_internal across the test closure (%s); locals: %s' % ('; '.join(miss) or 'test closure call not found', [t for t in tys if 'Temp' in t or 'AppDir' in t]))
    ad = prog.adt('libcnb_test::app::AppDir')
    # AppDir owns the temporary copy: a field that holds a TempDir by value (directly, or as Option / Box of one — all drop
    # the directory with the AppDir), whatever the shape of the type (enum variant payload / struct field)
    own = owning_fields(ad, 'tempfile::TempDir')
    rep.check(bool(own), 'R5', 'AppDir', '%s:%s' % (ad['file'], ad['line']), 'AppDir owns a TempDir (%s)' % ', '.join('%s.%s' % o for o in sorted(own)),
              'AppDir::Temporary does not own a TempDir')
    ca = prog.fn('libcnb_test::app::copy_app')
    rep.analysed(ca)
    # success payload of copy_app, whatever the spelling (combinator chain / `?` / match): the TempDir made by tempdir() sits
    # in an owning field of the AppDir — written as a literal, through a private constructor (inlined) or through the
    # From<TempDir> conversion (transparent as a value)
    pay = sl.inline_deep(sl.mk_unwrap(sl.local(ca, 0), 1))
    is_tmp = lambda v: strip(v)[0] == 'call' and (strip(v)[1] or '').startswith('tempfile::') and 'libcnb_test::app::AppDir' in ca.ret
    owning_value = lambda v, inner: v[0] == 'agg' and v[1] == 'libcnb_test::app::AppDir' and \
        any((v[2], n) in own and inner(held(fv)) for n, fv in v[3])
    if owning_value(strip(pay), is_tmp):
        ok = True
    elif is_tmp(pay):
        conv = prog.fns.get('<libcnb_test::app::AppDir as std::convert::From<tempfile::TempDir>>::from')
        ok = conv is not None and owning_value(strip(sl.inline_deep(sl.local(conv, 0))), lambda x: strip(x)[0] == 'param' and strip(x)[1] == conv.path and strip(x)[2] == 0)
    else:
        ok = False
    rep.check(ok, 'R5', 'copy_app', w(ca), 'the app copy is returned as the owning TempDir', 'copy_app does not return the owning TempDir')
    ds = prog.find_one(r"^libcnb_test::test_context::TestContext::<'_>::download_sbom_files$")
    rep.check(any(owns_deep(prog, l['ty'], 'tempfile::TempDir') for l in ds.locals), 'R5', 'sbom-dir', w(ds), 'SBOM download dir is an owned TempDir', 'SBOM download dir is not an owned TempDir')
    # ---- R6 --------------------------------------------------------------------------------------------
    import tomllib
    bad = []
    seen = 0
    for d, dn, fn in os.walk(ctx.repo):
        dn[:] = [x for x in dn if x not in ('target', '.git')]
        if 'Cargo.toml' in fn:
            seen += 1
            try:
                doc = tomllib.load(open(os.path.join(d, 'Cargo.toml'), 'rb'))
            except Exception as e:
                bad.append('%s unreadable: %s' % (d, e))
                continue
            for name, prof in (doc.get('profile') or {}).items():
                if isinstance(prof, dict) and prof.get('panic') == 'abort':
                    bad.append('%s [profile.%s]' % (os.path.join(d, 'Cargo.toml'), name))
    rep.check(not bad and seen > 0, 'R6', 'profiles', 'Cargo.toml', 'no profile sets panic = "abort" (%d manifests)' % seen, 'panic = "abort" in %s: Drop guards would not run' % bad)
    crate_panic = [v['panic'] for k, v in prog.crates.items() if k[0] == 'libcnb_test']
    rep.check(crate_panic == ['Unwind'], 'R6', 'strategy', '-', 'libcnb_test is compiled with panic=unwind', 'libcnb_test panic strategy: %s' % crate_panic)

    deepen(ctx, rep, dict(E=E, effects=effects, models=models, cmds=cmds, removal=removal, drop_runs=drop_runs, bi=bi, sc=sc, gi=gi,
                          is_guard=is_guard, pack_term=pack_term, drop_names=drop_names, packs=packs, w=w))


PKG_CRATE = 'libcnb_test::build::package_crate_buildpack'
PKG_ID = 'libcnb_test::build::package_buildpack'
LIB_PKG = 'libcnb_package::package::package_buildpack'
RESOLVER = 'libcnb_package::output::create_packaged_buildpack_dir_resolver'
SBOM_OUT = 'libcnb_test::pack::PackSbomDownloadCommand::output_dir'
DRUN = 'libcnb_test::docker::DockerRunCommand'
IT = 'std::iter::Iterator::'
MIN_RANDOM_CHARS = 8


def deepen(ctx, rep, env):
    """Obligations added in the deepening round (necessary conditions of clauses the structural rules above leave open):
      R1 failure-tolerant     no removal of the image/volume guard is skipped because an earlier removal failed, and the image
                              removal itself tolerates failure (after a failed `pack build` there is no image to remove)
      R1 command-unmodified   the removal command handed to run_command is the one `new` made: no setter un-forces it
      R1 run_command          run_command spawns the command it is given on every path
      R2 pack-command         PackBuildCommand::new stores the guard's names in the fields that the argv conversion emits as the
                              image (`build <image>`) and as the two `--cache ...name=<volume>` values
      R2 self-removing        every `docker run` not owned by a ContainerContext guard is foreground and `--rm`
      R3 no-process-exit      nothing in libcnb-test ends the process without unwinding
      R4 removal-only-in-drop removal commands are issued by the two Drop impls only (exactly once, after the last use)
      R4 guard-immutable      no field of a guard (or of the guard held by a TestContext) is overwritten or mutably borrowed
                              after construction: the guard removes what was created under its original names
      R4 identifier-random    random_docker_identifier draws enough characters from an unseeded generator
      R5 buildpack-dir / sbom-dir-used  packaging output and SBOM downloads are directed into the owned TempDir"""
    prog, sl = ctx.prog, ctx.slicer
    removal, drop_runs, bi, sc, w = env['removal'], env['drop_runs'], env['bi'], env['sc'], env['w']
    models, cmds = env['models'], env['cmds']
    rm_types = (RM_IMAGE, RM_VOLUME, RM_CONTAINER)
    rm_setters = {p: ('RM_SET', None) for p, fn in prog.fns.items() if fn.kind == 'AssocFn' and not fn.derived and
                  any(p.startswith(t + '::') for t in rm_types) and p not in RM_CTORS}
    vocab = {RUN: ('RUN', 0), DRUN_NEW: ('DRUN_NEW', None), DRUN + '::remove': ('DRUN_REMOVE', None), DRUN + '::detach': ('DRUN_DETACH', None),
             PKG_CRATE: ('PKG', None), PKG_ID: ('PKG', None), LIB_PKG: ('LIB_PKG', None), RESOLVER: ('RESOLVER', None),
             'std::fs::create_dir_all': ('MKDIR', 0), 'std::fs::create_dir': ('MKDIR', 0), SBOM_OUT: ('SBOM_OUT', None)}
    vocab.update(rm_setters)
    E2 = Effects(prog, sl, vocab=vocab)
    _exp = {}

    def effects(f, mode):
        k = (f.path, mode)
        if k not in _exp:
            _exp[k] = E2.expand(f, mode)
        return _exp[k]

    callee = lambda e: prog.fns.get(e.call.res) or prog.fns.get(e.call.decl)
    # ---- R1 failure-tolerant ---------------------------------------------------------------------------------------
    tf, tmay, _ = drop_runs(TDR)
    if tf is not None:
        rem = [(e, removal(e, tf)[0]) for e in tmay]
        rem = [(e, ty) for e, ty in rem if ty is not None]
        points = divergence_points(prog, tf)
        bad, unp = [], []
        for e, ty in rem:
            kinds, panics = result_fate_levels(prog, e)
            if 'escapes' in kinds:
                unp.append('the result of %s is handed to code that is not modelled' % ty.split('::')[-1])
            for pf, via in panics:
                points.add(via.bb if (via is not None and pf is tf) else top_call(e).bb)
                if ty == RM_IMAGE:
                    bad.append('the image removal panics when `docker rmi` fails — after a failed `pack build` there is no image, so the volumes are never removed')
        for e, ty in rem:
            tb = top_call(e).bb
            late = sorted(p for p in points if not (tf.dominates(tb, p) and tb != p))
            if late:
                bad.append('%s can be skipped: drop can panic / exit at bb%s before it has run' % (ty.split('::')[-1], late))
        if bad or not unp:
            rep.check(not bad and bool(rem), 'R1', 'resources/failure-tolerant', w(tf), 'no removal is skipped when another removal fails',
                      'a failing removal keeps the rest of the clean-up from running: ' + '; '.join(sorted(set(bad))))
        else:
            rep.unproven('R1', 'resources/failure-tolerant', w(tf), '; '.join(unp))
    # ---- R1 command-unmodified -------------------------------------------------------------------------------------
    for ty in (TDR, CC):
        df = prog.fns.get('<%s as std::ops::Drop>::drop' % ty)
        if df is None:
            continue
        bad = []
        for e in effects(df, 'may'):
            if e.kind != 'RM_SET':
                continue
            sf = callee(e)
            k = sets_param(sl, sf, 'force') if sf is not None else None
            if not (k is not None and k < len(e.args or ()) and strip(e.args[k]) == ('const', True)):
                bad.append('%s at %s' % (e.call.name, e.where()))
        rep.check(not bad, 'R1', 'command-unmodified/' + ty.split('::')[-1], w(df), 'the removal commands are run as constructed (forced)',
                  'a removal command is modified after construction (no longer provably `--force` for the guard\'s own name): %s' % bad)
    # ---- R1 run_command --------------------------------------------------------------------------------------------
    rc = prog.fns.get(RUN)
    if rc is None:
        rep.unproven('R1', 'run_command', '-', 'run_command not found')
    else:
        rep.analysed(rc)
        must = [e for e in effects(rc, 'must') if e.kind == 'SPAWN']
        own = [e for e in must if e.path is not None and 0 in params_in(sl.inline_deep(e.path), rc.path)]
        rep.check(bool(own) and len(own) == len(must), 'R1', 'run_command', w(rc), 'run_command spawns the command it is given on every path',
                  'run_command does not spawn its own command on every path (%d of %d spawn effects)' % (len(own), len(must)))
    # ---- R2 pack-command -------------------------------------------------------------------------------------------
    pn = prog.fns.get(PACK_NEW)
    pm = models.get('libcnb_test::pack::PackBuildCommand')
    fp = ctor_field_params(sl, pn) if pn is not None else None
    if pn is None or pm is None or fp is None:
        rep.unproven('R2', 'resources/pack-command', '-', 'PackBuildCommand::new / its argv conversion not found or not a struct literal')
    else:
        rep.analysed(pn)
        program, items = pm
        seq = [el for it in items if it.loop is None and not it.conds for el in it.elems]
        img_f = next((seq[i + 1][1] for i in range(len(seq) - 1) if seq[i] == ('const', 'build') and seq[i + 1][0] == 'field' and seq[i + 1][2] == 'direct'), None)
        cache_f = [seq[i + 1][1] for i in range(len(seq) - 1) if seq[i] == ('const', '--cache') and seq[i + 1][0] == 'field' and seq[i + 1][2] == 'fmt' and
                   len(seq[i + 1][3]) >= 2 and seq[i + 1][3][-1] == '{%s}' % seq[i + 1][1] and str(seq[i + 1][3][-2]).endswith('name=')]
        ok = program == 'pack' and img_f is not None and len(cache_f) == 2 and len(set(cache_f)) == 2 and img_f not in cache_f and bool(env['packs'])
        why = 'argv: image field %s, cache volume fields %s' % (img_f, cache_f)
        if disturbed(pm):
            img_f, cache_f = None, []
            why = 'the argument vector is modified after the words were collected: %s' % disturbed(pm)
        if img_f is None or not cache_f:
            # the conversion is spelled in a way the argv model does not read: undecided, not wrong
            rep.unproven('R2', 'resources/pack-command', w(cmds['libcnb_test::pack::PackBuildCommand']), 'argv conversion of PackBuildCommand not recognised (%s)' % why)
            ok = None
        if ok:
            for e in env['packs']:
                # what the guard removes (terms over the guard) against what reaches `build <image>` / `--cache ..name=<volume>`
                names = {i: env['pack_term'](a) for i, a in enumerate(e.args)}
                src = lambda fld: sorted(term_label(names[i]) if names.get(i) is not None else '#%d' % i for i in fp.get(fld, ()))
                rm_img = [term_label(t) for t in env['drop_names'].get(RM_IMAGE, [])]
                rm_vol = sorted(term_label(t) for t in env['drop_names'].get(RM_VOLUME, []))
                ok = ok and len(rm_img) == 1 and len(rm_vol) == 2 and '?' not in rm_img + rm_vol and src(img_f) == rm_img and \
                    sorted(src(cache_f[0]) + src(cache_f[1])) == rm_vol and len(src(cache_f[0])) == 1
                why = 'image <- %s, caches <- %s / %s; the guard removes %s, %s' % (src(img_f), src(cache_f[0]), src(cache_f[1]), rm_img, rm_vol)
        if ok is not None:
            rep.check(ok, 'R2', 'resources/pack-command', w(pn), 'pack builds the image and cache volumes under the guard\'s names (constructor and argv agree)',
                      'the names the guard removes are not the ones `pack build` is told to create: ' + why)
    # ---- R2 self-removing ------------------------------------------------------------------------------------------
    rm_fn = prog.fns.get(DRUN + '::remove')
    # `--rm` is emitted exactly under the struct's `remove` flag (whatever the spelling of the conversion: `if x.remove`,
    # `remove.then(|| ..)`), and the setter stores its argument in that flag
    rm_conds = word_conditions(models.get(DRUN), '--rm')
    flag_ok = bool(rm_conds) and all(c == [('remove', True)] for c in rm_conds) and rm_fn is not None and sets_param(sl, rm_fn, 'remove') == 1
    norm = lambda v: canon(strip(sl.inline_deep(strip(v), keep=(DRUN_NEW, RID))))
    roots = [f2 for f2 in prog.fns.values() if f2.crate == 'libcnb_test' and f2.vis == 'pub' and f2.kind in ('Fn', 'AssocFn') and not f2.derived and f2.path != sc.path]
    covered = {id(e.call) for e in effects(sc, 'may') if e.kind == 'DRUN_NEW'}     # judged by R2 container/*
    for f2 in sorted(roots, key=lambda x: x.path):
        may = effects(f2, 'may')
        druns = [e for e in may if e.kind == 'RUN' and e.path is not None and
                 any(x[0] == 'call' and x[1] == DRUN_NEW for x in walk(sl.inline_deep(e.path, keep=(DRUN_NEW, RID))))]
        if not druns:
            continue
        rep.analysed(f2)
        covered |= {id(e.call) for e in may if e.kind == 'DRUN_NEW'}
        must = effects(f2, 'must')
        mk = {(id(e.call), tuple(id(l.call) for l in e.chain)) for e in must}
        for e in druns:
            me = norm(e.path)
            sets = [x for x in may if x.kind == 'DRUN_REMOVE' and x.args and norm(x.args[0]) == me]
            dets = [x for x in may if x.kind == 'DRUN_DETACH' and x.args and norm(x.args[0]) == me]
            others = [x for x in may if x.kind in ('DRUN_REMOVE', 'DRUN_DETACH') and x.args and norm(x.args[0]) != me and
                      not any(y.kind == 'RUN' and y.path is not None and norm(y.path) == norm(x.args[0]) for y in may)]
            ok = flag_ok and bool(sets) and all(len(x.args) > 1 and strip(x.args[1]) == ('const', True) for x in sets) and \
                any((id(x.call), tuple(id(l.call) for l in x.chain)) in mk for x in sets) and \
                all(len(x.args) > 1 and strip(x.args[1]) == ('const', False) for x in dets) and not others
            if rm_conds is None:
                rep.unproven('R2', 'self-removing/' + f2.path.split('::')[-1], e.where(), 'cannot read from the argv conversion of DockerRunCommand when `--rm` is emitted')
                continue
            rep.check(ok, 'R2', 'self-removing/' + f2.path.split('::')[-1], e.where(), 'the container of this `docker run` is foreground and removes itself (--rm)',
                      'a container is started without a ContainerContext guard and without `--rm` (or detached): nothing ever removes it')
    # every place that makes a `docker run` command is accounted for by one of the judgements above
    stray = [c.where() for f2 in prog.fns.values() if f2.crate == 'libcnb_test' and not f2.derived for c in f2.calls
             if not c.indirect and c.name == DRUN_NEW and id(c) not in covered]
    if stray:
        rep.unproven('R2', 'self-removing/unaccounted', stray[0], 'a `docker run` command is built where no public entry point was seen to run it: %s' % stray)
    # ---- R3 no-process-exit ----------------------------------------------------------------------------------------
    bad = []
    for f2 in prog.fns.values():
        if f2.crate != 'libcnb_test':
            continue
        for c in f2.calls:
            ve = vocab_lookup(c)
            if ve and ve[0] == 'EXIT':
                bad.append('%s at %s' % (c.name, c.where()))
    rep.check(not bad, 'R3', 'no-process-exit', 'libcnb-test', 'libcnb-test never ends the process without unwinding',
              'the process is ended without unwinding (no Drop guard runs, temp dirs stay): %s' % bad)
    # ---- R4 removal-only-in-drop -----------------------------------------------------------------------------------
    drops = [prog.fns.get('<%s as std::ops::Drop>::drop' % t) for t in (TDR, CC)]
    drops = [d for d in drops if d is not None]
    allowed = {d.path for d in drops}
    callers = prog.callers()
    changed = True
    while changed:        # private functions / closures entered from the drops only
        changed = False
        for p2, f2 in prog.reach(drops).items():
            if p2 in allowed or f2.crate != 'libcnb_test':
                continue
            if f2.kind == 'Closure':
                okc = f2.parent in allowed if getattr(f2, 'parent', None) else any(p2.startswith(a + '::{closure') for a in allowed)
            else:
                cs = callers.get(p2, [])
                okc = f2.vis != 'pub' and bool(cs) and all(c.fn.path in allowed for c in cs)
            if okc:
                allowed.add(p2)
                changed = True
    infra = set(RM_CTORS) | {f2.path for t, f2 in cmds.items()}
    bad = []
    for f2 in prog.fns.values():
        if f2.crate != 'libcnb_test' or f2.derived or f2.path in allowed or f2.path in infra:
            continue
        sites = [c.where() for c in f2.calls if not c.indirect and c.name in RM_CTORS] + \
                ['%s:%d' % (f2.file, f2.line) for t in rm_types for _ in literal_sites(f2, t)]
        if any(g.path in RM_CTORS for c in f2.calls for g in prog.fn_item_args(c)):
            sites.append('%s (constructor handed over as a function)' % f2.path)
        if sites:
            bad.append('%s: %s' % (f2.path.split('::')[-1], sites))
    rep.check(not bad and bool(drops), 'R4', 'removal-only-in-drop', '-', 'removal commands are issued by the Drop impls only',
              'a removal command is built outside the Drop impls (a resource is removed before its last use / more than once): %s' % bad)
    # ---- R4 guard-immutable ----------------------------------------------------------------------------------------
    # the names a guard removes are the ones it was constructed with: nothing in libcnb-test overwrites a field of a guard
    # (or the guard held by a TestContext), or borrows it mutably, once it exists — the Drop impls' own receiver aside
    bad = []
    for f2 in prog.fns.values():
        if f2.crate != 'libcnb_test' or f2.derived:
            continue
        for bb, what, pl in guard_mutations(prog, f2, (TDR, CC)):
            if f2.path in allowed and what == 'mutable borrow':
                continue
            bad.append('%s of %s in %s (%s:%d)' % (what, fmt_place(f2, pl), f2.path.split('::')[-1], f2.file, f2.line))
    rep.check(not bad, 'R4', 'guard-immutable', '-', 'guards keep the names they were constructed with',
              'a guard is modified after construction — it no longer removes what was created under its original names: %s' % sorted(set(bad)))
    # ---- R4 identifier-random --------------------------------------------------------------------------------------
    rid = prog.fns.get(RID)
    if rid is None:
        rep.unproven('R4', 'identifier-random', '-', 'random_docker_identifier not found')
    else:
        rep.analysed(rid)
        rv = sl.inline_deep(sl.local(rid, 0))
        inside = [rid] + list(prog.closures_of(rid))
        called = {c.name for f2 in inside for c in f2.calls if c.name}
        items = {x[1] for f2 in inside for x in walk(sl.local(f2, 0)) if x[0] in ('fnitem', 'call') and x[1]} | \
                {x[1] for x in walk(rv) if x[0] in ('fnitem', 'call') and x[1]}
        names = called | items
        seeded = sorted(n for n in names if n.split('::')[-1] in ('with_seed', 'seed', 'seed_from_u64', 'from_seed', 'fork'))
        glob = sorted(n for n in names if (n.startswith('fastrand::') and n.count('::') == 1 and n not in ('fastrand::seed', 'fastrand::get_seed'))
                      or n in ('fastrand::Rng::new', 'rand::random', 'rand::thread_rng', 'rand::rng', 'uuid::Uuid::new_v4'))
        count = _drawn(rv)
        if count is None:
            # the same identifier built piecewise: a prefix plus one drawn character per iteration of a counted loop
            src = set(glob)
            count = pushed_draws(prog, sl, rid, sl.local(rid, 0), lambda n: n in src) or None
        if seeded or not glob:
            rep.violated('R4', 'identifier-random', w(rid), 'identifiers are not drawn from an unseeded generator (seeded by %s, sources %s): runs share names and remove each other\'s resources' % (seeded, glob))
        elif count is None:
            rep.unproven('R4', 'identifier-random', w(rid), 'cannot determine how many random characters the identifier has: ' + vstr(rv)[:160])
        else:
            rep.check(count >= MIN_RANDOM_CHARS, 'R4', 'identifier-random', w(rid), 'identifiers carry %d characters from an unseeded generator' % count,
                      'identifiers carry only %d random characters: concurrent runs collide and remove each other\'s resources' % count)
    # ---- R5 buildpack-dir / sbom-dir-used --------------------------------------------------------------------------
    pk = [e for e in effects(bi, 'may') if e.kind == 'PKG']
    bad, idx = [], {}
    for e in pk:
        hit = [i for i, a in enumerate(e.args or ()) if tempdir_path(sl, a)]
        cf = callee(e)
        if len(hit) != 1 or cf is None:
            bad.append('%s at %s is not directed into the TempDir' % (e.call.name.split('::')[-1], e.where()))
        else:
            idx.setdefault(cf.path, set()).add(hit[0])
    inner_bad = []
    work = sorted(idx.items())
    done = set()
    while work and not bad:
        path, ii = work.pop()
        if path in done:
            continue
        done.add(path)
        pf = prog.fns[path]
        rep.analysed(pf)
        if len(ii) != 1:
            inner_bad.append('%s receives the directory at positions %s' % (path, sorted(ii)))
            continue
        ti = next(iter(ii))
        for e in effects(pf, 'may'):
            if e.kind == 'PKG':
                cf = callee(e)
                hit = [i for i, a in enumerate(e.args or ()) if strip(a) == ('param', pf.path, ti, strip(a)[3] if len(strip(a)) > 3 else None)]
                if len(hit) != 1 or cf is None:
                    inner_bad.append('%s does not forward its output directory to %s' % (path.split('::')[-1], e.call.name.split('::')[-1]))
                else:
                    work.append((cf.path, {hit[0]}))
            elif e.kind == 'RESOLVER':
                if not (e.args and ti in params_in(e.args[0], pf.path) and params_in(e.args[0], pf.path) == {ti}):
                    inner_bad.append('%s resolves packaged buildpack directories below %s' % (path.split('::')[-1], vstr(e.args[0])[:80] if e.args else '?'))
            elif e.kind in ('MKDIR', 'LIB_PKG'):
                dest = e.path if e.kind == 'MKDIR' else (e.args[4] if e.args and len(e.args) > 4 else None)
                if dest is None or ti not in params_in(dest, pf.path):
                    inner_bad.append('%s writes to %s, which is not below its output directory' % (path.split('::')[-1], vstr(dest)[:80] if dest else '?'))
    # build_internal itself creates / writes nothing outside a TempDir it owns
    from .lib.effects import MUTATING
    for e in effects(bi, 'may'):
        if e.kind in MUTATING and not (e.path is not None and any(tempdir_path(sl, x) for x in walk(sl.inline_deep(e.path)) if x[0] == 'call')):
            bad.append('%s of %s at %s is outside the owned temporary directories' % (e.kind, vstr(e.path)[:60] if e.path else '?', e.where()))
    rep.check(bool(pk) and not bad and not inner_bad, 'R5', 'buildpack-dir', w(bi), 'buildpacks are packaged into the owned TempDir only',
              'a packaged buildpack directory is written outside the TempDir and left behind: %s' % (bad + inner_bad))
    ds = prog.find_one(r"^libcnb_test::test_context::TestContext::<'_>::download_sbom_files$")
    outs = [e for e in effects(ds, 'may') if e.kind == 'SBOM_OUT']
    rep.check(bool(outs) and all(len(e.args) > 1 and tempdir_path(sl, e.args[1]) for e in outs), 'R5', 'sbom-dir-used', w(ds),
              'SBOM files are downloaded into the owned TempDir', 'SBOM files are downloaded to a directory that is not the owned TempDir')


def _drawn(v, depth=0):
    """number of elements an iterator expression inside v yields when that is a literal: `repeat_with(..).take(n)`,
    `(a..b).map(..)`, `[..; n]`; None when unknown"""
    for x in walk(v):
        if x[0] == 'call' and x[1] == IT + 'take' and len(x[2]) == 2:
            n = strip(x[2][1])
            src = strip(x[2][0])
            if n[0] == 'const' and isinstance(n[1], int) and src[0] == 'call' and src[1] in ('std::iter::repeat_with', 'std::iter::from_fn', 'std::iter::repeat'):
                return n[1]
            return None
        if x[0] == 'agg' and (x[1] or '') in ('std::ops::Range', 'std::ops::RangeInclusive'):
            fl = {k: strip(fv) for k, fv in x[3]}
            a, b = fl.get('start'), fl.get('end')
            if a and b and a[0] == 'const' and b[0] == 'const' and isinstance(a[1], int) and isinstance(b[1], int):
                return b[1] - a[1] + (1 if x[1].endswith('Inclusive') else 0)
            return None
    return None
