"""C06 — detect/build contexts reflect what the platform supplied.

Decided structurally:
  R1 context sources   each field of DetectContext / BuildContext comes from the prescribed input
                       (cwd, CNB_BUILDPACK_DIR, argv paths, Platform::from_path, read_toml_file of the
                       plan / buildpack.toml / store.toml, context_target), unmodified and ?-propagated
  R2 argv positions    DetectArgs{platform <- argv[1], plan <- argv[2]},
                       BuildArgs{layers <- argv[1], platform <- argv[2], plan <- argv[3]}
  R3 target table      Target{os, arch, arch_variant, distro_name, distro_version} <- the respective
                       CNB_TARGET_* variable
  R4 platform env      a variable is inserted only under Path::is_file (follows symlinks) of the entry;
                       key = file name, value = read_to_string (both unmodified, error propagated); the only
                       tolerated error is NotFound on the directory listing; GenericPlatform forwards to it
  R5 store tolerance   `None` only for an I/O error of kind NotFound; every other error propagates
  R6 no silent drop    no Result of an input read in the context-assembly functions (and the private helpers / closures
                       they are split into, incl. Results handed on as closure / helper arguments) is discarded
R4's insert obligations are stated on the Env::insert *effect* reached from read_platform_env (lib/effects) with key, value
and guards in normal form (C06_helpers.resolve), so they do not depend on loop vs iterator adapters or helper extraction.
R2 reads "element k of argv" in normal form (C06_helpers.element: slice patterns, split_first / sub-slices / slice->array
conversion / array::map, private helpers inlined); R4's guard and R6 read file-type tests in normal form (C06_helpers.file_test:
Path::is_file(p) = fs::metadata(p) ok and is_file); R5 reads "kind() == NotFound" in normal form (C06_helpers.not_found_test).
Not decided: equality of parsed TOML values with the document (toml crate), file contents.
"""
from .lib.discard import result_fates, local_fates, verdict
from .lib.effects import Effects, guards_of
from .lib.guards import conditions
from .lib.paths import strip, _listed_from
from .lib.tables import arm_defs, phi_local_of
from .lib.value import vstr, walk
from . import layer_env_common as L
from . import C06_helpers as H

RD = 'libcnb::runtime::libcnb_runtime_detect'
RB = 'libcnb::runtime::libcnb_runtime_build'
ASSEMBLY_RX = (r'^libcnb::runtime::(libcnb_runtime_detect|libcnb_runtime_build|context_target|read_buildpack_dir|read_buildpack_descriptor)(::\{closure#\d+\})*$',
               r'^libcnb::platform::read_platform_env(::\{closure#\d+\})*$',
               r'^<libcnb::generic::GenericPlatform as libcnb::platform::Platform>::from_path(::\{closure#\d+\})*$')
INSERT = 'libcnb::env::Env::insert'
TARGET = {'os': 'CNB_TARGET_OS', 'arch': 'CNB_TARGET_ARCH', 'arch_variant': 'CNB_TARGET_ARCH_VARIANT',
          'distro_name': 'CNB_TARGET_DISTRO_NAME', 'distro_version': 'CNB_TARGET_DISTRO_VERSION'}


def core(v):
    """strip ?/unwrap and error-mapping adapters"""
    if v is None:
        return ('unknown', 'none')
    v = strip(v)
    while v[0] == 'call' and v[1] in ('std::result::Result::<T, E>::map_err', 'std::result::Result::<T, E>::inspect_err') and v[2]:
        v = strip(v[2][0])
    return v


KEEP = ('libcnb_common::toml_file::read_toml_file',)


def stringy(v):
    """peel conversions between string / path types (but not `?`)"""
    while v[0] == 'updated' or (v[0] == 'call' and len(v[2]) == 1 and ('From' in v[1] or v[1].endswith(('::from', '::into', '::new')))):
        v = v[1] if v[0] == 'updated' else v[2][0]
    return v


def propagated(v):
    """the value is the success payload of a fallible read whose failure is propagated (not defaulted away)"""
    return isinstance(v, tuple) and v[0] == 'unwrap'


def toml_read_path(v):
    """path of the TOML file that value v is parsed from: read_toml_file(P) or toml::from_str(read_to_string(P)?)"""
    v = core(v)
    if v[0] == 'call' and v[1] == 'libcnb_common::toml_file::read_toml_file' and v[2]:
        return v[2][0]
    if v[0] == 'call' and v[1] in ('toml::from_str', 'toml::de::from_str') and v[2]:
        inner = v[2][0]
        if inner[0] == 'unwrap':
            r = core(inner[1])
            if r[0] == 'call' and r[1] == 'std::fs::read_to_string' and r[2]:
                return r[2][0]
    return None


def comps_p(v, is_root):
    """layer_env_common.comps, with the root predicate seeing the value *before* `?`/unwrap is stripped (so that it can
    require the root to be a propagated read whether or not a conversion call is wrapped around the payload)"""
    if v is None:
        return None
    if is_root(v) or is_root(strip(v)):
        return ()
    v = strip(v)
    if v[0] == 'call' and v[1] in L.JOIN and len(v[2]) == 2:
        a = comps_p(v[2][0], is_root)
        if a is None:
            return None
        b = strip(v[2][1])
        return a + ((b[1] if b[0] == 'const' else b),)
    return None


def args_field(v, fn_path, name):
    v = strip(v)
    return v[0] == 'field' and v[2] == name and v[1][0] == 'param' and v[1][1] == fn_path and v[1][2] == 1


def env_var_name(v):
    v = core(v)
    if v[0] == 'call' and v[1] in ('std::env::var', 'std::env::var_os') and strip(v[2][0])[0] == 'const':
        return strip(v[2][0])[1]
    return None


def stat_predicate(sl, f, c, fates):
    """every place where the Result of the stat call c is dropped is a spelling of Path::is_file / is_dir / exists on the same
    path following symlinks (C06_helpers.file_test), i.e. the Result is not an input read but the std bool predicate"""
    if c.name not in ('std::fs::metadata', 'std::path::Path::metadata'):
        return False
    p = strip(sl.operand(f, c.args[0]))
    dropped = [x for x in fates if x.kind == 'discarded']
    for x in dropped:
        if x.via is None or x.via.fn is not f:
            return False
        ft = H.file_test(sl, sl._call_value(f, x.via, set(), 0))
        if ft is None or not ft[2] or strip(ft[1]) != p:
            return False
    return bool(dropped) and all(x.kind in ('discarded', 'propagated', 'returned', 'matched') for x in fates)


def run(ctx, rep):
    prog, sl = ctx.prog, ctx.slicer
    for r, d in (('R1', 'context field sources'), ('R2', 'argv positions of the phase arguments'), ('R3', 'Target fields <- CNB_TARGET_* variables'),
                 ('R4', 'platform env reader: is_file guard, key/value provenance, NotFound-only tolerance'),
                 ('R5', 'store.toml: None only on NotFound'), ('R6', 'no input read has its Result discarded')):
        rep.rule(r, d)
    rep.not_decided = ['equality of parsed TOML values with the document (toml crate)', 'file contents']
    rd, rb = prog.fn(RD), prog.fn(RB)
    # ---- R1 ------------------------------------------------------------------------------------------
    for host, decl, adt in ((rd, 'libcnb::buildpack::Buildpack::detect', 'DetectContext'), (rb, 'libcnb::buildpack::Buildpack::build', 'BuildContext')):
        rep.analysed(host)
        cs = [c for c in host.calls if c.decl == decl]
        if len(cs) != 1:
            rep.unproven('R1', adt, host.file, 'call of %s not found' % decl)
            continue
        c = cs[0]
        cv = strip(sl.operand(host, c.args[1]))
        if cv[0] != 'agg' or not (cv[1] or '').endswith(adt):
            rep.unproven('R1', adt, c.where(), 'context is not a struct literal: ' + vstr(cv)[:100])
            continue
        # every field value is brought to a normal form first: private helpers are inlined and `?`/`map`/`and_then`
        # are resolved to the success payload (value.inline_deep / mk_unwrap), so the rules below read the *sources*
        # of a field, however the assembly code is split into helpers
        f = {k: sl.inline_deep(v, keep=KEEP) for k, v in cv[3]}
        adt_fields = sorted(x['name'] for v in prog.adt(cv[1])['variants'] for x in v['fields'])
        is_arg = lambda name: (lambda v: args_field(v, host.path, name))
        bp_dir = lambda v: stringy(v)[0] == 'unwrap' and env_var_name(stringy(v)[1]) == 'CNB_BUILDPACK_DIR'
        checks = {
            'app_dir': lambda v: propagated(v) and core(v)[0] == 'call' and core(v)[1] == 'std::env::current_dir',
            'buildpack_dir': bp_dir,
            'target': lambda v: strip(v)[0] == 'agg' and (strip(v)[1] or '').endswith('target::Target'),
            'platform': lambda v: propagated(v) and core(v)[0] == 'call' and core(v)[1] == 'libcnb::platform::Platform::from_path' and is_arg('platform_dir_path')(core(v)[2][0]),
            'buildpack_descriptor': lambda v: propagated(v) and comps_p(toml_read_path(v), bp_dir) == ('buildpack.toml',),
        }
        if adt == 'BuildContext':
            checks['layers_dir'] = is_arg('layers_dir_path')
            checks['buildpack_plan'] = lambda v: propagated(v) and toml_read_path(v) is not None and is_arg('buildpack_plan_path')(toml_read_path(v))
            checks['store'] = lambda v: any(L.comps(toml_read_path(x), is_arg('layers_dir_path')) == ('store.toml',) for x in walk(v) if x[0] in ('unwrap', 'call'))
        rep.check(sorted(checks) == adt_fields, 'R1', adt + '/fields', c.where(), 'all %d context fields have a source rule' % len(adt_fields),
                  'context fields %s, source table knows %s' % (adt_fields, sorted(checks)))
        for name, pred in checks.items():
            v = f.get(name, ('unknown', 'missing'))
            rep.check(bool(pred(v)), 'R1', '%s/%s' % (adt, name), c.where(), '%s <- prescribed input' % name,
                      '%s.%s is built from %s' % (adt, name, vstr(v)[:140]))
        # ---- R3 (per host: the Target handed to this phase) ------------------------------------------------
        tv = strip(f.get('target', ('unknown',)))
        if tv[0] != 'agg':
            rep.unproven('R3', 'target/' + adt, c.where(), 'Target literal not found: ' + vstr(tv)[:100])
        elif host is rd:
            for name, fv in tv[3]:
                src = env_var_name(fv)
                if src is None:
                    inner = strip(fv)
                    if inner[0] == 'call' and inner[2]:
                        src = env_var_name(inner[2][0])
                rep.check(src == TARGET.get(name), 'R3', 'target/' + name, c.where(), '%s <- %s' % (name, TARGET.get(name)),
                          'Target.%s is read from %s, expected %s' % (name, src, TARGET.get(name)))
            rep.check(sorted(n for n, _ in tv[3]) == sorted(TARGET), 'R3', 'target/fields', c.where(), 'all Target fields covered', 'Target fields: %s' % [n for n, _ in tv[3]])
        else:
            rep.check(f.get('target') == fd.get('target'), 'R3', 'target/same-in-build', c.where(), 'build gets the same Target construction as detect',
                      'BuildContext.target is assembled differently from DetectContext.target: ' + vstr(tv)[:120])
        if host is rd:
            fd = f
    # ---- R2 ------------------------------------------------------------------------------------------
    for phase, want in (('Detect', {'platform_dir_path': '[1]', 'build_plan_path': '[2]'}),
                        ('Build', {'layers_dir_path': '[1]', 'platform_dir_path': '[2]', 'buildpack_plan_path': '[3]'})):
        pf = prog.fn('libcnb::runtime::%sArgs::parse' % phase)
        rep.analysed(pf)
        # private helpers the parsing is split into are transparent; "element k of argv" is read in its normal form
        # (C06_helpers.element: slice patterns, split_first / sub-slices / slice->array conversions / array::map)
        v = sl.inline_deep(sl.local(pf, 0))
        agg = next((x for x in walk(v) if x[0] == 'agg' and (x[1] or '').endswith('%sArgs' % phase)), None)
        got = {}
        if agg:
            for name, fv in agg[3]:
                for _ in range(8):
                    fv = strip(stringy(strip(fv)))
                    nf = H.element(sl, fv)
                    if nf == fv:
                        break
                    fv = nf
                got[name] = fv[2] if fv[0] == 'index' and strip(fv[1])[0] == 'param' and strip(fv[1])[1] == pf.path else vstr(fv)[:40]
        rep.check(got == want, 'R2', phase, '%s:%d' % (pf.file, pf.line), '%sArgs <- %s' % (phase, want), '%sArgs fields come from argv positions %s, the spec order is %s' % (phase, got, want))
    # ---- R4 ------------------------------------------------------------------------------------------
    pe = prog.fn('libcnb::platform::read_platform_env')
    rep.analysed(pe)
    pw = '%s:%d' % (pe.file, pe.line)
    root = lambda y: y[0] == 'param' and y[1] == pe.path and y[2] == 0
    # The obligation is stated on the *effect* "a variable is inserted into the platform Env" reached from read_platform_env
    # (through private helpers, closures handed to iterator adapters / Option-Result combinators), with the inserted key /
    # value brought into the terms of read_platform_env and to their normal form (C06_helpers.resolve: payloads of private
    # helpers replaced by what each of their success alternatives returns, with that alternative's branch decisions).
    E = Effects(prog, sl, vocab={INSERT: ('ENV_INSERT', 1)})
    ins_effs = [e for e in E.expand(pe, 'may') if e.kind == 'ENV_INSERT']
    ins = {}
    for e in ins_effs:
        ins.setdefault((e.call.fn.path, e.call.bb), []).append(e)
    direct = [c for c in pe.calls if c.name == INSERT and (c.fn.path, c.bb) not in ins]
    if len(ins) != 1 or direct:
        rep.unproven('R4', 'insert', pw, '%d Env::insert sites' % (len(ins) + len(direct)))
    else:
        c = ins_effs[0].call
        cases = []      # (key value, value value, guards) for every way the insert can be reached
        for e in ins_effs:
            own = guards_of(E, e)
            for tv, gs in H.resolve(E, ('tuple', (e.args[1], e.args[2]))):
                if tv[0] == 'tuple' and len(tv[1]) == 2:
                    cases.append((tv[1][0], tv[1][1], own + gs))
                else:
                    cases.append((('unknown', 'key'), ('unknown', 'value'), own + gs))
        okk = okv = okg = bool(cases)
        kv = vv = ('unknown', 'no feasible insert')
        guard = []
        for kraw, vraw, gs in cases:
            kv, vv = strip(kraw), strip(vraw)
            # the file that is read: read_to_string(P)
            readp = strip(vv[2][0]) if vv[0] == 'call' and vv[1] == 'std::fs::read_to_string' and vv[2] else None
            pathv = None
            k1 = kv[0] == 'call' and kv[1] in ('std::path::Path::file_name', 'std::fs::DirEntry::file_name')
            if k1 and kv[1] == 'std::path::Path::file_name':
                pathv = strip(kv[2][0])
                src = _listed_from(pathv[2][0]) if pathv[0] == 'call' and pathv[1] == 'std::fs::DirEntry::path' else None
                k1 = src is not None and L.comps(src, root) == ('env',)
            elif k1:
                # entry.file_name(): the name of the same directory entry whose path() is read
                entry = kv[2][0]
                src = _listed_from(entry)
                k1 = src is not None and L.comps(src, root) == ('env',)
                if k1 and readp is not None and readp[0] == 'call' and readp[1] == 'std::fs::DirEntry::path' and strip(readp[2][0]) == strip(entry):
                    pathv = readp
                else:
                    pathv = ('call', 'std::fs::DirEntry::path', (entry,)) if k1 else None
            okk = okk and k1
            okv = okv and readp is not None and pathv is not None and readp == pathv and propagated(vraw)
            # the file-type tests among the guards, in normal form (Path::is_file(p) = fs::metadata(p) succeeded and says
            # is_file, however that is spelled: C06_helpers.file_test)
            guard = [(val, oc, H.file_test(sl, val)) for cd, views, subj in gs if cd.kind == 'bool' for val, oc in views]
            guard = [(val, oc, ft) for val, oc, ft in guard if ft is not None or (val[0] == 'call' and val[1].startswith('std::path::Path::'))]
            okg = okg and any(ft is not None and ft[0] == 'is_file' and ft[2] and oc is True and pathv is not None and strip(ft[1]) == pathv
                              for val, oc, ft in guard)
            if not (okk and okv and okg):
                break
        rep.check(okk, 'R4', 'key', c.where(), 'key = file name of an entry of <platform>/env', 'variable name is ' + vstr(kv)[:120])
        rep.check(okv, 'R4', 'value', c.where(), 'value = read_to_string(same entry)?, unmodified', 'variable value is ' + vstr(vv)[:140])
        rep.check(okg, 'R4', 'guard', c.where(), 'guarded by Path::is_file(entry) (follows symlinks)',
                  'insert guard is %s' % ['%s == %s' % (vstr(val)[:80], oc) for val, oc, ft in guard])
    # NotFound tolerance on the listing
    errs = [d for d in pe.whole_defs(0) if d[0] == 'stmt' and d[3]['r'] == 'agg' and d[3].get('variant') == 'Err']
    oks = [d for d in pe.whole_defs(0) if d[0] == 'stmt' and d[3]['r'] == 'agg' and d[3].get('variant') == 'Ok']
    tol_ok = False
    detail = ''
    for d in errs:
        cds = conditions(pe, d[1], sl)
        is_err = [cd for cd in cds if cd.kind == 'variant' and cd.outcome == frozenset({'Err'}) and strip(cd.subject)[0] == 'call' and strip(cd.subject)[1] == 'std::fs::read_dir']
        # the NotFound test: `err.kind() == NotFound` / `!=` / `matches!(err.kind(), NotFound)`
        nfs = []
        for cd in cds:
            if cd.kind == 'bool' and cd.value[0] == 'call' and cd.value[1] in ('std::cmp::PartialEq::ne', 'std::cmp::PartialEq::eq'):
                rhs, lhs = strip(cd.value[2][1]), strip(cd.value[2][0])
                is_nf = cd.outcome is False if cd.value[1].endswith('::ne') else cd.outcome is True
                shape = rhs[0] == 'agg' and rhs[2] == 'NotFound' and lhs[0] == 'call' and lhs[1] == 'std::io::Error::kind'
                nfs.append((cd, shape, is_nf, '%s vs %s' % (vstr(lhs)[:60], vstr(rhs)[:40])))
            elif cd.kind == 'variant' and (cd.enum or '').endswith('io::ErrorKind') and strip(cd.subject)[0] == 'call' and strip(cd.subject)[1] == 'std::io::Error::kind':
                nfs.append((cd, True, cd.outcome == frozenset({'NotFound'}), 'kind() in %s' % sorted(cd.outcome)))
        if is_err and nfs:
            cd, shape, is_nf, detail = nfs[-1]
            # this Err result is produced on the not-NotFound side, and every way from the Err arm to a success return
            # goes through that test
            through = all(to[1] not in pe.reachable(is_err[-1].target, stop=[cd.sw_bb]) or to[1] == cd.sw_bb for to in oks)
            tol_ok = shape and (not is_nf) and through
    rep.check(tol_ok, 'R4', 'listing-tolerance', pw, 'a failed listing is tolerated only for ErrorKind::NotFound', 'listing error tolerance is not NotFound-only (%s)' % detail)
    gp = prog.fn('<libcnb::generic::GenericPlatform as libcnb::platform::Platform>::from_path')
    rep.analysed(gp)
    v = sl.inline_deep(sl.mk_unwrap(sl.local(gp, 0), 1), keep=(pe.path,))
    bv = strip(v)
    ev = dict(bv[3]).get('env', ('unknown',)) if bv[0] == 'agg' and (bv[1] or '').endswith('GenericPlatform') else ('unknown',)
    ok = ev[0] == 'unwrap' and strip(ev)[0] == 'call' and strip(ev)[1] == pe.path and strip(strip(ev)[2][0])[0] == 'param'
    rep.check(ok, 'R4', 'generic-platform', '%s:%d' % (gp.file, gp.line), 'GenericPlatform::from_path = Ok(Self{env: read_platform_env(dir)?})', 'GenericPlatform::from_path = ' + vstr(v)[:120])
    # ---- R5 ------------------------------------------------------------------------------------------
    st_ok = False
    detail = 'store match not found'
    # the place where the store becomes None: libcnb_runtime_build itself or a private helper it calls
    from . import layer_roles
    nf_pred = layer_roles.roles(prog, sl).get('NOT_FOUND_PRED') or 'libcnb::util::is_not_found_error_kind'
    hosts = [g for g in prog.reach([rb]).values() if g.crate == 'libcnb' and g.kind != 'Closure'
             and any((c.name or '').endswith('read_toml_file') for c in g.calls)
             and any(x == ('const', 'store.toml') for c in g.calls if (c.name or '').endswith('read_toml_file') for x in walk(sl.operand(g, c.args[0])))]
    for g in hosts:
        rep.analysed(g)
        for bi, b in enumerate(g.blocks):
            for s in b['s']:
                if not (s[0] == '=' and s[2]['r'] == 'agg' and len(s[1]) == 1):
                    continue
                v = sl._rvalue(g, s[2], set(), 0, None)
                if s[2].get('variant') == 'Ok':
                    inner = strip(dict(v[3]).get('0', ('unknown',)))
                elif s[2].get('variant') == 'None' and 'Option<' in g.locals[s[1][0]]['ty'] and not g.ret.startswith('std::result::Result<std::option::Option'):
                    inner = v
                else:
                    continue
                if inner[0] == 'agg' and inner[2] == 'None' and (s[1] != [0] or g is not rb):
                    cds = conditions(g, bi, sl)
                    e1 = any(cd.kind == 'variant' and cd.outcome == frozenset({'Err'}) and any(x[0] == 'call' and x[1].endswith('read_toml_file') for x in walk(cd.subject)) for cd in cds)
                    e2 = any(cd.kind == 'variant' and cd.outcome == frozenset({'IoError'}) for cd in cds)
                    # "the I/O error is NotFound": the workspace's not-found predicate, or `kind() == NotFound` / `matches!`
                    # written out (C06_helpers.not_found_test) on an error that stems from this read
                    e3 = any(holds is True and any(x[0] == 'call' and x[1].endswith('read_toml_file') for x in walk(ev))
                             for cd in cds for ev, holds in H.not_found_test(cd.views() if cd.kind == 'bool' else [], cd, nf_pred))
                    st_ok = e1 and e2 and e3
                    detail = 'Err=%s IoError=%s not_found=%s' % (e1, e2, e3)
    rep.check(st_ok, 'R5', 'store/none', '%s:%d' % (rb.file, rb.line), 'store = None only for Err(IoError(e)) with e.kind() == NotFound', 'store tolerance: ' + detail)
    # ---- R6 ------------------------------------------------------------------------------------------
    n = 0
    fns = []
    for rx in ASSEMBLY_RX:
        fns.extend(prog.find(rx))
    # private helpers (and their closures) that the assembly functions are split into read inputs on their behalf
    have = {f.path for f in fns}
    # (the telemetry exporter of the optional `trace` feature is documented best-effort and reads no platform input:
    # outside the property's subject, as in C12)
    out_of_subject = lambda p_: p_.startswith('libcnb::tracing::')
    for path, g in sorted(prog.reach(fns, stop=lambda f_: out_of_subject(f_.path)).items()):
        if path not in have and g.crate == 'libcnb' and g.vis != 'pub' and g.kind in ('Fn', 'AssocFn', 'Closure') and not out_of_subject(path):
            fns.append(g)
    for f in fns:
        rep.analysed(f)
        per = {}
        for c in f.calls:
            if c.indirect or not c.dty or not c.dty.startswith('std::result::Result<'):
                continue
            if c.is_('std::ops::Try::branch') or (c.name or '').endswith('::from_residual'):
                continue
            if c.name in ('libcnb::runtime::DetectArgs::parse', 'libcnb::runtime::BuildArgs::parse'):
                continue
            n += 1
            rep.sites()
            fates = result_fates(prog, f, c)
            vd = verdict(fates)
            arg0 = strip(sl.operand(f, c.args[0])) if c.args else ('unknown',)
            tagv = arg0[1] if arg0[0] == 'const' and isinstance(arg0[1], str) else ''
            k = per.get((c.name, tagv), 0)
            per[(c.name, tagv)] = k + 1
            subj = '%s/%s%s#%d' % (f.path, c.name, '(%s)' % tagv if tagv else '', k)
            if vd == 'discarded' and c.args and stat_predicate(sl, f, c, fates):
                # fs::metadata(p).is_ok_and(|m| m.is_file()) *is* the bool predicate Path::is_file(p) of std (a failed stat
                # means "not a regular file"); what the predicate guards is R4's obligation
                rep.holds('R6', subj, c.where(), 'a stat used as the std file-type predicate (Path::is_file / is_dir / exists)')
            elif vd in ('ok', 'panics'):
                rep.holds('R6', subj, c.where(), 'result propagated')
            elif vd == 'discarded':
                rep.violated('R6', subj, c.where(), 'the Result of %s%s is dropped (%s): an unreadable input is silently treated as absent'
                             % (c.name, '("%s")' % tagv if tagv else '', '; '.join(x.detail or x.kind for x in fates if x.kind == 'discarded')),
                             {'function': f.path, 'callee': c.name, 'arg': tagv})
            else:
                rep.unproven('R6', subj, c.where(), 'fate of the Result of %s unknown: %s' % (c.name, [repr(x) for x in fates]))
        # a Result that reaches this closure / private helper as an argument (the element of `iter.map(read).try_fold(..)`,
        # `x.and_then(|r| ..)`) is the Result of an input read of the caller: same obligation
        if f.kind == 'Closure' or f.vis != 'pub':
            for local in range(2 if f.kind == 'Closure' else 1, f.argc + 1):
                if not f.locals[local]['ty'].startswith('std::result::Result<'):
                    continue
                fates = local_fates(prog, f, local, {}, set(), 0)
                vd = verdict(fates)
                subj = '%s/param:%s' % (f.path, f.local_name(local) or '_%d' % local)
                where = '%s:%d' % (f.file, f.line)
                if vd in ('ok', 'panics'):
                    rep.holds('R6', subj, where, 'result propagated')
                elif vd == 'discarded':
                    rep.violated('R6', subj, where, 'the Result handed to %s is dropped (%s): an unreadable input is silently treated as absent'
                                 % (f.path, '; '.join(x.detail or x.kind for x in fates if x.kind == 'discarded')), {'function': f.path})
                else:
                    rep.unproven('R6', subj, where, 'fate of the Result parameter unknown: %s' % [repr(x) for x in fates])
    rep.floor('R6', 'input_reads', n)
