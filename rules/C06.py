"""C06 — detect/build contexts reflect what the platform supplied.

Decided structurally:
  R1 context sources   each field of DetectContext / BuildContext comes from the prescribed input
                       (cwd, CNB_BUILDPACK_DIR, argv paths, Platform::from_path, read_toml_file of the
                       plan / buildpack.toml / store.toml, context_target), unmodified and ?-propagated
  R2 argv positions    DetectArgs{platform <- argv[1], plan <- argv[2]},
                       BuildArgs{layers <- argv[1], platform <- argv[2], plan <- argv[3]}
  R3 target table      Target{os, arch, arch_variant, distro_name, distro_version} <- the respective
                       CNB_TARGET_* variable
  R4 platform env      a variable is inserted only under Path::is_file (follows symlinks) of the entry;
                       key = file name, value = read_to_string (both unmodified, error propagated); the only
                       tolerated error is NotFound on the directory listing; GenericPlatform forwards to it
  R5 store tolerance   `None` only for an I/O error of kind NotFound; every other error propagates
  R6 no silent drop    no Result of an input read in the context-assembly functions (and the private helpers / closures
                       they are split into, incl. Results handed on as closure / helper arguments) is discarded
R4's insert obligations are stated on the Env::insert *effect* reached from read_platform_env (lib/effects) with key, value
and guards in normal form (C06_helpers.resolve), so they do not depend on loop vs iterator adapters or helper extraction.
R2 reads "element k of argv" in normal form (C06_helpers.element: slice patterns, split_first / sub-slices / slice->array
conversion / array::map, private helpers inlined); R4's guard and R6 read file-type tests in normal form (C06_helpers.file_test:
Path::is_file(p) = fs::metadata(p) ok and is_file); R5 reads "kind() == NotFound" in normal form (C06_helpers.not_found_test).
Deepening round (C06-d-* mutants / benign variants in selftest):
  R1 */unmodified, helpers/unmodified   no local that carries a part of the context (in the hosts and the private assembly
                       helpers) is borrowed mutably / partly overwritten between its source and the hand-over
                       (C06_helpers.carried_locals / inplace_mutations: in-place changes do not show in symbolic values)
  R2 argv-source, args-handed-on        the parsers get env::args() element for element; the phase entry points get the
                       parser's result (a failed parse diverges)
  R3 target-exact/*    nothing computes on the content of CNB_TARGET_* on its way into the field (C06_helpers.env_var_exact)
  R4 only-file-filter  every guard of the insert is "an input read succeeded / is present" or a file test implied by is_file
     all-entries       loops around the insert are left on success only by exhaustion; no truncating adapter; a short-
                       circuiting consumer only when its failure cannot end in success
     entry-error       the element Result of the listing is propagated (fates of the `next()` payload; an element used as an
                       iterator = flatten is a silent skip)
     fresh-env         the Env written to starts empty and is the one returned;  unmodified: name / content not changed in place
     env-insert        Env::insert stores (key.into(), value.into()) unconditionally, unchanged
     listing-tolerance-exact   from the failed-listing arm no success is reachable except through "kind is exactly NotFound"
     generic-platform-unmodified
  R5 store/some        every alternative of BuildContext.store is None or Some(read_toml_file(<layers>/store.toml)?)
     not-found-predicate  the workspace's not-found predicate is exactly kind() == NotFound
  R6                   now also covers libcnb_common::toml_file::read_toml_file and its private helpers
  R7 read_toml_file    normal form toml::from_str(&fs::read_to_string(P)?)? with P the parameter
  R8 schema/*          BuildpackPlan / Entry / Store / descriptor: spec keys -> same-named fields, unknown keys rejected,
                       metadata a TOML table, absent keys only filled with the empty value (lib/serde_schema)
Robustness round 3 (benign variants selftest/benign/C06-r3-*): obligations restated on normal forms instead of one spelling
  R2 argv-source       stated on the effect "the parser is called" reached from libcnb_runtime (lib/effects, argument in
                       libcnb_runtime's terms), wherever the dispatch is split into helpers;  args-handed-on reads the alternatives
                       of the handed-on value with "failure never gets here" resolved (C06_helpers.handed_alts: `?` / unwrap /
                       unwrap_or_else(diverging), private enum wrappers such as Invocation::Detect(args) projected away)
  R1/R3 filled arrays  `for (slot, row) in vals.iter_mut().zip(TABLE) { *slot = read(row)? }` is read slot by slot
                       (C06_helpers.filled_array / resolve_filled); the fill is the one mutable borrow that */unmodified accepts,
                       and what is written into the slots is followed instead (carried_locals_filled)
  R4 collect, then insert   the element of an iteration over a Vec that starts empty and is only grown by push is what was pushed,
                       under the guards of the push effect (C06_helpers.expand_collected); all-entries / unmodified cover both the
                       collecting and the inserting loop, incl. the iterated collections themselves (collection_mutations);
                       listing-tolerance(-exact) are decided in whichever private function lists the directory, and a failed
                       helper call is looked at like a failed listing
  R5 store/none        also where the None is produced in a closure handed to a Result combinator (`.or_else(|e| match e ..)`):
                       the closure's parameter is the receiver's error (C06_helpers.closure_binding); every None site must comply
  R7                   a private helper that is fs::read_to_string written out (File::open(p)?.read_to_string(&mut fresh)?, std's
                       definition: C06_helpers.read_to_string_equiv) is read as that call
Robustness round 4 (benign variants / mutants selftest/*/C06-r4-*): where a helper lives and how it is declared does not matter
  assembly helpers     R1 helpers/unmodified and R6 cover every function whose return value is part of a context (the functions
                       inline_deep makes transparent: C06_helpers.flow_helpers) — other modules, associated constructors
                       (Target::from_env), generic helpers (util::read_optional_toml_file) — not only neighbours in runtime.rs
  context literal      may be written in a constructor-like private helper the host hands the parts to (read through inline_deep /
                       mk_unwrap in the host's terms); */unmodified follows the hand-over: arguments of calls to those helpers, the
                       receivers of `?` / map_err / inspect_err, referents of shared borrows (C06_helpers.carried_locals_through)
  R5 store/none        the function that reads store.toml is named by the effect "read_toml_file(P) is called" reached from
                       libcnb_runtime_build with P in its terms (the path may be joined by the caller of a generic helper); a bare
                       `None` arm bound to a local counts as a None site also in a helper returning Result<Option<Store>, _>
  names                a finding is reported under the pinned tree's name of a private function that was moved *and* re-declared
                       (free fn <-> associated fn: C06_helpers.baseline_names; other signature: name_by_role "the function that
                       builds the context's Target"); read_platform_env / the argv parsers are looked up the same way (find_fn)
Robustness round 5 (benign variants / mutants selftest/*/C06-r5-*):
  R1 hand-over         where the phase entry point no longer calls Buildpack::detect / build itself, the hand-over is the *effect*
                       "detect / build is called" reached from it (lib/effects), with the context in the entry point's terms
                       (parameters of the inner function replaced by what is passed); */unmodified covers the function of the call
                       site and, at every level of the call chain, the locals handed on to the next level
  R4 optional listing  an Option used as an iterator / matched with `if let Some` is "its payload when there is one"
                       (C06_helpers.option_iter_norm / option_alternatives: `for e in maybe_listing.into_iter().flatten()`); flatten
                       of an Option<listing> passes every entry (flatten of the listing itself still skips Err entries); new
                       obligation in all-entries: a literal None of type Option<..ReadDir..> is written only where the listing has
                       failed (absent_listing_problems) — otherwise the None would be a way to drop a listing that was read
     listing-tolerance(-exact)   the workspace's not-found predicate counts as the NotFound decision; an edge saying that the read
                       known to have failed succeeded (`other => Some(other?)` after `Err(e) if not_found(&e)`) is infeasible; a
                       re-test of the same read's discriminant dominated by an earlier one (drop elaboration) opens no new arm;
                       listing-tolerance also holds when, on the control flow, success is reachable from the failed-listing arm
                       under — and only under — a kind-is-NotFound decision (was: one spelling of the Err arm)
  R7                   a String buffer of read_toml_file itself filled by File::open(P)?.read_to_string(&mut buf)? before the parse
                       is read as fs::read_to_string(P)? (C06_helpers.buffer_read: same conditions as for the private helper form)
Not decided: equality of parsed TOML values with the document (toml crate), file contents.
"""
from .lib.discard import result_fates, local_fates, verdict
from .lib.effects import Effects, guards_of
from .lib.guards import conditions
from .lib.paths import strip, _listed_from
from .lib.tables import arm_defs, phi_local_of
from .lib.value import vstr, walk
from . import layer_env_common as L
from . import C06_helpers as H

RD = 'libcnb::runtime::libcnb_runtime_detect'
RB = 'libcnb::runtime::libcnb_runtime_build'
ASSEMBLY_RX = (r'^libcnb::runtime::(libcnb_runtime_detect|libcnb_runtime_build|context_target|read_buildpack_dir|read_buildpack_descriptor)(::\{closure#\d+\})*$',
               r'^libcnb::platform::read_platform_env(::\{closure#\d+\})*$',
               r'^<libcnb::generic::GenericPlatform as libcnb::platform::Platform>::from_path(::\{closure#\d+\})*$',
               r'^libcnb_common::toml_file::read_toml_file(::\{closure#\d+\})*$')
READ_TOML = 'libcnb_common::toml_file::read_toml_file'
INSERT = 'libcnb::env::Env::insert'
TARGET = {'os': 'CNB_TARGET_OS', 'arch': 'CNB_TARGET_ARCH', 'arch_variant': 'CNB_TARGET_ARCH_VARIANT',
          'distro_name': 'CNB_TARGET_DISTRO_NAME', 'distro_version': 'CNB_TARGET_DISTRO_VERSION'}


def core(v):
    """strip ?/unwrap and error-mapping adapters"""
    if v is None:
        return ('unknown', 'none')
    v = strip(v)
    while v[0] == 'call' and v[1] in ('std::result::Result::<T, E>::map_err', 'std::result::Result::<T, E>::inspect_err') and v[2]:
        v = strip(v[2][0])
    return v


KEEP = ('libcnb_common::toml_file::read_toml_file',)


def stringy(v):
    """peel conversions between string / path types (but not `?`)"""
    while v[0] == 'updated' or (v[0] == 'call' and len(v[2]) == 1 and ('From' in v[1] or v[1].endswith(('::from', '::into', '::new')))):
        v = v[1] if v[0] == 'updated' else v[2][0]
    return v


def propagated(v):
    """the value is the success payload of a fallible read whose failure is propagated (not defaulted away)"""
    return isinstance(v, tuple) and v[0] == 'unwrap'


def toml_read_path(v):
    """path of the TOML file that value v is parsed from: read_toml_file(P) or toml::from_str(read_to_string(P)?)"""
    v = core(v)
    if v[0] == 'call' and v[1] == 'libcnb_common::toml_file::read_toml_file' and v[2]:
        return v[2][0]
    if v[0] == 'call' and v[1] in ('toml::from_str', 'toml::de::from_str') and v[2]:
        inner = v[2][0]
        if inner[0] == 'unwrap':
            r = core(inner[1])
            if r[0] == 'call' and r[1] == 'std::fs::read_to_string' and r[2]:
                return r[2][0]
    return None


def comps_p(v, is_root):
    """layer_env_common.comps, with the root predicate seeing the value *before* `?`/unwrap is stripped (so that it can
    require the root to be a propagated read whether or not a conversion call is wrapped around the payload)"""
    if v is None:
        return None
    if is_root(v) or is_root(strip(v)):
        return ()
    v = strip(v)
    if v[0] == 'call' and v[1] in L.JOIN and len(v[2]) == 2:
        a = comps_p(v[2][0], is_root)
        if a is None:
            return None
        b = strip(v[2][1])
        return a + ((b[1] if b[0] == 'const' else b),)
    return None


def args_field(v, fn_path, name):
    v = strip(v)
    return v[0] == 'field' and v[2] == name and v[1][0] == 'param' and v[1][1] == fn_path and v[1][2] == 1


def env_var_name(v):
    v = core(v)
    if v[0] == 'call' and v[1] in ('std::env::var', 'std::env::var_os') and strip(v[2][0])[0] == 'const':
        return strip(v[2][0])[1]
    return None


def stat_predicate(sl, f, c, fates):
    """every place where the Result of the stat call c is dropped is a spelling of Path::is_file / is_dir / exists on the same
    path following symlinks (C06_helpers.file_test), i.e. the Result is not an input read but the std bool predicate"""
    if c.name not in ('std::fs::metadata', 'std::path::Path::metadata'):
        return False
    p = strip(sl.operand(f, c.args[0]))
    dropped = [x for x in fates if x.kind == 'discarded']
    for x in dropped:
        if x.via is None or x.via.fn is not f:
            return False
        ft = H.file_test(sl, sl._call_value(f, x.via, set(), 0))
        if ft is None or not ft[2] or strip(ft[1]) != p:
            return False
    return bool(dropped) and all(x.kind in ('discarded', 'propagated', 'returned', 'matched') for x in fates)


def run(ctx, rep):
    prog, sl = ctx.prog, ctx.slicer
    for r, d in (('R1', 'context field sources'), ('R2', 'argv positions of the phase arguments'), ('R3', 'Target fields <- CNB_TARGET_* variables'),
                 ('R4', 'platform env reader: is_file guard, key/value provenance, NotFound-only tolerance'),
                 ('R5', 'store.toml: None only on NotFound'), ('R6', 'no input read has its Result discarded'),
                 ('R7', 'read_toml_file(P) = toml::from_str(read_to_string(P)?)?'),
                 ('R8', 'serde schema of the plan / store documents: spec keys, unknown keys rejected, metadata as a TOML table')):
        rep.rule(r, d)
    rep.not_decided = ['equality of parsed TOML values with the document (toml crate)', 'file contents']
    rd, rb = prog.fn(RD), prog.fn(RB)
    fd, fb = {}, {}
    EF = Effects(prog, sl)
    # the one mutable borrow of an array that is filled from a table is its fill: accounted for by reading its slots
    filled = lambda fn_, l_: H.filled_array(EF, fn_, l_) is not None
    raw_fields = []     # the context field values as written (before helpers are inlined)
    # ---- R1 ------------------------------------------------------------------------------------------
    for host, decl, adt in ((rd, 'libcnb::buildpack::Buildpack::detect', 'DetectContext'), (rb, 'libcnb::buildpack::Buildpack::build', 'BuildContext')):
        rep.analysed(host)
        cs = [c for c in host.calls if c.decl == decl]
        hand = None
        if len(cs) != 1:
            # the phase entry point may hand its work on to a private function (`detect_with_descriptor(buildpack, args,
            # app_dir, ..)`): the hand-over is the *effect* "Buildpack::detect / build is called" reached from the entry point,
            # with the context in the entry point's terms (lib/effects: the inner function's parameters are replaced by what
            # the entry point passes)
            EH = Effects(prog, sl, vocab={decl: ('HAND_OVER', 1)})
            hs = [e for e in EH.expand(host, 'may') if e.kind == 'HAND_OVER' and len(e.args) > 1]
            if len(hs) == 1:
                hand = hs[0]
                cs = [hand.call]
                rep.analysed(hand.call.fn)
        if len(cs) != 1:
            rep.unproven('R1', adt, host.file, 'call of %s not found' % decl)
            continue
        c = cs[0]
        cv_raw = hand.args[1] if hand is not None else sl.operand(host, c.args[1])
        cv = strip(cv_raw)
        if cv[0] != 'agg':
            # the struct literal may be written in a constructor-like private helper that the host hands the parts to
            # (`let ctx = assemble(app_dir, .., &args.platform_dir_path)?`): the helper is transparent, its parameters are
            # read in the host's terms
            cv = strip(sl.mk_unwrap(sl.inline_deep(cv_raw, keep=KEEP), 1))
            if cv[0] != 'agg':
                cv = strip(sl.inline_deep(cv_raw, keep=KEEP))
        ctx_helpers = H.flow_helpers(prog, sl, [cv_raw], keep=KEEP)
        raw_fields.append(cv_raw)
        if cv[0] != 'agg' or not (cv[1] or '').endswith(adt):
            rep.unproven('R1', adt, c.where(), 'context is not a struct literal: ' + vstr(cv)[:100])
            continue
        # every field value is brought to a normal form first: private helpers are inlined and `?`/`map`/`and_then`
        # are resolved to the success payload (value.inline_deep / mk_unwrap), so the rules below read the *sources*
        # of a field, however the assembly code is split into helpers
        # (an array filled slot by slot from a literal table — `for (slot, row) in vals.iter_mut().zip(TABLE) { *slot = read(row)? }` —
        # is read slot by slot: C06_helpers.resolve_filled)
        f = {k: H.resolve_filled(EF, sl.inline_deep(v, keep=KEEP)) for k, v in cv[3]}
        raw_fields.extend(v for _, v in cv[3])
        adt_fields = sorted(x['name'] for v in prog.adt(cv[1])['variants'] for x in v['fields'])
        is_arg = lambda name: (lambda v: args_field(v, host.path, name))
        bp_dir = lambda v: stringy(v)[0] == 'unwrap' and env_var_name(stringy(v)[1]) == 'CNB_BUILDPACK_DIR'
        checks = {
            'app_dir': lambda v: propagated(v) and core(v)[0] == 'call' and core(v)[1] == 'std::env::current_dir',
            'buildpack_dir': bp_dir,
            'target': lambda v: strip(v)[0] == 'agg' and (strip(v)[1] or '').endswith('target::Target'),
            'platform': lambda v: propagated(v) and core(v)[0] == 'call' and core(v)[1] == 'libcnb::platform::Platform::from_path' and is_arg('platform_dir_path')(core(v)[2][0]),
            'buildpack_descriptor': lambda v: propagated(v) and comps_p(toml_read_path(v), bp_dir) == ('buildpack.toml',),
        }
        if adt == 'BuildContext':
            checks['layers_dir'] = is_arg('layers_dir_path')
            checks['buildpack_plan'] = lambda v: propagated(v) and toml_read_path(v) is not None and is_arg('buildpack_plan_path')(toml_read_path(v))
            checks['store'] = lambda v: any(L.comps(toml_read_path(x), is_arg('layers_dir_path')) == ('store.toml',) for x in walk(v) if x[0] in ('unwrap', 'call'))
        rep.check(sorted(checks) == adt_fields, 'R1', adt + '/fields', c.where(), 'all %d context fields have a source rule' % len(adt_fields),
                  'context fields %s, source table knows %s' % (adt_fields, sorted(checks)))
        for name, pred in checks.items():
            v = f.get(name, ('unknown', 'missing'))
            rep.check(bool(pred(v)), 'R1', '%s/%s' % (adt, name), c.where(), '%s <- prescribed input' % name,
                      '%s.%s is built from %s' % (adt, name, vstr(v)[:140]))
        # ... and none of them is changed in place between its source and the hand-over (sorting / de-duplicating plan
        # entries, editing a path): the locals that carry the context's parts are never borrowed mutably
        from .lib.mir import op_place as _opl
        p0 = _opl(c.args[1])
        muts = H.inplace_mutations(c.fn, H.carried_locals_through(EF, c.fn, [p0[0]], ctx_helpers), allow=filled) if p0 else ['context operand is not a place']
        if hand is not None:
            # ... nor, at each level of the call chain down to the hand-over, what is passed on to the next level
            from .lib.effects import Link as _Link0
            for l_ in hand.chain:
                if isinstance(l_, _Link0):
                    starts_ = [_opl(a_)[0] for a_ in l_.call.args if _opl(a_)]
                    muts.extend(x for x in H.inplace_mutations(l_.call.fn, H.carried_locals_through(EF, l_.call.fn, starts_, ctx_helpers), allow=filled)
                                if x not in muts)
        rep.check(not muts, 'R1', adt + '/unmodified', c.where(), 'no part of the context is modified in place before the hand-over',
                  'an input is modified in place before it reaches %s: %s' % (adt, '; '.join(muts[:3])))
        # ---- R3 (per host: the Target handed to this phase) ------------------------------------------------
        tv = strip(f.get('target', ('unknown',)))
        if tv[0] != 'agg':
            rep.unproven('R3', 'target/' + adt, c.where(), 'Target literal not found: ' + vstr(tv)[:100])
        elif host is rd:
            for name, fv in tv[3]:
                src = env_var_name(fv)
                if src is None:
                    inner = strip(fv)
                    if inner[0] == 'call' and inner[2]:
                        src = env_var_name(inner[2][0])
                rep.check(src == TARGET.get(name), 'R3', 'target/' + name, c.where(), '%s <- %s' % (name, TARGET.get(name)),
                          'Target.%s is read from %s, expected %s' % (name, src, TARGET.get(name)))
                # ... and nothing computes on the content on its way into the field (case mapping, trimming, filtering, defaults)
                exact = H.env_var_exact(fv)
                rep.check(exact == TARGET.get(name), 'R3', 'target-exact/' + name, c.where(), '%s = content of %s, unmodified' % (name, TARGET.get(name)),
                          'Target.%s is not the unmodified content of %s: %s' % (name, TARGET.get(name), vstr(fv)[:120]))
            rep.check(sorted(n for n, _ in tv[3]) == sorted(TARGET), 'R3', 'target/fields', c.where(), 'all Target fields covered', 'Target fields: %s' % [n for n, _ in tv[3]])
        elif 'target' not in fd:
            rep.unproven('R3', 'target/same-in-build', c.where(), 'DetectContext.target was not found: nothing to compare BuildContext.target with')
        else:
            rep.check(f.get('target') == fd.get('target'), 'R3', 'target/same-in-build', c.where(), 'build gets the same Target construction as detect',
                      'BuildContext.target is assembled differently from DetectContext.target: ' + vstr(tv)[:120])
        if host is rd:
            fd = f
        else:
            fb = f
    # "the function that assembles the context's Target" is reported under the name it has on the pinned tree wherever it
    # lives and however it is declared today (lib/mir aliases cover pure renames / moves; C06_helpers.baseline_names a changed
    # declaration kind; this a changed signature)
    H.name_by_role(prog, sl, raw_fields, 'target::Target', 'libcnb::runtime::context_target')
    # the same for the private helpers the assembly is split into (context_target, read_buildpack_dir, ..): what they return
    # is not changed in place after it was read
    # (which functions these are is read off the values, not off where they are declared: every non-public workspace function
    # whose return value is part of a context field — the ones inline_deep made transparent above — and its closures, be it a
    # neighbour in runtime.rs, an associated constructor next to the type it builds or a generic helper in another module)
    hm = []
    helpers_ = {path_: g for path_, g in prog.reach([rd, rb]).items()
                if g.crate == 'libcnb' and path_.startswith('libcnb::runtime::') and g.vis != 'pub' and g.kind in ('Fn', 'AssocFn', 'Closure') and g not in (rd, rb)}
    for path_, g in H.flow_helpers(prog, sl, raw_fields, keep=KEEP).items():
        if g.crate == 'libcnb' and g not in (rd, rb):
            helpers_.setdefault(path_, g)
            for cl in prog.closures_of(g):
                helpers_.setdefault(cl.path, cl)
    for path_, g in sorted(helpers_.items()):
        rep.analysed(g)
        hm.extend(x for x in H.inplace_mutations(g, H.carried_locals_filled(EF, g, [0]), allow=filled) if x not in hm)
    rep.check(not hm, 'R1', 'helpers/unmodified', '%s:%d' % (rd.file, rd.line), 'no assembly helper modifies in place what it hands back',
              'an input is modified in place inside an assembly helper: ' + '; '.join(hm[:3]))
    # ---- R2 ------------------------------------------------------------------------------------------
    parser_of = {}      # phase -> the function that parses its arguments (under whatever path it lives today)
    for phase, want in (('Detect', {'platform_dir_path': '[1]', 'build_plan_path': '[2]'}),
                        ('Build', {'layers_dir_path': '[1]', 'platform_dir_path': '[2]', 'buildpack_plan_path': '[3]'})):
        pf = H.find_fn(prog, 'libcnb::runtime::%sArgs::parse' % phase)
        parser_of[phase] = pf.path
        rep.analysed(pf)
        # private helpers the parsing is split into are transparent; "element k of argv" is read in its normal form
        # (C06_helpers.element: slice patterns, split_first / sub-slices / slice->array conversions / array::map)
        v = sl.inline_deep(sl.local(pf, 0))
        agg = next((x for x in walk(v) if x[0] == 'agg' and (x[1] or '').endswith('%sArgs' % phase)), None)
        got = {}
        if agg:
            for name, fv in agg[3]:
                for _ in range(8):
                    fv = strip(stringy(strip(fv)))
                    nf = H.element(sl, fv)
                    if nf == fv:
                        break
                    fv = nf
                got[name] = fv[2] if fv[0] == 'index' and strip(fv[1])[0] == 'param' and strip(fv[1])[1] == pf.path else vstr(fv)[:40]
        rep.check(got == want, 'R2', phase, '%s:%d' % (pf.file, pf.line), '%sArgs <- %s' % (phase, want), '%sArgs fields come from argv positions %s, the spec order is %s' % (phase, got, want))
    # the argv handed to the parsers is the process's argument list, element for element (no argument dropped, replaced or
    # re-encoded on the way: positions and paths are exactly what the lifecycle passed)
    from .lib import iters
    PARSERS = {parser_of['Detect']: 'DetectArgs', parser_of['Build']: 'BuildArgs'}
    rt = prog.fns.get('libcnb::runtime::libcnb_runtime')
    # stated on the *effect* "the parser is called" reached from libcnb_runtime (through closures and private helpers the
    # dispatch is split into), with the argument in libcnb_runtime's terms
    seen_parsers = set()
    if rt is not None:
        EP = Effects(prog, sl, vocab={n: ('PARSE_ARGS', 0) for n in PARSERS})
        for e in EP.expand(rt, 'may'):
            if e.kind != 'PARSE_ARGS' or not e.args:
                continue
            c = e.call
            rep.analysed(c.fn)
            seen_parsers.add(c.name)
            av = sl.inline_deep(e.args[0])
            al = iters.alts(sl, av)
            ok = len(al) == 1 and al[0][1] is not None and not al[0][2] and strip(al[0][1])[0] == 'call' \
                and strip(al[0][1])[1] == 'std::env::args' and al[0][0] == iters.elem_of(al[0][1])
            rep.check(ok, 'R2', 'argv-source/' + PARSERS[c.name], c.where(), 'argv = env::args(), element for element',
                      'the argument list handed to %s is not env::args() unmodified: %s' % (PARSERS[c.name], vstr(av)[:140]))
    for n in sorted(set(PARSERS) - seen_parsers):
        rep.unproven('R2', 'argv-source/' + PARSERS[n], '%s:%d' % (rd.file, rd.line), 'no call of %s reached from libcnb_runtime' % n)
    # ... and what the phase entry points receive is the parser's result (a failed parse ends the process, it is not replaced):
    # every alternative of the handed-on value, with "failure never gets here" resolved (C06_helpers.handed_alts: unwrap /
    # unwrap_or_else(diverging) / `?`, enum wrappers around the parsed arguments projected away), is <Phase>Args::parse(..)'s payload
    handed = set()
    for g in prog.find(r'^libcnb::runtime::libcnb_runtime(::\{closure#\d+\})*$') + \
            [h for p_, h in sorted(prog.reach([rt] if rt else []).items()) if h.crate == 'libcnb' and h.vis != 'pub' and p_.startswith('libcnb::runtime::')
             and not p_.startswith('libcnb::runtime::libcnb_runtime')]:
        for c in g.calls:
            if c.name in (RD, RB) and len(c.args) == 2:
                rep.analysed(g)
                phase = 'Detect' if c.name == RD else 'Build'
                handed.add(phase)
                av = sl.inline_deep(sl.operand(g, c.args[1]), keep=tuple(PARSERS))
                al = [strip(x) for x in H.handed_alts(sl, prog, av)]
                ok = bool(al) and all(x[0] == 'call' and x[1] == parser_of[phase] for x in al)
                bad_ = [x for x in al if not (x[0] == 'call' and x[1] == parser_of[phase])]
                rep.check(ok, 'R2', 'args-handed-on/' + phase, c.where(), 'libcnb_runtime_%s receives %sArgs::parse(argv)' % (phase.lower(), phase),
                          'libcnb_runtime_%s receives %s' % (phase.lower(), vstr(bad_[0] if bad_ else av)[:140]))
    for phase in sorted({'Detect', 'Build'} - handed):
        rep.unproven('R2', 'args-handed-on/' + phase, '%s:%d' % (rd.file, rd.line), 'no call of libcnb_runtime_%s found in libcnb_runtime' % phase.lower())
    # ---- R4 ------------------------------------------------------------------------------------------
    pe = H.find_fn(prog, 'libcnb::platform::read_platform_env')
    rep.analysed(pe)
    pw = '%s:%d' % (pe.file, pe.line)
    root = lambda y: y[0] == 'param' and y[1] == pe.path and y[2] == 0
    # The obligation is stated on the *effect* "a variable is inserted into the platform Env" reached from read_platform_env
    # (through private helpers, closures handed to iterator adapters / Option-Result combinators), with the inserted key /
    # value brought into the terms of read_platform_env and to their normal form (C06_helpers.resolve: payloads of private
    # helpers replaced by what each of their success alternatives returns, with that alternative's branch decisions).
    voc = {INSERT: ('ENV_INSERT', 1)}
    voc.update({n: ('VEC_PUSH', 0) for n in H.PUSH})
    E = Effects(prog, sl, vocab=voc)
    all_effs = E.expand(pe, 'may')
    ins_effs = [e for e in all_effs if e.kind == 'ENV_INSERT']
    push_effs = [e for e in all_effs if e.kind == 'VEC_PUSH']
    ins = {}
    for e in ins_effs:
        ins.setdefault((e.call.fn.path, e.call.bb), []).append(e)
    direct = [c for c in pe.calls if c.name == INSERT and (c.fn.path, c.bb) not in ins]
    if len(ins) != 1 or direct:
        rep.unproven('R4', 'insert', pw, '%d Env::insert sites' % (len(ins) + len(direct)))
    else:
        c = ins_effs[0].call
        cases = []      # (key value, value value, guards) for every way the insert can be reached
        for e in ins_effs:
            own = guards_of(E, e)
            for tv, gs in H.resolve(E, ('tuple', (e.args[1], e.args[2]))):
                if tv[0] == 'tuple' and len(tv[1]) == 2:
                    cases.append((tv[1][0], tv[1][1], own + gs))
                else:
                    cases.append((('unknown', 'key'), ('unknown', 'value'), own + gs))
        # collect first, insert afterwards: where key / value are the element of an iteration over a Vec that starts empty and
        # is only grown by push, they are what was pushed, under the guards of that push (C06_helpers.expand_collected);
        # the pushes must come before the iteration (a helper's returned Vec, or no way from the insert loop back to the push)
        def order_ok(p_):
            return all(p_.call.fn is not e_.call.fn or p_.call.bb not in e_.call.fn.reachable(e_.call.bb) for e_ in ins_effs)
        used_pushes = []
        cases4 = H.expand_collected(E, cases, push_effs, order_ok)
        # an Option used as an iterator (`for entry in maybe_listing.into_iter().flatten()`) yields its payload when it is Some
        # and nothing when it is None: the element of iterating `Some(x)` is x, a case over a literal None never runs
        # (C06_helpers.option_iter_norm; whether the listing may be absent at all is the listing-tolerance obligation)
        def _opt_norm(v_):
            r_ = H.option_iter_norm(v_)
            if r_ is not None and r_ == v_ and any(x_[0] == 'call' and x_[1] == 'std::iter::Iterator::next' and x_[2] and
                                                   strip(x_[2][0])[0] == 'call' and strip(x_[2][0])[1] == 'std::iter::Iterator::next' for x_ in walk(v_)):
                # an element used as an iterator whose Option-ness only shows once private helpers are transparent
                # (`for e in list_dir(p)?.into_iter().flatten()`)
                r2_ = H.option_iter_norm(H.norm(sl, sl.inline_deep(v_)))
                if r2_ is not None:
                    return H.norm(sl, r2_)
            return r_

        def _opt_norm_guards(gs_):
            out_ = []
            for cd_, views_, subj_ in gs_:
                nv_ = [(_opt_norm(val_), oc_) for val_, oc_ in views_]
                ns_ = _opt_norm(subj_) if subj_ is not None else None
                out_.append((cd_, [(a_ if a_ is not None else views_[i_][0], oc_) for i_, (a_, oc_) in enumerate(nv_)],
                             ns_ if ns_ is not None else subj_))
            return out_
        cases4 = [(H.option_iter_norm(k_), H.option_iter_norm(v_), gs_, u_) for k_, v_, gs_, u_ in cases4]
        cases4 = [(H.norm(sl, k_), H.norm(sl, v_), _opt_norm_guards(gs_), u_) for k_, v_, gs_, u_ in cases4 if k_ is not None and v_ is not None]
        cases = [(k_, v_, gs_) for k_, v_, gs_, _u in cases4]
        for _k, _v, _g, us_ in cases4:
            used_pushes.extend(p_ for p_ in us_ if p_ not in used_pushes)
        okk = okv = okg = bool(cases)
        kv = vv = ('unknown', 'no feasible insert')
        guard = []
        for kraw, vraw, gs in cases:
            kv, vv = strip(kraw), strip(vraw)
            # the file that is read: read_to_string(P)
            readp = strip(vv[2][0]) if vv[0] == 'call' and vv[1] == 'std::fs::read_to_string' and vv[2] else None
            pathv = None
            k1 = kv[0] == 'call' and kv[1] in ('std::path::Path::file_name', 'std::fs::DirEntry::file_name')
            if k1 and kv[1] == 'std::path::Path::file_name':
                pathv = strip(kv[2][0])
                src = _listed_from(pathv[2][0]) if pathv[0] == 'call' and pathv[1] == 'std::fs::DirEntry::path' else None
                k1 = src is not None and L.comps(src, root) == ('env',)
            elif k1:
                # entry.file_name(): the name of the same directory entry whose path() is read
                entry = kv[2][0]
                src = _listed_from(entry)
                k1 = src is not None and L.comps(src, root) == ('env',)
                if k1 and readp is not None and readp[0] == 'call' and readp[1] == 'std::fs::DirEntry::path' and strip(readp[2][0]) == strip(entry):
                    pathv = readp
                else:
                    pathv = ('call', 'std::fs::DirEntry::path', (entry,)) if k1 else None
            okk = okk and k1
            okv = okv and readp is not None and pathv is not None and readp == pathv and propagated(vraw)
            # the file-type tests among the guards, in normal form (Path::is_file(p) = fs::metadata(p) succeeded and says
            # is_file, however that is spelled: C06_helpers.file_test)
            guard = [(val, oc, H.file_test(sl, val)) for cd, views, subj in gs if cd.kind == 'bool' for val, oc in views]
            guard = [(val, oc, ft) for val, oc, ft in guard if ft is not None or (val[0] == 'call' and val[1].startswith('std::path::Path::'))]
            okg = okg and any(ft is not None and ft[0] == 'is_file' and ft[2] and oc is True and pathv is not None and strip(ft[1]) == pathv
                              for val, oc, ft in guard)
            if not (okk and okv and okg):
                break
        rep.check(okk, 'R4', 'key', c.where(), 'key = file name of an entry of <platform>/env', 'variable name is ' + vstr(kv)[:120])
        rep.check(okv, 'R4', 'value', c.where(), 'value = read_to_string(same entry)?, unmodified', 'variable value is ' + vstr(vv)[:140])
        rep.check(okg, 'R4', 'guard', c.where(), 'guarded by Path::is_file(entry) (follows symlinks)',
                  'insert guard is %s' % ['%s == %s' % (vstr(val)[:80], oc) for val, oc, ft in guard])
        # -- nothing else decides whether a regular file becomes a variable: every guard of the insert is either "an input
        #    read succeeded / is present" or a file-type test implied by is_file(entry) (no filter on names or contents)
        extra = []
        for kraw, vraw, gs in cases:
            pv = H.entry_path_of(strip(kraw), strip(vraw))
            extra.extend(x for x in H.extra_guards(sl, prog, gs, lambda p_: pv is not None and H._same(strip(p_), pv)) if x not in extra)
        rep.check(bool(cases) and not extra, 'R4', 'only-file-filter', c.where(), 'is_file(entry) is the only filter between a directory entry and its variable',
                  'a regular file is additionally skipped unless: %s' % '; '.join(extra[:4]))
        # -- every entry of the listing is looked at: loops are left on success only by exhaustion, no truncating adapter
        probs, undecided = [], False
        for e in ins_effs + used_pushes:
            pr = H.exhaustive_problems(E, e)
            if pr is None:
                undecided = True
            else:
                probs.extend(x for x in pr if x not in probs)
        # ... and an optional listing (`None` for the tolerated missing directory, iterated / matched as "the listing when there
        # is one") is None only where the listing has failed: it is no way to drop a listing that was read
        lfns = [pe] + list(prog.closures_of(pe))
        for path_, g in sorted(prog.reach([pe]).items()):
            if g.crate == 'libcnb' and g.vis != 'pub' and g not in lfns:
                lfns.append(g)
        lnames = {g.path for g in lfns if g.kind != 'Closure' and g is not pe}
        ap, au = H.absent_listing_problems(E, lfns, lambda r_: r_[0] == 'call' and (r_[1] == 'std::fs::read_dir' or r_[1] in lnames))
        probs.extend(x for x in ap if x not in probs)
        undecided = undecided or au
        if undecided and not probs:
            rep.unproven('R4', 'all-entries', c.where(), 'the iteration that runs the insert has a shape that is not modelled')
        else:
            rep.check(not probs, 'R4', 'all-entries', c.where(), 'the iteration over <platform>/env visits every entry (left only by exhaustion or an error)',
                      'entries can be left unvisited without an error: ' + '; '.join(probs[:3]))
        # -- a failed directory entry is an error: the element Result of the listing is propagated, not skipped
        bad = []
        for kraw, vraw, gs in cases:
            it = H.iterated_element(('tuple', (kraw, vraw)))
            if it is not None:
                bad.append('the entry Result is iterated (flatten / into_iter), which skips Err: ' + vstr(it)[:100])
        rfns = []
        for rx in ASSEMBLY_RX[1:2]:
            rfns.extend(prog.find(rx))
        rfns.extend(g for g in [pe] + list(prog.closures_of(pe)) if g not in rfns)
        for path_, g in sorted(prog.reach(rfns).items()):
            if g.crate == 'libcnb' and g.vis != 'pub' and g not in rfns:
                rfns.append(g)
        nexts = 0
        for g in rfns:
            for nc in g.calls:
                if not nc.indirect and nc.decl == 'std::iter::Iterator::next' and (nc.dty or '').startswith('std::option::Option<std::result::Result<'):
                    nexts += 1
                    fts = H.element_fates(prog, g, nc)
                    vd = verdict(fts)
                    if vd == 'discarded':
                        bad.append('%s: %s' % (nc.where(), '; '.join(x.detail or x.kind for x in fts if x.kind == 'discarded')))
                    elif vd not in ('ok', 'panics'):
                        bad.append('%s: fate of the entry Result unknown (%s)' % (nc.where(), [repr(x) for x in fts][:2]))
        rep.check(not bad, 'R4', 'entry-error', pw, 'a directory entry that cannot be read is an error (%d explicit next() sites)' % nexts,
                  'a directory entry that cannot be read is silently skipped: ' + '; '.join(bad[:3]))
        # -- the Env handed back contains nothing but these inserts: it starts out empty and is the one inserted into
        fresh = H.fresh_env_problems(E, pe, ins_effs)
        # -- name and content are not changed in place between the read and the insert (truncating a trailing newline, case
        #    mapping): the locals that carry them — in the function that inserts and in the helpers / closures that hand
        #    them back — are never borrowed mutably (the Env being filled is, by design)
        from .lib.mir import op_place as _opl3
        im = []
        not_env = lambda g_, ls: {l_ for l_ in ls if 'libcnb::env::Env' not in g_.locals[l_]['ty']}
        for g in rfns:
            starts = [0] if g is not pe else []
            for e in ins_effs:
                if e.call.fn is g:
                    starts.extend(_opl3(a)[0] for a in e.call.args[1:3] if _opl3(a))
            for p_ in used_pushes:
                if p_.call.fn is g:
                    starts.extend(_opl3(a)[0] for a in p_.call.args[1:2] if _opl3(a))
            if starts:
                # (a Vec that starts empty and is only ever pushed to is not "modified": the pushes are read as its contents)
                im.extend(x for x in H.inplace_mutations(g, not_env(g, H.carried_locals(g, starts)), allow=H.grown_by_push_only) if x not in im)
        # ... and the collections that are iterated on the way (the listing, a Vec of collected entries / pairs) are not
        # changed in place either (sorted, truncated, elements edited through iter_mut): their only mutable uses are
        # pulling the next element and, for a Vec grown from empty, push
        from .lib.effects import Link as _Link
        for e in ins_effs + used_pushes:
            for call_ in [l_.call for l_ in e.chain if isinstance(l_, _Link)] + [e.call]:
                for lp in E.loops(call_.fn):
                    if call_.bb in lp.body and call_.bb != lp.header:
                        im.extend(x for x in H.collection_mutations(call_.fn, H.collection_locals(call_.fn, lp)) if x not in im)
        rep.check(not im, 'R4', 'unmodified', c.where(), 'name and content are not modified in place between read and insert',
                  'a variable name / content is modified in place before it is inserted: ' + '; '.join(im[:3]))
        rep.check(not fresh, 'R4', 'fresh-env', pw, 'the returned Env starts empty (Env::new) and is the one the variables are inserted into',
                  'the platform Env is not built from an empty Env: ' + '; '.join(fresh[:3]))
    # -- Env::insert itself stores (key, value) as given: the map entry is (key.into(), value.into()), neither changed in place
    ei = prog.fns.get(INSERT)
    if ei is None:
        rep.unproven('R4', 'env-insert', pw, INSERT + ' not found')
    else:
        rep.analysed(ei)
        puts = [c_ for c_ in ei.calls if not c_.indirect and (c_.decl or '').startswith('std::collections::') and (c_.decl or '').endswith('::insert') and len(c_.args) == 3]
        if len(puts) != 1:
            rep.unproven('R4', 'env-insert', '%s:%d' % (ei.file, ei.line), '%d map insert sites in Env::insert' % len(puts))
        else:
            pc = puts[0]
            mv, kv_, vv_ = (sl.operand(ei, a) for a in pc.args)
            isp = lambda v_, i: H.same_string(strip(v_))[0] == 'param' and H.same_string(strip(v_))[1] == ei.path and H.same_string(strip(v_))[2] == i
            m0 = strip(mv)
            shape = m0[0] == 'field' and strip(m0[1])[0] == 'param' and strip(m0[1])[2] == 0 and isp(kv_, 1) and isp(vv_, 2)
            from .lib.mir import op_place as _opl2
            starts = [_opl2(a)[0] for a in pc.args[1:] if _opl2(a)]
            muts = H.inplace_mutations(ei, H.carried_locals(ei, starts))
            always = all(ei.dominates(pc.bb, b_) for b_ in ei.return_blocks())
            rep.check(shape and not muts and always, 'R4', 'env-insert', pc.where(), 'Env::insert(k, v) stores (k.into(), v.into()) unconditionally',
                      'Env::insert does not store the pair it is given: map.insert(%s, %s)%s%s' % (vstr(kv_)[:50], vstr(vv_)[:50], ' after ' + '; '.join(muts[:2]) if muts else '',
                                                                                                     '' if always else ' (not on every path)'))
    # NotFound tolerance on the listing: decided in the function that lists the directory (read_platform_env itself or a private
    # helper it delegates the walk to); a helper's failure reaches read_platform_env as a Result whose fate is R6's obligation
    # and, below, is looked at like the listing's own failure
    pfns = [pe] + [g for p_, g in sorted(prog.reach([pe]).items()) if g is not pe and g.crate == 'libcnb' and g.vis != 'pub' and g.kind in ('Fn', 'AssocFn')]
    listers = [g for g in pfns if any(not c_.indirect and c_.name == 'std::fs::read_dir' for c_ in g.calls)]
    via_lister = {g.path for g in listers}
    grew = True
    while grew:
        grew = False
        for g in pfns:
            if g.path not in via_lister and any(c_.name in via_lister for c_ in g.calls):
                via_lister.add(g.path)
                grew = True

    def listing_tolerance(lh):
        errs = [d for d in lh.whole_defs(0) if d[0] == 'stmt' and d[3]['r'] == 'agg' and d[3].get('variant') == 'Err']
        oks = [d for d in lh.whole_defs(0) if d[0] == 'stmt' and d[3]['r'] == 'agg' and d[3].get('variant') == 'Ok']
        tol_ok = False
        detail = ''
        for d in errs:
            cds = conditions(lh, d[1], sl)
            is_err = [cd for cd in cds if cd.kind == 'variant' and cd.outcome == frozenset({'Err'}) and strip(cd.subject)[0] == 'call' and strip(cd.subject)[1] == 'std::fs::read_dir']
            # the NotFound test: `err.kind() == NotFound` / `!=` / `matches!(err.kind(), NotFound)`
            nfs = []
            for cd in cds:
                if cd.kind == 'bool' and cd.value[0] == 'call' and cd.value[1] in ('std::cmp::PartialEq::ne', 'std::cmp::PartialEq::eq'):
                    rhs, lhs = strip(cd.value[2][1]), strip(cd.value[2][0])
                    is_nf = cd.outcome is False if cd.value[1].endswith('::ne') else cd.outcome is True
                    shape = rhs[0] == 'agg' and rhs[2] == 'NotFound' and lhs[0] == 'call' and lhs[1] == 'std::io::Error::kind'
                    nfs.append((cd, shape, is_nf, '%s vs %s' % (vstr(lhs)[:60], vstr(rhs)[:40])))
                elif cd.kind == 'variant' and (cd.enum or '').endswith('io::ErrorKind') and strip(cd.subject)[0] == 'call' and strip(cd.subject)[1] == 'std::io::Error::kind':
                    nfs.append((cd, True, cd.outcome == frozenset({'NotFound'}), 'kind() in %s' % sorted(cd.outcome)))
            if is_err and nfs:
                cd, shape, is_nf, detail = nfs[-1]
                # this Err result is produced on the not-NotFound side, and every way from the Err arm to a success return
                # goes through that test
                through = all(to[1] not in lh.reachable(is_err[-1].target, stop=[cd.sw_bb]) or to[1] == cd.sw_bb for to in oks)
                tol_ok = shape and (not is_nf) and through
        return tol_ok, detail
    tols = [listing_tolerance(g) for g in (listers or [pe])]
    from . import layer_roles
    nf_pred = layer_roles.roles(prog, sl).get('NOT_FOUND_PRED') or 'libcnb::util::is_not_found_error_kind'
    for g in listers:
        rep.analysed(g)
    # ... and NotFound is the *only* kind that is tolerated: from the arm where the listing (or the private helper doing the
    # listing) has failed, no success return is reachable except through a decision "kind is exactly NotFound"
    from .lib.effects import success_sites
    leaks, arms = [], 0
    sem_tol = {}        # lister path -> the failed-listing arm of that function is tolerated exactly under "kind is NotFound"
    def _once(g_, r_):
        # a call value that names one execution of its call site (the site is in g_ and not on a cycle)
        site_ = r_[3] if r_[0] == 'call' and len(r_) > 3 else None
        return bool(site_) and site_[0] == g_.path and not g_.in_loop(site_[1])
    for g in [h for h in pfns if h.path in via_lister]:
        ok_bbs = {st.bb for st in success_sites(g)}
        # the switches that decide "this read failed", per read: a later re-test of the same (once-executed) read's
        # discriminant — drop elaboration, `other?` in a catch-all arm — that is dominated by an earlier one opens no new
        # arm: whoever gets there with the read failed came through the earlier switch's failure edge, and the walk from
        # that edge covers everything behind it
        fail_sw = {}
        for bi in range(len(g.blocks)):
            t = g.blocks[bi]['t']
            if t['t'] != 'switch':
                continue
            for tb in set([x for _, x in t['targets']] + [t['else']]):
                cd = H.edge_cond(g, bi, tb, sl)
                if cd is not None and cd.kind == 'variant' and cd.subject is not None and cd.outcome in (frozenset({'Err'}), frozenset({'Break'})):
                    r_ = H.success_root(cd.subject)
                    if _once(g, r_):
                        fail_sw.setdefault(r_, set()).add(bi)
        for bi in range(len(g.blocks)):
            t = g.blocks[bi]['t']
            if t['t'] != 'switch':
                continue
            for tb in set([x for _, x in t['targets']] + [t['else']]):
                cd = H.edge_cond(g, bi, tb, sl)
                if cd is None or cd.kind != 'variant' or cd.subject is None or cd.outcome not in (frozenset({'Err'}), frozenset({'Break'})):
                    continue
                root = H.success_root(cd.subject)
                direct = cd.outcome == frozenset({'Err'}) and strip(cd.subject)[0] == 'call' and strip(cd.subject)[1] == 'std::fs::read_dir'
                if direct or (root[0] == 'call' and (root[1] == 'std::fs::read_dir' or root[1] in via_lister)):
                    arms += 1
                    if any(b2 != bi and g.dominates(b2, bi) for b2 in fail_sw.get(root, ())):
                        continue
                    # (the read that has failed here cannot have succeeded further down: `other => Some(other?)` after an
                    # `Err(e) if not_found(&e)` arm only ever propagates)
                    failed = root if _once(g, root) else None
                    cuts = []
                    lk = H.tolerated_without_not_found(g, sl, tb, ok_bbs, pred=nf_pred, failed=failed, cuts=cuts)
                    leaks.extend('%s bb%d' % (g.path.split('::')[-1], b_) for b_ in lk)
                    if direct or (root[0] == 'call' and root[1] == 'std::fs::read_dir'):
                        # semantic reading of "tolerated only for NotFound" for this lister: the missing directory is
                        # tolerated (beyond a "kind is NotFound" decision taken in this arm a success is reachable) and
                        # nothing else is (no success without that decision)
                        tolerated = any(ok_bbs & set(g.reachable(c_[1])) | ({c_[1]} & ok_bbs) for c_ in cuts)
                        st_ = sem_tol.setdefault(g.path, [False, False])
                        st_[0] = st_[0] or (tolerated and cd.outcome == frozenset({'Err'}))
                        st_[1] = st_[1] or bool(lk)
    # listing-tolerance: the spelling `Err(err) => if err.kind() != NotFound { return Err(err) }` (listing_tolerance) or, stated on
    # the control flow, "from the failed-listing arm success is reachable under, and only under, a kind-is-NotFound decision"
    tol_fns = listers or [pe]
    rep.check(all(t or sem_tol.get(g_.path, [False, True]) == [True, False] for (t, _), g_ in zip(tols, tol_fns)), 'R4', 'listing-tolerance', pw,
              'a failed listing is tolerated only for ErrorKind::NotFound',
              'listing error tolerance is not NotFound-only (%s)' % '; '.join(d_ for _, d_ in tols))
    if arms == 0:
        # the listing's failure is not matched anywhere (`?` / combinators): nothing is tolerated here;
        # whether NotFound is tolerated at all is the obligation above
        rep.holds('R4', 'listing-tolerance-exact', pw, 'no explicit Err arm on the listing in read_platform_env')
    else:
        rep.check(not leaks, 'R4', 'listing-tolerance-exact', pw, 'from the failed-listing arm, success is reachable only under kind() == NotFound',
                  'a failed listing of <platform>/env ends in success for error kinds other than NotFound (success at %s)' % sorted(set(leaks)))
    gp = prog.fn('<libcnb::generic::GenericPlatform as libcnb::platform::Platform>::from_path')
    rep.analysed(gp)
    v = sl.inline_deep(sl.mk_unwrap(sl.local(gp, 0), 1), keep=(pe.path,))
    bv = strip(v)
    ev = dict(bv[3]).get('env', ('unknown',)) if bv[0] == 'agg' and (bv[1] or '').endswith('GenericPlatform') else ('unknown',)
    ok = ev[0] == 'unwrap' and strip(ev)[0] == 'call' and strip(ev)[1] == pe.path and strip(strip(ev)[2][0])[0] == 'param'
    gm = H.inplace_mutations(gp, H.carried_locals(gp, [0]))
    rep.check(not gm, 'R4', 'generic-platform-unmodified', '%s:%d' % (gp.file, gp.line), 'the Env read is handed on without being modified in place',
              'GenericPlatform::from_path modifies the Env it read: ' + '; '.join(gm[:3]))
    rep.check(ok, 'R4', 'generic-platform', '%s:%d' % (gp.file, gp.line), 'GenericPlatform::from_path = Ok(Self{env: read_platform_env(dir)?})', 'GenericPlatform::from_path = ' + vstr(v)[:120])
    # ---- R5 ------------------------------------------------------------------------------------------
    st_ok = False
    detail = 'store match not found'
    # the place where the store becomes None: libcnb_runtime_build itself or a private helper it calls
    from . import layer_roles
    nf_pred = layer_roles.roles(prog, sl).get('NOT_FOUND_PRED') or 'libcnb::util::is_not_found_error_kind'
    hosts = [g for g in prog.reach([rb]).values() if g.crate == 'libcnb' and g.kind != 'Closure'
             and any((c.name or '').endswith('read_toml_file') for c in g.calls)
             and any(x == ('const', 'store.toml') for c in g.calls if (c.name or '').endswith('read_toml_file') for x in walk(sl.operand(g, c.args[0])))]
    # ... or a helper anywhere in the crate that is handed the path: the effect "read_toml_file is called" reached from
    # libcnb_runtime_build, with the path in libcnb_runtime_build's terms (lib/effects), names the function that reads store.toml
    E5R = Effects(prog, sl, vocab={READ_TOML: ('READ_TOML', 0)})
    for e in E5R.expand(rb, 'may'):
        if e.kind == 'READ_TOML' and e.args and any(x == ('const', 'store.toml') for x in walk(e.args[0])):
            h = e.call.fn
            while h is not None and h.kind == 'Closure':
                h = prog.fns.get(h.parent)
            if h is not None and h.crate == 'libcnb' and h not in hosts:
                hosts.append(h)
    # the alternative `None` may be produced in the host itself or in a closure it hands to a Result combinator
    # (`.or_else(|e| match e { IoError(io) if not_found(io) => Ok(None), other => Err(other) })`): there the closure's
    # parameter is the error of the combinator's receiver (C06_helpers.closure_binding), which is the `Err` decision
    E5 = Effects(prog, sl)
    is_store_read = lambda x: x[0] == 'call' and x[1].endswith('read_toml_file')
    scan, none_sites = [], []
    for h in hosts:
        scan.append((h, None, None))
        for cl in prog.closures_of(h):
            cb = H.closure_binding(E5, cl)
            if cb is not None:
                scan.append((cl, cb[0], cb[1]))
            elif any(s_[0] == '=' and s_[2]['r'] == 'agg' and s_[2].get('variant') == 'None' for b_ in cl.blocks for s_ in b_['s']):
                scan.append((cl, None, {}))
    for g, comb, bind in scan:
        rep.analysed(g)
        for bi, b in enumerate(g.blocks):
            for s in b['s']:
                if not (s[0] == '=' and s[2]['r'] == 'agg' and len(s[1]) == 1):
                    continue
                v = sl._rvalue(g, s[2], set(), 0, None)
                if s[2].get('variant') == 'Ok':
                    inner = strip(dict(v[3]).get('0', ('unknown',)))
                elif s[2].get('variant') == 'None' and 'Option<' in g.locals[s[1][0]]['ty']:
                    inner = v
                else:
                    continue
                if inner[0] == 'agg' and inner[2] == 'None' and (s[1] != [0] or g is not rb):
                    cds = conditions(g, bi, sl)
                    in_terms = (lambda x: E5.subst(x, bind)) if bind else (lambda x: x)
                    e1 = any(cd.kind == 'variant' and cd.outcome == frozenset({'Err'}) and any(is_store_read(x) for x in walk(cd.subject)) for cd in cds)
                    if bind:
                        # the closure only runs for the error of its receiver, and that receiver is the store read
                        pb = bind.get((g.path, 1))
                        e1 = e1 or (pb is not None and pb[0] == 'unwrap_err' and any(is_store_read(x) for x in walk(pb[1])))
                    e2 = any(cd.kind == 'variant' and cd.outcome == frozenset({'IoError'}) for cd in cds)
                    # "the I/O error is NotFound": the workspace's not-found predicate, or `kind() == NotFound` / `matches!`
                    # written out (C06_helpers.not_found_test) on an error that stems from this read
                    e3 = any(holds is True and any(is_store_read(x) for x in walk(in_terms(ev)))
                             for cd in cds for ev, holds in H.not_found_test(cd.views() if cd.kind == 'bool' else [], cd, nf_pred))
                    none_sites.append(e1 and e2 and e3)
                    if all(none_sites[:-1]):
                        detail = 'Err=%s IoError=%s not_found=%s' % (e1, e2, e3)
    st_ok = bool(none_sites) and all(none_sites)
    rep.check(st_ok, 'R5', 'store/none', '%s:%d' % (rb.file, rb.line), 'store = None only for Err(IoError(e)) with e.kind() == NotFound', 'store tolerance: ' + detail)
    # the store handed to build is, in every alternative, either None or Some(the parsed <layers>/store.toml): no stand-in
    # (default / empty store) for a store that could not be read
    sv = fb.get('store') if fb else None
    if sv is None:
        rep.unproven('R5', 'store/some', '%s:%d' % (rb.file, rb.line), 'BuildContext.store not found')
    else:
        bad = []
        n_some = 0
        for a in H.alternatives(sl, sv):
            a0 = strip(a)
            if a0[0] == 'agg' and a0[2] == 'None':
                continue
            x = H.some_payload(a0)
            if x is not None and propagated(x) and L.comps(toml_read_path(x), lambda v_: args_field(v_, rb.path, 'layers_dir_path')) == ('store.toml',):
                n_some += 1
                continue
            bad.append(vstr(a0)[:100])
        rep.check(not bad and n_some > 0, 'R5', 'store/some', '%s:%d' % (rb.file, rb.line), 'store is None or Some(read_toml_file(<layers>/store.toml)?) in every alternative',
                  'BuildContext.store can also be %s' % '; '.join(bad[:3]) if bad else 'BuildContext.store is never the parsed store.toml')
    # the workspace's not-found predicate that R5 / other tolerance decisions rely on says exactly `kind() == NotFound`
    pf = prog.fns.get(nf_pred)
    if pf is not None:
        rep.analysed(pf)
        pv = sl.local(pf, 0)
        neg = False
        while pv[0] == 'un' and pv[1] == 'Not':
            pv, neg = pv[2], not neg
        class _C:     # a boolean "decision" on the predicate's returned expression being true
            kind = 'bool'
        res = H.not_found_test([(pv, not neg)], _C, None)
        okp = any(holds is True and strip(ev)[0] == 'param' for ev, holds in res)
        rep.check(okp, 'R5', 'not-found-predicate', '%s:%d' % (pf.file, pf.line), '%s(e) = (e.kind() == NotFound)' % nf_pred.split('::')[-1],
                  '%s is not exactly `kind() == NotFound`: %s' % (nf_pred.split('::')[-1], vstr(pv)[:160]))
    # ---- R7 ------------------------------------------------------------------------------------------
    # R1 treats read_toml_file(P) as "the document at P, parsed": that is what its body has to be. In normal form (private
    # helpers inlined, `?` / map_err / and_then resolved): toml::from_str(&fs::read_to_string(P)?)? with P its parameter,
    # nothing computing on the text in between, no stand-in for a file that cannot be read.
    tf = prog.fns.get(READ_TOML)
    if tf is None:
        rep.unproven('R7', 'read_toml_file', '-', READ_TOML + ' not found')
    else:
        rep.analysed(tf)
        tw = '%s:%d' % (tf.file, tf.line)
        # a private helper that is fs::read_to_string written out (File::open(p)?.read_to_string(&mut fresh String)?, std's own
        # definition: C06_helpers.read_to_string_equiv) is read as that call instead of being inlined (its buffer is filled in place)
        equiv = {}
        for path_, g in prog.reach([tf]).items():
            if g is not tf and g.crate == tf.crate:
                i_ = H.read_to_string_equiv(prog, sl, g)
                if i_ is not None:
                    equiv[path_] = i_
                    rep.analysed(g)
        tv = sl.inline_deep(sl.mk_unwrap(sl.local(tf, 0), 1), keep=tuple(equiv))
        doc = core(tv)
        parsed = propagated(tv) and doc[0] == 'call' and doc[1] in ('toml::from_str', 'toml::de::from_str') and len(doc[2]) == 1
        text = H.same_string(doc[2][0]) if parsed else ('unknown',)
        # ... as is a String buffer of read_toml_file itself that is filled in place the same way (in-place filling does not
        # show in symbolic values: the buffer reads `String::new()`), provided the read comes before the parse
        t0 = strip(text)
        if parsed and t0[0] == 'call' and len(t0) > 3 and t0[3] and len(doc) > 3 and doc[3] and doc[3][0] == tf.path:
            br = H.inline_buffer_reads(prog, sl, tf).get(tuple(t0[3]))
            if br is not None and br[0].bb != doc[3][1] and tf.dominates(br[0].bb, doc[3][1]):
                text = ('unwrap', ('call', 'std::fs::read_to_string', (br[1],), (tf.path, br[0].bb)))
        rd_ = core(text)
        # std::io::read_to_string(File::open(P)?) is the same read (the failure to open handed on)
        iop = H.io_read_to_string_path(rd_)
        if iop is not None:
            rd_ = ('call', 'std::fs::read_to_string', (iop,), rd_[3] if len(rd_) > 3 else None)
        if rd_[0] == 'call' and rd_[1] in equiv and equiv[rd_[1]] < len(rd_[2]):
            rd_ = ('call', 'std::fs::read_to_string', (rd_[2][equiv[rd_[1]]],), rd_[3] if len(rd_) > 3 else None)
        ok = parsed and propagated(text) and rd_[0] == 'call' and rd_[1] == 'std::fs::read_to_string' and len(rd_[2]) == 1 \
            and H.same_string(strip(rd_[2][0]))[0] == 'param' and H.same_string(strip(rd_[2][0]))[1] == tf.path
        # the text is a buffer of read_toml_file that something fills in place which is not a read this rule knows how to read
        # (neither File::open(P)?.read_to_string(&mut buf)? nor that with its error dropped): not understood, rather than wrong
        not_understood = None
        if not ok and parsed:
            for x_ in walk(text):
                if not (x_[0] == 'call' and x_[1] in H._NEW_STRING + H._NEW_VEC and len(x_) > 3 and x_[3] and x_[3][0] == tf.path):
                    continue
                bc_ = tf.call_at(x_[3][1])
                fl_ = H.buffer_fillers(tf, bc_.dest[0]) if bc_ is not None and bc_.dest and len(bc_.dest) == 1 else []
                if fl_ is None or any(c_.indirect or c_.decl != 'std::io::Read::read_to_string' for c_, _ai in fl_):
                    not_understood = 'the parsed text is a buffer filled in place by %s' % (
                        sorted({(c_.decl or c_.name or '?') for c_, _ai in fl_}) if fl_ else 'code that is not followed')
                    break
        if not_understood:
            rep.unproven('R7', 'read_toml_file', tw, not_understood + ': cannot tell that it is the text of the file given')
        else:
            rep.check(ok, 'R7', 'read_toml_file', tw, 'read_toml_file(P) = toml::from_str(&fs::read_to_string(P)?)?',
                      'read_toml_file does not parse exactly the text of the file it is given: ' + vstr(tv)[:160])
    # ---- R8 ------------------------------------------------------------------------------------------
    # what "parsed" means for the plan and the store (derived Deserialize impls, read off the generated code): the keys of
    # the spec map to the same-named fields, metadata is an arbitrary TOML table, and a key the type cannot represent is an
    # error (deny_unknown_fields) instead of being dropped
    from .lib import serde_schema as S
    TABLE = ('toml::map::Map<std::string::String, toml::Value>', 'toml::Value', 'toml::value::Value')
    bc = prog.adt('libcnb::build::BuildContext')
    fty = {x['name']: x['ty'] for v_ in (bc['variants'] if bc else []) for x in v_['fields']}
    plan_ty = fty.get('buildpack_plan')
    store_ty = (fty.get('store') or '')[len('std::option::Option<'):-1] if (fty.get('store') or '').startswith('std::option::Option<') else None
    entry_ty = None
    docs = []
    if plan_ty:
        sp = S.deser_struct(prog, sl, plan_ty)
        docs.append(('BuildpackPlan', plan_ty, sp, {'entries': 'entries'}))
        ek = sp['keys'].get('entries') if sp else None
        if ek is not None and ek.ty and ek.ty.startswith('std::vec::Vec<'):
            entry_ty = ek.ty[len('std::vec::Vec<'):-1]
        docs.append(('Entry', entry_ty, S.deser_struct(prog, sl, entry_ty) if entry_ty else None, {'name': 'name', 'metadata': 'metadata'}))
    docs.append(('Store', store_ty, S.deser_struct(prog, sl, store_ty) if store_ty else None, {'metadata': 'metadata'}))
    desc_ty = (fty.get('buildpack_descriptor') or '').split('<', 1)[0] or None
    docs.append(('Descriptor', desc_ty, S.deser_struct(prog, sl, desc_ty) if desc_ty else None,
                 {'api': 'api', 'buildpack': 'buildpack', 'stacks': 'stacks', 'targets': 'targets', 'metadata': 'metadata'}))
    for label, ty, sc, want in docs:
        where = '-'
        a = prog.adt(ty) if ty else None
        if a:
            where = '%s:%d' % (a['file'], a['line'])
        if sc is None or sc.get('kind') != 'struct':
            rep.unproven('R8', 'schema/' + label, where, 'no derived struct Deserialize found for %s' % ty)
            continue
        for fp in sc['fns']:
            if fp in prog.fns:
                rep.analysed(prog.fns[fp])
        got = {k.key: k.field for k in sc['keys'].values()}
        rep.check(got == want and not sc['problems'], 'R8', 'schema/%s/keys' % label, where, '%s: keys %s' % (label, sorted(want)),
                  '%s is read from keys %s (spec: %s) %s' % (label, got, want, sc['problems'] or ''))
        rep.check(sc['strict'] is True, 'R8', 'schema/%s/strict' % label, where, '%s rejects unknown keys' % label,
                  '%s silently ignores keys it cannot represent (no deny_unknown_fields)' % label)
        mk = sc['keys'].get('metadata')
        if 'metadata' in want and label != 'Descriptor':      # (the descriptor's metadata type is the buildpack's own)
            rep.check(mk is not None and mk.ty in TABLE, 'R8', 'schema/%s/metadata' % label, where, '%s.metadata is an arbitrary TOML table' % label,
                      '%s.metadata has type %s' % (label, mk.ty if mk else None))
        def empty_default(name, depth=0):
            # the callee producing the value of an absent key yields the empty value: Default::default / an argument-less
            # `new`, directly or through a workspace function that returns just that
            if name in (None, 'None') or name.endswith(('Default::default', 'Default>::default', '::new')):
                return True
            g_ = prog.fns.get(name)
            if g_ is None or depth > 3 or g_.argc:
                return False
            rv_ = strip(sl.local(g_, 0))
            return rv_[0] == 'call' and not rv_[2] and empty_default(rv_[1], depth + 1)
        dflt = [(k.key, k.default) for k in sc['keys'].values() if not empty_default(str(k.default) if k.default is not None else None)]
        rep.check(not dflt, 'R8', 'schema/%s/defaults' % label, where, '%s: an absent key is an error or the empty value' % label,
                  '%s fills absent keys with %s' % (label, dflt))
    # ---- R6 ------------------------------------------------------------------------------------------
    n = 0
    fns = []
    for rx in ASSEMBLY_RX:
        fns.extend(prog.find(rx))
    # (the platform env reader under whatever path it lives today)
    fns.extend(g for g in [pe] + list(prog.closures_of(pe)) if g not in fns)
    # private helpers (and their closures) that the assembly functions are split into read inputs on their behalf
    have = {f.path for f in fns}
    # (the telemetry exporter of the optional `trace` feature is documented best-effort and reads no platform input:
    # outside the property's subject, as in C12)
    out_of_subject = lambda p_: p_.startswith('libcnb::tracing::')
    for path, g in sorted(prog.reach(fns, stop=lambda f_: out_of_subject(f_.path)).items()):
        if path not in have and g.crate in ('libcnb', 'libcnb_common') and g.vis != 'pub' and g.kind in ('Fn', 'AssocFn', 'Closure') and not out_of_subject(path):
            fns.append(g)
            have.add(path)
    # ... as does every function whose return value is part of a context (the ones made transparent for R1), whatever its
    # visibility and wherever it is declared
    for path, g in sorted(H.flow_helpers(prog, sl, raw_fields, keep=KEEP).items()):
        for h in [g] + list(prog.closures_of(g)):
            if h.path not in have and h.crate in ('libcnb', 'libcnb_common') and not out_of_subject(h.path):
                fns.append(h)
                have.add(h.path)
    for f in fns:
        rep.analysed(f)
        per = {}
        for c in f.calls:
            if c.indirect or not c.dty or not c.dty.startswith('std::result::Result<'):
                continue
            if c.is_('std::ops::Try::branch') or (c.name or '').endswith('::from_residual'):
                continue
            if c.name in PARSERS:
                continue
            n += 1
            rep.sites()
            fates = result_fates(prog, f, c)
            vd = verdict(fates)
            arg0 = strip(sl.operand(f, c.args[0])) if c.args else ('unknown',)
            tagv = arg0[1] if arg0[0] == 'const' and isinstance(arg0[1], str) else ''
            k = per.get((c.name, tagv), 0)
            per[(c.name, tagv)] = k + 1
            subj = '%s/%s%s#%d' % (H.reported_name(prog, f), c.name, '(%s)' % tagv if tagv else '', k)
            if vd == 'discarded' and c.args and stat_predicate(sl, f, c, fates):
                # fs::metadata(p).is_ok_and(|m| m.is_file()) *is* the bool predicate Path::is_file(p) of std (a failed stat
                # means "not a regular file"); what the predicate guards is R4's obligation
                rep.holds('R6', subj, c.where(), 'a stat used as the std file-type predicate (Path::is_file / is_dir / exists)')
            elif vd in ('ok', 'panics'):
                rep.holds('R6', subj, c.where(), 'result propagated')
            elif vd == 'discarded':
                rep.violated('R6', subj, c.where(), 'the Result of %s%s is dropped (%s): an unreadable input is silently treated as absent'
                             % (c.name, '("%s")' % tagv if tagv else '', '; '.join(x.detail or x.kind for x in fates if x.kind == 'discarded')),
                             {'function': f.path, 'callee': c.name, 'arg': tagv})
            else:
                rep.unproven('R6', subj, c.where(), 'fate of the Result of %s unknown: %s' % (c.name, [repr(x) for x in fates]))
        # a Result that reaches this closure / private helper as an argument (the element of `iter.map(read).try_fold(..)`,
        # `x.and_then(|r| ..)`) is the Result of an input read of the caller: same obligation
        if f.kind == 'Closure' or f.vis != 'pub':
            for local in range(2 if f.kind == 'Closure' else 1, f.argc + 1):
                if not f.locals[local]['ty'].startswith('std::result::Result<'):
                    continue
                fates = local_fates(prog, f, local, {}, set(), 0)
                vd = verdict(fates)
                subj = '%s/param:%s' % (H.reported_name(prog, f), f.local_name(local) or '_%d' % local)
                where = '%s:%d' % (f.file, f.line)
                if vd in ('ok', 'panics'):
                    rep.holds('R6', subj, where, 'result propagated')
                elif vd == 'discarded':
                    rep.violated('R6', subj, where, 'the Result handed to %s is dropped (%s): an unreadable input is silently treated as absent'
                                 % (f.path, '; '.join(x.detail or x.kind for x in fates if x.kind == 'discarded')), {'function': f.path})
                else:
                    rep.unproven('R6', subj, where, 'fate of the Result parameter unknown: %s' % [repr(x) for x in fates])
    rep.floor('R6', 'input_reads', n)
