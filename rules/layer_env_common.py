"""Tables extracted from libcnb::layer_env, shared by C03, C04 and C10."""
from .lib.paths import strip
from .lib.tables import arm_defs, phi_local_of
from .lib.value import vstr, walk
from .lib.mir import op_place

LE = 'libcnb::layer_env::LayerEnv'
W_LAYER = 'libcnb::layer_env::LayerEnv::write_to_layer_dir'
R_LAYER = 'libcnb::layer_env::LayerEnv::read_from_layer_dir'
W_DIR = 'libcnb::layer_env::LayerEnvDelta::write_to_env_dir'
R_DIR = 'libcnb::layer_env::LayerEnvDelta::read_from_env_dir'
MB = 'libcnb::layer_env::ModificationBehavior'
JOIN = ('std::path::Path::join', 'std::path::PathBuf::join')


INSERT = 'libcnb::layer_env::LayerEnvDelta::insert'
DELIM_FOR = 'libcnb::layer_env::LayerEnvDelta::delimiter_for'
_resolved_for = None


def resolve_roles(prog, sl):
    """The public anchors are LayerEnv::{write_to_layer_dir, read_from_layer_dir, apply}; the private per-directory
    writer / reader, the per-delta apply, the delta insert and the delimiter lookup are *discovered* from them through
    the call graph (so renaming or moving those helpers does not disturb the rules):
      W_DIR     = the workspace function that write_to_layer_dir calls with a field of self as receiver
      R_DIR     = the workspace function whose result read_from_layer_dir stores into a field of the result
      DAPPLY    = the workspace function the fold / loop in apply calls with (delta, env)
      INSERT    = the workspace function R_DIR calls with four arguments on the delta it builds
      DELIM_FOR = the workspace function DAPPLY calls with (self, name) whose result is pushed"""
    global W_DIR, R_DIR, DAPPLY, INSERT, DELIM_FOR, _resolved_for
    if _resolved_for is prog:
        return
    _resolved_for = prog
    LED = 'libcnb::layer_env::LayerEnvDelta'
    w = prog.fns.get(W_LAYER)
    if w is not None:
        c0 = [c.name for c in w.calls if c.name in prog.fns and c.args and self_field(w, sl.operand(w, c.args[0])) is not None
              and prog.fns[c.name].crate == 'libcnb']
        if len(set(c0)) == 1:
            W_DIR = c0[0]
    r = prog.fns.get(R_LAYER)
    if r is not None:
        c0 = [c.name for g in [r] + prog.closures_of(r) for c in g.calls if c.name in prog.fns and (c.dty or '').startswith('std::result::Result<' + LED)]
        if len(set(c0)) == 1:
            R_DIR = c0[0]
    a = prog.fns.get(APPLY)
    if a is not None:
        c0 = [c.name for g in [a] + prog.closures_of(a) for c in g.calls if c.name in prog.fns and c.dty == 'libcnb::env::Env' and len(c.args) == 2
              and prog.fns[c.name].self_head == LED]
        if len(set(c0)) == 1:
            DAPPLY = c0[0]
    h = prog.fns.get(R_DIR)
    if h is not None:
        c0 = [c.name for c in h.calls if c.name in prog.fns and len(c.args) == 4 and prog.fns[c.name].self_head == LED]
        if len(set(c0)) == 1:
            INSERT = c0[0]
    d = prog.fns.get(DAPPLY)
    if d is not None:
        c0 = [c.name for c in d.calls if c.name in prog.fns and len(c.args) == 2 and prog.fns[c.name].self_head == LED and (c.dty or '') == 'std::ffi::OsString']
        if len(set(c0)) == 1:
            DELIM_FOR = c0[0]


def comps(v, is_root):
    """components of a path value below the root: join(join(root,'a'), x) -> ('a', x)"""
    if v is None:
        return None
    v = strip(v)
    if is_root(v):
        return ()
    if v[0] == 'call' and v[1] in JOIN and len(v[2]) == 2:
        a = comps(v[2][0], is_root)
        if a is None:
            return None
        b = strip(v[2][1])
        return a + ((b[1] if b[0] == 'const' else b),)
    return None


def param_pred(fn, idx):
    return lambda v: v[0] == 'param' and v[1] == fn.path and v[2] == idx


def self_field(fn, v):
    v = strip(v)
    if v[0] == 'field' and v[1][0] == 'param' and v[1][1] == fn.path and v[1][2] == 0:
        return v[2]
    return None


def loop_element(v):
    """if v is (a projection of) the element of an iteration over X return (X, projection tuple)"""
    proj = []
    v = strip(v)
    while v[0] == 'field':
        proj.append(v[2])
        v = strip(v[1])
    if v[0] == 'call' and v[1] == 'std::iter::Iterator::next' and v[2]:
        coll = strip(v[2][0])
        # `for x in &xs` and `for x in xs.iter()` visit the same elements
        from .lib import iters
        while coll[0] == 'call' and len(coll[2]) == 1 and iters._is_source(coll[1]) and coll[1].endswith(iters.SAME_ELEMS):
            coll = strip(coll[2][0])
        return coll, tuple(reversed(proj))
    return None, None


def walk_deep(sl, v, depth=0, _seen=None):
    """like value.walk, but results of private workspace functions are looked into as well (lazy inlining)"""
    for x in walk(v):
        yield x
        if x[0] == 'call' and depth < 4 and x[1] in sl.prog.fns and sl.prog.fns[x[1]].kind != 'Closure':
            iv = sl.inline_call(x)
            if iv is not None:
                yield from walk_deep(sl, iv, depth + 1)


def _entries_scope(f, v):
    """which delta's `entries` does the value range over: 'all' | 'build' | 'launch' | 'process[*]' | None"""
    for x in walk(v):
        if x[0] == 'field' and x[2] == 'entries':
            owner = strip(x[1])
            fld = self_field(f, owner)
            if fld is not None:
                return fld, None
            coll, proj = loop_element(owner)
            if coll is not None and self_field(f, coll) is not None and proj == ('1',):
                return self_field(f, coll) + '[*]', coll
    return None, None


def writer_scope_table(prog, sl):
    """{scope: (directory components...)} of write_to_layer_dir, derived from its *effects*: every file WRITE below
    the layer directory names the delta whose entries it ranges over (self.all / self.build / self.launch /
    the values of self.process) and the directory it is created in.  Independent of how the per-scope writes are
    spelled (three calls, a loop over a table of (dir, delta) pairs, iterator chains, helpers).
    rows: (effect, scope | None, dir components | None, -, path value)"""
    from .lib.effects import Effects
    resolve_roles(prog, sl)
    f = prog.fn(W_LAYER)
    root = param_pred(f, 1)
    E = Effects(prog, sl)
    table = {}
    rows = []
    for e in E.expand(f, 'may'):
        if e.kind != 'WRITE' or e.path is None:
            continue
        cs = comps(e.path, root)
        scope, coll = _entries_scope(f, e.path)
        if scope is None and e.args:
            for a in e.args[1:]:
                scope, coll = _entries_scope(f, a)
                if scope is not None:
                    break
        dirs = None
        if cs is not None and len(cs) >= 1:
            dirs = cs[:-1]
            if coll is not None and dirs:
                last = dirs[-1]
                if not isinstance(last, str):
                    c2, p2 = loop_element(last)
                    if c2 == coll and p2 == ('0',):
                        dirs = dirs[:-1] + ('<key>',)
        rows.append((e, scope, dirs, None, e.path))
        if scope is not None and dirs is not None and all(isinstance(d, str) for d in dirs):
            if scope in table and table[scope] != dirs:
                table[scope] = None    # one scope persisted in two places
            else:
                table[scope] = dirs
        elif scope is not None:
            table.setdefault(scope, None)
    return f, table, rows


def writer_must_dirs(prog, sl):
    """directories (component tuples below the layer dir, '<key>' for the process name) that the per-directory
    writer is run on, on every successful write_to_layer_dir, in program order"""
    from .lib.effects import Effects
    resolve_roles(prog, sl)
    f = prog.fn(W_LAYER)
    root = param_pred(f, 1)
    E = Effects(prog, sl)
    out = []
    for e in E.expand(f, 'must'):
        if e.path is None or not any(c.name == W_DIR for c in e.chain):
            continue
        cs = comps(e.path, root)
        if cs is None:
            continue
        cs = tuple(d if isinstance(d, str) else ('<key>' if loop_element(d)[0] is not None else '<?>') for d in cs)
        if (cs, e.forall is not None) not in out:
            out.append((cs, e.forall is not None))
    return out


def reader_scope_table(prog, sl):
    """{scope: (components...)} from where read_from_layer_dir stores the result of each per-dir read"""
    resolve_roles(prog, sl)
    g = prog.fn(R_LAYER)
    root = param_pred(g, 0)
    table = {}
    detail = {}
    fns = [g] + prog.closures_of(g)
    # (a) field assignments  result.<scope> = read_from_env_dir(path)?   (possibly through a private helper)
    for f in fns:
        for key, defs in f.defs().items():
            if not (isinstance(key, tuple) and key[1] == 'partial'):
                continue
            for d in defs:
                if d[0] == 'stmt':
                    pl = d[4]
                    v = sl._rvalue(f, d[3], set(), 0, None)
                elif d[0] == 'call':
                    pl = d[4]
                    v = sl._call_value(f, d[3], set(), 0)
                else:
                    continue
                if f.locals[pl[0]].get('head') != LE:
                    continue
                fld = [p for p in pl[1:] if p != '*']
                if len(fld) != 1:
                    continue
                _scan_read(sl, f, d[1], v, fld[0][1:], root, table, detail)
        # (b) result.<map>.insert(key, read_from_env_dir(path)?)
        for c in f.calls:
            if c.indirect or not c.name or not c.name.endswith('::insert') or len(c.args) < 3:
                continue
            recv = strip(sl.operand(f, c.args[0]))
            if recv[0] != 'field':
                continue
            val = sl.operand(f, c.args[2])
            kv = sl.operand(f, c.args[1])
            _scan_read(sl, f, c.bb, val, recv[2] + '[*]', root, table, detail, kv)
    # (c) whole-struct construction / map built by an iterator pipeline: fields of the returned aggregate
    rv = strip(sl.local(g, 0))
    for x in walk(rv):
        if x[0] == 'agg' and x[1] == LE:
            for fname, fv in x[3]:
                if fname not in table:
                    _scan_read(sl, g, 0, fv, fname, root, table, detail)
    return g, table, detail


def _scan_read(sl, f, bb, v, scope, root, table, detail, keyv=None):
    from .lib import iters
    from .lib.paths import _listed_from
    for x in walk_deep(sl, v):
        if not (x[0] == 'call' and x[1] == R_DIR):
            continue
        pv = strip(x[2][0])
        cs = comps(pv, root)
        sc = scope
        if cs is None and pv[0] == 'call' and pv[1] == 'std::fs::DirEntry::path':
            # a directory entry listed from a scope directory
            src = _listed_from(pv[2][0])
            base = comps(src, root) if src is not None else None
            if base is not None:
                kvs = [keyv] if keyv is not None else [y for y in walk(v) if y[0] == 'tuple']
                key_ok = any(y[0] == 'call' and y[1] == 'std::path::Path::file_name' and strip(y[2][0]) == pv
                             for k in kvs for y in walk(k))
                cs = base + ('<key>' if key_ok else '<not-the-directory-name>',)
                if not sc.endswith('[*]'):
                    sc = sc + '[*]'
        table[sc] = cs
        detail[sc] = (f, bb, x)


def string_parts(sl, v, depth=0):
    """the pieces a string / file-name value is concatenated from, in order (or [v] if it is not a concatenation)"""
    from .lib import iters
    v = strip(v)
    if depth > 4:
        return [v]
    if v[0] == 'concat':
        from .lib.value import concat_parts
        out = []
        for x in concat_parts(v):
            out.extend(string_parts(sl, x, depth + 1))
        return out
    if v[0] == 'call' and v[1] in iters.COLLECTING and v[2]:
        al = iters.alts(sl, v[2][0])
        if al and all(fa is None and not fl for _, fa, fl in al):
            out = []
            for e, _, _ in al:
                out.extend(string_parts(sl, e, depth + 1))
            return out
    if v[0] == 'fmt':
        return [p if isinstance(p, str) else strip(p) for p in v[1]]
    return [v]


def writer_suffix_table(prog, sl):
    """{Variant: '.suffix'} of the files written by write_to_env_dir, read off the *value* of the file name of its
    WRITE effect: a concatenation [variable name of the entry, select(behaviour of the same entry){variant => suffix}].
    Independent of how the name is assembled (clone + push, collect, a helper function, a method on the enum).
    info['name_parts']: the pieces rendered as NAME / SUFFIX / text."""
    from .lib.effects import Effects
    resolve_roles(prog, sl)
    f = prog.fn(W_DIR)
    rows = {}
    info = {'push_calls': 0, 'suffix_pushes': 0, 'name_parts': []}
    E = Effects(prog, sl)
    root = param_pred(f, 1)
    writes = [e for e in E.expand(f, 'may') if e.kind == 'WRITE' and e.path is not None]
    info['writes'] = len(writes)
    for e in writes:
        cs = comps(sl.inline_deep(e.path), root)
        if cs is None or len(cs) != 1:
            info.setdefault('odd', []).append('file path is not <dir>/<name>: ' + vstr(e.path)[:80])
            continue
        fname = cs[0]
        parts = string_parts(sl, fname) if not isinstance(fname, str) else [('const', fname)]
        rendered = []
        for x in parts:
            coll, proj = loop_element(x)
            if coll is not None and self_field(f, coll) == 'entries' and proj == ('0', '1'):
                rendered.append('NAME')
            elif x[0] == 'select' and x[2] == MB:
                c2, p2 = loop_element(x[1])
                if c2 is not None and self_field(f, c2) == 'entries' and p2 == ('0', '0'):
                    rendered.append('SUFFIX')
                    info['suffix_pushes'] += 1
                    for names, val in x[3]:
                        for n in names:
                            if val[0] == 'const' and n not in rows:
                                rows[n] = val[1]
                            else:
                                info.setdefault('odd', []).append((n, vstr(val)))
                else:
                    rendered.append('SUFFIX-OF-ANOTHER-ENTRY')
            else:
                rendered.append(vstr(x)[:50])
        if not info['name_parts']:
            info['name_parts'] = rendered
            info['push_call'] = e.call
        elif rendered != info['name_parts']:
            info.setdefault('odd', []).append('file names built differently: %s / %s' % (info['name_parts'], rendered))
    if info['suffix_pushes'] > 1 and len(writes) == info['suffix_pushes']:
        info['suffix_pushes'] = 1     # cfg-alternative write calls sharing one name construction
    return f, rows, info


def reader_suffix_table(prog, sl):
    """{'append': Variant, ..., None: Variant for 'no extension', '*': Variant|None for unknown}"""
    resolve_roles(prog, sl)
    h = prog.fn(R_DIR)
    ins = [c for c in h.calls if c.name == INSERT]
    table = {}
    info = {'insert_calls': len(ins)}
    if len(ins) != 1:
        return h, table, info
    c = ins[0]
    info['insert'] = c
    pl = op_place(c.args[1])
    # the behaviour operand is the payload of an Option local assigned in the match arms
    loc = None
    if pl is not None:
        base = pl[0]
        loc = base if len(h.whole_defs(base)) > 1 else phi_local_of(h, {'c': [base]}, through_proj=True)
    if loc is None:
        info['error'] = 'behaviour operand is not the result of a match'
        return h, table, info
    for bi, v, conds in arm_defs(h, loc, sl):
        v = strip(v)
        variant = None
        if v[0] == 'agg' and v[2] == 'Some':
            inner = strip(dict(v[3]).get('0'))
            if inner[0] == 'agg' and inner[1] == MB:
                variant = inner[2]
        elif v[0] == 'agg' and v[2] == 'None':
            variant = None
        else:
            info.setdefault('odd', []).append(vstr(v))
            continue
        eqs = [cd for cd in conds if cd.kind == 'bool' and cd.value[0] == 'call' and 'PartialEq' in cd.value[1] and cd.value[1].endswith('::eq')]
        true_eq = [cd for cd in eqs if cd.outcome is True]
        opt = [cd for cd in conds if cd.kind == 'variant' and cd.enum == 'std::option::Option']
        if true_eq:
            lit = strip(true_eq[-1].value[2][1])
            key = lit[1] if lit[0] == 'const' else vstr(lit)
            # the compared string must be the file name extension
            subj = true_eq[-1].value[2][0]
            if not any(x[0] == 'call' and x[1] == 'std::path::Path::extension' for x in walk(subj)):
                info.setdefault('odd', []).append('eq on ' + vstr(subj)[:80])
            table[key] = variant
        else:
            ext_none = [cd for cd in opt if cd.outcome == frozenset({'None'}) and
                        cd.subject is not None and strip(cd.subject)[0] == 'call' and strip(cd.subject)[1] == 'std::path::Path::extension']
            if ext_none:
                table[None] = variant
            else:
                table['*'] = variant if '*' not in table or table['*'] == variant else ('conflict', table['*'], variant)
    return h, table, info


APPLY = 'libcnb::layer_env::LayerEnv::apply'
DAPPLY = 'libcnb::layer_env::LayerEnvDelta::apply'
SCOPE = 'libcnb::layer_env::Scope'


def apply_scope_table(prog, sl):
    """{ScopeVariant: [delta field, ...]} in application order, from LayerEnv::apply"""
    resolve_roles(prog, sl)
    from .lib.guards import conditions
    f = prog.fn(APPLY)
    table = {}
    info = {}
    # arm entry blocks of the switch on discriminant(scope)
    arms = {}
    for bi, b in enumerate(f.blocks):
        t = b['t']
        if t['t'] != 'switch':
            continue
        pl = op_place(t['o'])
        if not pl:
            continue
        for d in f.whole_defs(pl[0]):
            if d[0] == 'stmt' and d[3]['r'] == 'discr' and d[3].get('enum') == SCOPE and d[3]['p'] == [2]:
                vm = {v: n for v, n in d[3]['variants']}
                for v, tb in t['targets']:
                    arms[vm.get(v)] = tb
    info['arms'] = arms
    rpo = f._rpo()
    for variant, tb in arms.items():
        region = [b for b in range(len(f.blocks)) if f.dominates(tb, b)]
        items = []
        for bi in region:
            for s in f.blocks[bi]['s']:
                if s[0] == '=' and s[2]['r'] == 'agg' and s[2].get('kind') == 'array':
                    elems = []
                    for o in s[2]['ops']:
                        v = strip(sl.operand(f, o))
                        elems.append(self_field(f, v) or vstr(v)[:60])
                    items.append((rpo.index(bi) if bi in rpo else 10 ** 6, 'array', elems))
            c = f.call_at(bi)
            if c is not None and c.name == 'std::vec::Vec::<T, A>::push':
                v = strip(sl.operand(f, c.args[1]))
                desc = vstr(v)[:80]
                if v[0] == 'call' and v[1].endswith('::get') and self_field(f, v[2][0]) is not None:
                    key = strip(v[2][1])
                    keyok = key[0] == 'field' and key[1][0] == 'variant' and key[1][2] == 'Process'
                    guard = any(cd.kind == 'variant' and cd.outcome == frozenset({'Some'}) for cd in conditions(f, bi, sl))
                    desc = '%s[%s]%s' % (self_field(f, v[2][0]), 'scope.process' if keyok else '?', '?' if guard else '!unguarded')
                items.append((rpo.index(bi) if bi in rpo else 10 ** 6, 'push', [desc]))
        items.sort(key=lambda x: x[0])
        seq = []
        for _, kind, elems in items:
            seq.extend(elems)
        table[variant] = seq
    return f, table, info


def behaviour_index_table(prog, sl):
    """{Variant: rank} from the constant table inside Ord for ModificationBehavior"""
    resolve_roles(prog, sl)
    cands = [f for f in prog.find(r'^<libcnb::layer_env::ModificationBehavior as std::cmp::Ord>::cmp::')]
    table = {}
    fn = None
    for f in cands:
        rows = arm_defs(f, 0, sl)
        t = {}
        for bi, v, conds in rows:
            var = [cd for cd in conds if cd.kind == 'variant' and cd.enum == MB]
            if var and v[0] == 'const' and isinstance(v[1], int) and len(var[-1].outcome) == 1:
                t[next(iter(var[-1].outcome))] = v[1]
        if len(t) > len(table):
            table, fn = t, f
    return fn, table
