"""Tables extracted from libcnb::layer_env, shared by C03, C04 and C10."""
from .lib.paths import strip
from .lib.tables import arm_defs, phi_local_of
from .lib.value import vstr, walk
from .lib.mir import op_place

LE = 'libcnb::layer_env::LayerEnv'
W_LAYER = 'libcnb::layer_env::LayerEnv::write_to_layer_dir'
R_LAYER = 'libcnb::layer_env::LayerEnv::read_from_layer_dir'
W_DIR = 'libcnb::layer_env::LayerEnvDelta::write_to_env_dir'
R_DIR = 'libcnb::layer_env::LayerEnvDelta::read_from_env_dir'
MB = 'libcnb::layer_env::ModificationBehavior'
JOIN = ('std::path::Path::join', 'std::path::PathBuf::join')


INSERT = 'libcnb::layer_env::LayerEnvDelta::insert'
DELIM_FOR = 'libcnb::layer_env::LayerEnvDelta::delimiter_for'
_resolved_for = None


def resolve_roles(prog, sl):
    """The public anchors are LayerEnv::{write_to_layer_dir, read_from_layer_dir, apply}; the private per-directory
    writer / reader, the per-delta apply, the delta insert and the delimiter lookup are *discovered* from them through
    the call graph (so renaming or moving those helpers does not disturb the rules):
      W_DIR     = the workspace function that write_to_layer_dir calls with a field of self as receiver
      R_DIR     = the workspace function whose result read_from_layer_dir stores into a field of the result
      DAPPLY    = the workspace function the fold / loop in apply calls with (delta, env)
      INSERT    = the workspace function R_DIR calls with four arguments on the delta it builds
      DELIM_FOR = the workspace function DAPPLY calls with (self, name) whose result is pushed"""
    global W_DIR, R_DIR, DAPPLY, INSERT, DELIM_FOR, _resolved_for
    if _resolved_for is prog:
        return
    _resolved_for = prog
    LED = 'libcnb::layer_env::LayerEnvDelta'
    w = prog.fns.get(W_LAYER)
    if w is not None:
        c0 = [c.name for c in w.calls if c.name in prog.fns and c.args and self_field(w, sl.operand(w, c.args[0])) is not None
              and prog.fns[c.name].crate == 'libcnb']
        if len(set(c0)) == 1:
            W_DIR = c0[0]
    r = prog.fns.get(R_LAYER)
    if r is not None:
        c0 = [c.name for g in [r] + prog.closures_of(r) for c in g.calls if c.name in prog.fns and (c.dty or '').startswith('std::result::Result<' + LED)]
        if len(set(c0)) == 1:
            R_DIR = c0[0]
    a = prog.fns.get(APPLY)
    if a is not None:
        c0 = [c.name for g in [a] + prog.closures_of(a) for c in g.calls if c.name in prog.fns and c.dty == 'libcnb::env::Env' and len(c.args) == 2
              and prog.fns[c.name].self_head == LED]
        if len(set(c0)) == 1:
            DAPPLY = c0[0]
    h = prog.fns.get(R_DIR)
    if h is not None:
        c0 = [c.name for c in h.calls if c.name in prog.fns and len(c.args) == 4 and prog.fns[c.name].self_head == LED]
        if len(set(c0)) == 1:
            INSERT = c0[0]
    d = prog.fns.get(DAPPLY)
    if d is not None:
        c0 = [c.name for c in d.calls if c.name in prog.fns and len(c.args) == 2 and prog.fns[c.name].self_head == LED and (c.dty or '') == 'std::ffi::OsString']
        if len(set(c0)) == 1:
            DELIM_FOR = c0[0]


def comps(v, is_root):
    """components of a path value below the root: join(join(root,'a'), x) -> ('a', x)"""
    v = strip(v)
    if is_root(v):
        return ()
    if v[0] == 'call' and v[1] in JOIN and len(v[2]) == 2:
        a = comps(v[2][0], is_root)
        if a is None:
            return None
        b = strip(v[2][1])
        return a + ((b[1] if b[0] == 'const' else b),)
    return None


def param_pred(fn, idx):
    return lambda v: v[0] == 'param' and v[1] == fn.path and v[2] == idx


def self_field(fn, v):
    v = strip(v)
    if v[0] == 'field' and v[1][0] == 'param' and v[1][1] == fn.path and v[1][2] == 0:
        return v[2]
    return None


def loop_element(v):
    """if v is (a projection of) the element of an iteration over X return (X, projection tuple)"""
    proj = []
    v = strip(v)
    while v[0] == 'field':
        proj.append(v[2])
        v = strip(v[1])
    if v[0] == 'call' and v[1] == 'std::iter::Iterator::next' and v[2]:
        return strip(v[2][0]), tuple(reversed(proj))
    return None, None


def writer_scope_table(prog, sl):
    """{scope: (components...)} from the per-scope writes in write_to_layer_dir, plus call list"""
    resolve_roles(prog, sl)
    f = prog.fn(W_LAYER)
    root = param_pred(f, 1)
    table = {}
    calls = []
    for c in f.calls:
        if c.name != W_DIR:
            continue
        delta = strip(sl.operand(f, c.args[0]))
        pathv = sl.operand(f, c.args[1])
        cs = comps(pathv, root)
        fld = self_field(f, delta)
        scope = None
        if fld is not None:
            scope = fld
        else:
            coll, proj = loop_element(delta)
            if coll is not None and self_field(f, coll) is not None:
                scope = self_field(f, coll) + '[*]'
                # the directory component must be the key of the same element
                if cs:
                    last = cs[-1]
                    if not isinstance(last, str):
                        c2, p2 = loop_element(last)
                        if c2 == coll and p2 == ('0',) and proj == ('1',):
                            cs = cs[:-1] + ('<key>',)
        calls.append((c, scope, cs, delta, pathv))
        if scope is not None:
            table[scope] = cs
    return f, table, calls


def reader_scope_table(prog, sl):
    """{scope: (components...)} from where read_from_layer_dir stores the result of each per-dir read"""
    resolve_roles(prog, sl)
    g = prog.fn(R_LAYER)
    root = param_pred(g, 0)
    table = {}
    detail = {}
    fns = [g] + prog.closures_of(g)
    # (a) field assignments  result.<scope> = read_from_env_dir(path)?
    for f in fns:
        for key, defs in f.defs().items():
            if not (isinstance(key, tuple) and key[1] == 'partial'):
                continue
            for d in defs:
                if d[0] == 'stmt':
                    pl = d[4]
                    v = sl._rvalue(f, d[3], set(), 0, None)
                elif d[0] == 'call':
                    pl = d[4]
                    v = sl._call_value(f, d[3], set(), 0)
                else:
                    continue
                if f.locals[pl[0]].get('head') != LE:
                    continue
                fld = [p for p in pl[1:] if p != '*']
                if len(fld) != 1:
                    continue
                for x in walk(v):
                    if x[0] == 'call' and x[1] == R_DIR:
                        table[fld[0][1:]] = comps(x[2][0], root)
                        detail[fld[0][1:]] = (f, d[1], x)
        # (b) result.<map>.insert(key, read_from_env_dir(path)?)
        for c in f.calls:
            if c.indirect or not c.name or not c.name.endswith('::insert') or len(c.args) < 3:
                continue
            recv = strip(sl.operand(f, c.args[0]))
            if recv[0] != 'field':
                continue
            val = sl.operand(f, c.args[2])
            for x in walk(val):
                if x[0] == 'call' and x[1] == R_DIR:
                    pv = strip(x[2][0])
                    cs = comps(pv, root)
                    if cs is None:
                        # a directory entry listed from a scope directory
                        from .lib.paths import _listed_from
                        if pv[0] == 'call' and pv[1] == 'std::fs::DirEntry::path':
                            src = _listed_from(pv[2][0])
                            base = comps(src, root) if src is not None else None
                            if base is not None:
                                kv = sl.operand(f, c.args[1])
                                key_ok = any(y[0] == 'call' and y[1] == 'std::path::Path::file_name' and strip(y[2][0]) == pv
                                             for y in walk(kv))
                                cs = base + ('<key>' if key_ok else '<not-the-directory-name>',)
                    table[recv[2] + '[*]'] = cs
                    detail[recv[2] + '[*]'] = (f, c.bb, x)
    return g, table, detail


def writer_suffix_table(prog, sl):
    """{Variant: '.suffix'} from the match feeding OsString::push in write_to_env_dir.
    info['name_parts']: the symbolic concatenation that forms the file name: base value + pushed values in
    program order, each rendered as NAME (the map key's variable name), SUFFIX (the per-behaviour constant) or text"""
    resolve_roles(prog, sl)
    f = prog.fn(W_DIR)
    rows = {}
    push = [c for c in f.calls if c.name == 'std::ffi::OsString::push']
    info = {'push_calls': len(push)}
    rpo = f._rpo()
    push.sort(key=lambda c: rpo.index(c.bb) if c.bb in rpo else 10 ** 6)
    parts = []
    suffix_pushes = 0

    def sym(v):
        v = strip(v)
        coll, proj = loop_element(v)
        if coll is not None and self_field(f, coll) == 'entries' and proj == ('0', '1'):
            return 'NAME'
        if v[0] == 'call' and v[1] in ('std::ffi::OsString::new', 'std::ffi::OsString::with_capacity'):
            return None
        return vstr(v)[:50]
    for c in push:
        loc = phi_local_of(f, c.args[1])
        if not parts:
            base = sym(sl.operand(f, c.args[0]))
            if base is not None:
                parts.append(base)
            info['receiver'] = op_place(c.args[0])
        if loc is None:
            parts.append(sym(sl.operand(f, c.args[1])))
            continue
        suffix_pushes += 1
        parts.append('SUFFIX')
        for bi, v, conds in arm_defs(f, loc, sl):
            var = [cd for cd in conds if cd.kind == 'variant' and cd.enum == MB]
            if var and v[0] == 'const' and len(var[-1].outcome) == 1:
                rows[next(iter(var[-1].outcome))] = v[1]
            else:
                info.setdefault('odd', []).append((vstr(v), [repr(x) for x in var]))
        info['push_call'] = c
    info['name_parts'] = parts
    info['suffix_pushes'] = suffix_pushes
    return f, rows, info


def reader_suffix_table(prog, sl):
    """{'append': Variant, ..., None: Variant for 'no extension', '*': Variant|None for unknown}"""
    resolve_roles(prog, sl)
    h = prog.fn(R_DIR)
    ins = [c for c in h.calls if c.name == INSERT]
    table = {}
    info = {'insert_calls': len(ins)}
    if len(ins) != 1:
        return h, table, info
    c = ins[0]
    info['insert'] = c
    pl = op_place(c.args[1])
    # the behaviour operand is the payload of an Option local assigned in the match arms
    loc = None
    if pl is not None:
        base = pl[0]
        loc = base if len(h.whole_defs(base)) > 1 else phi_local_of(h, {'c': [base]}, through_proj=True)
    if loc is None:
        info['error'] = 'behaviour operand is not the result of a match'
        return h, table, info
    for bi, v, conds in arm_defs(h, loc, sl):
        v = strip(v)
        variant = None
        if v[0] == 'agg' and v[2] == 'Some':
            inner = strip(dict(v[3]).get('0'))
            if inner[0] == 'agg' and inner[1] == MB:
                variant = inner[2]
        elif v[0] == 'agg' and v[2] == 'None':
            variant = None
        else:
            info.setdefault('odd', []).append(vstr(v))
            continue
        eqs = [cd for cd in conds if cd.kind == 'bool' and cd.value[0] == 'call' and 'PartialEq' in cd.value[1] and cd.value[1].endswith('::eq')]
        true_eq = [cd for cd in eqs if cd.outcome is True]
        opt = [cd for cd in conds if cd.kind == 'variant' and cd.enum == 'std::option::Option']
        if true_eq:
            lit = strip(true_eq[-1].value[2][1])
            key = lit[1] if lit[0] == 'const' else vstr(lit)
            # the compared string must be the file name extension
            subj = true_eq[-1].value[2][0]
            if not any(x[0] == 'call' and x[1] == 'std::path::Path::extension' for x in walk(subj)):
                info.setdefault('odd', []).append('eq on ' + vstr(subj)[:80])
            table[key] = variant
        else:
            ext_none = [cd for cd in opt if cd.outcome == frozenset({'None'}) and
                        cd.subject is not None and strip(cd.subject)[0] == 'call' and strip(cd.subject)[1] == 'std::path::Path::extension']
            if ext_none:
                table[None] = variant
            else:
                table['*'] = variant if '*' not in table or table['*'] == variant else ('conflict', table['*'], variant)
    return h, table, info


APPLY = 'libcnb::layer_env::LayerEnv::apply'
DAPPLY = 'libcnb::layer_env::LayerEnvDelta::apply'
SCOPE = 'libcnb::layer_env::Scope'


def apply_scope_table(prog, sl):
    """{ScopeVariant: [delta field, ...]} in application order, from LayerEnv::apply"""
    resolve_roles(prog, sl)
    from .lib.guards import conditions
    f = prog.fn(APPLY)
    table = {}
    info = {}
    # arm entry blocks of the switch on discriminant(scope)
    arms = {}
    for bi, b in enumerate(f.blocks):
        t = b['t']
        if t['t'] != 'switch':
            continue
        pl = op_place(t['o'])
        if not pl:
            continue
        for d in f.whole_defs(pl[0]):
            if d[0] == 'stmt' and d[3]['r'] == 'discr' and d[3].get('enum') == SCOPE and d[3]['p'] == [2]:
                vm = {v: n for v, n in d[3]['variants']}
                for v, tb in t['targets']:
                    arms[vm.get(v)] = tb
    info['arms'] = arms
    rpo = f._rpo()
    for variant, tb in arms.items():
        region = [b for b in range(len(f.blocks)) if f.dominates(tb, b)]
        items = []
        for bi in region:
            for s in f.blocks[bi]['s']:
                if s[0] == '=' and s[2]['r'] == 'agg' and s[2].get('kind') == 'array':
                    elems = []
                    for o in s[2]['ops']:
                        v = strip(sl.operand(f, o))
                        elems.append(self_field(f, v) or vstr(v)[:60])
                    items.append((rpo.index(bi) if bi in rpo else 10 ** 6, 'array', elems))
            c = f.call_at(bi)
            if c is not None and c.name == 'std::vec::Vec::<T, A>::push':
                v = strip(sl.operand(f, c.args[1]))
                desc = vstr(v)[:80]
                if v[0] == 'call' and v[1].endswith('::get') and self_field(f, v[2][0]) is not None:
                    key = strip(v[2][1])
                    keyok = key[0] == 'field' and key[1][0] == 'variant' and key[1][2] == 'Process'
                    guard = any(cd.kind == 'variant' and cd.outcome == frozenset({'Some'}) for cd in conditions(f, bi, sl))
                    desc = '%s[%s]%s' % (self_field(f, v[2][0]), 'scope.process' if keyok else '?', '?' if guard else '!unguarded')
                items.append((rpo.index(bi) if bi in rpo else 10 ** 6, 'push', [desc]))
        items.sort(key=lambda x: x[0])
        seq = []
        for _, kind, elems in items:
            seq.extend(elems)
        table[variant] = seq
    return f, table, info


def behaviour_index_table(prog, sl):
    """{Variant: rank} from the constant table inside Ord for ModificationBehavior"""
    resolve_roles(prog, sl)
    cands = [f for f in prog.find(r'^<libcnb::layer_env::ModificationBehavior as std::cmp::Ord>::cmp::')]
    table = {}
    fn = None
    for f in cands:
        rows = arm_defs(f, 0, sl)
        t = {}
        for bi, v, conds in rows:
            var = [cd for cd in conds if cd.kind == 'variant' and cd.enum == MB]
            if var and v[0] == 'const' and isinstance(v[1], int) and len(var[-1].outcome) == 1:
                t[next(iter(var[-1].outcome))] = v[1]
        if len(t) > len(table):
            table, fn = t, f
    return fn, table
