"""Reader-side extraction for C03, stated on normal forms / effects / scenario evaluation instead of one spelling.

  payload(sl, v, n)            n-fold success payload of a value (`?`, map / and_then closures applied, transpose,
                               early-return phis, private helpers inlined)
  reader_scope_table(..)       {scope: directory components} of read_from_layer_dir: where the result of each per-directory
                               read is stored — field assignments, map inserts, whole-struct construction, and maps
                               *collected* from an iterator pipeline (elements via lib/iters.alts, reduced to (key, value))
  per_file_reads(..)           file reads of the per-directory reader as interprocedural effects, each with the file-type
                               tests (guards_of: every level of the call chain, boolean helpers inlined) it runs under
  Interp / reader_behaviour(..) the behaviour <-> extension table, the variable name and the value of the reader, obtained by
                               *evaluating* the per-directory reader's MIR under one scenario per extension
                               (`Path::extension(..)` = None | Some("append") | .. | Some(unknown) | Some(non-UTF-8)):
                               switches whose operand evaluates to a constant under the scenario prune the CFG, private
                               helpers and closures are evaluated with their actual arguments, Option / Result combinators
                               (`map_or`, `zip`, `and_then`, `?`, ...) on decided values are computed.  What reaches the
                               `insert` call is the table row.  Nothing is matched against a particular `match` shape; a
                               construct the evaluator does not know leaves the row undecided (UNPROVEN), never silently OK.
  stored(sl, v)                normal form of a stored value (payload() through `?`, unwrap_or_default, map / and_then,
                               bool::then + transpose, private helpers)
  guards_of(E, e)              lib guards_of + the receiver of `cond.then(|| ..)` as a guard of what the closure does
  EffectsX                     lib Effects + local closures called by name entered like private helpers
  GrowSlicer._loop_built       a Vec filled by one push per iteration of an exhausted loop = collect(map(collection, body))
  loop_ran_out(E, cd)          `next() == None` of a loop without early success exit is not a condition
  push_only / peel_pushed      a Vec created empty whose only mutation is push(x): its elements are the pushed values
  completeness_relay(..)       completeness() through such a Vec (collect in one loop / helper, process in another): the
                               pushes that fill it must themselves run for every element of the recognised collection
  reader_scope_table (e)       the stores of per-directory reads in every frame of a READ_ENV_DIR effect (private body behind
                               the public reader, unrolled loop over a literal (directory name, &mut field) table)
  eval_value / behaviour_function / normal_name_parts / writer_suffix_table_nf
                               the writer's suffix as a function of the entry's behaviour, evaluated per variant
  mkdir_recursive              create_dir_all | DirBuilder configured with recursive(true) (EffectsX knows DirBuilder::create)
"""
import re

from . import layer_env_common as L
from .lib import iters
from .lib.effects import Effects, guards_of as _lib_guards_of
from .lib.mir import op_place, op_const, const_value
from .lib.paths import strip, _listed_from
from .lib.value import Slicer, vstr, walk, canon, subst, _phi, is_transparent, value_call_name, TRANSPARENT, UNWRAPPING, OK_PRESERVING, _TRX

OPTION = 'std::option::Option'
RESULT = 'std::result::Result'
CFLOW = 'std::ops::ControlFlow'
DEAD = ('dead',)
BOTTOM = ('bottom',)

FILE_TESTS = {'std::path::Path::is_dir': False, 'std::path::Path::is_file': True, 'std::fs::FileType::is_dir': False,
              'std::fs::FileType::is_file': True, 'std::fs::Metadata::is_dir': False, 'std::fs::Metadata::is_file': True}
FILE_READS = ('std::fs::read', 'std::fs::read_to_string', 'std::fs::File::open')


# ---------------------------------------------------------------------------------------------------------------------
# success payloads
# ---------------------------------------------------------------------------------------------------------------------
BOOL_THEN = ('core::bool::<impl bool>::then', 'core::bool::<impl bool>::then_some', 'std::bool::<impl bool>::then',
             'std::bool::<impl bool>::then_some')
DEFAULTING = ('std::option::Option::<T>::unwrap_or_default', 'std::result::Result::<T, E>::unwrap_or_default',
              'std::option::Option::<T>::unwrap_or', 'std::result::Result::<T, E>::unwrap_or',
              'std::option::Option::<T>::unwrap_or_else', 'std::result::Result::<T, E>::unwrap_or_else')


def stored(sl, v, keep=()):
    """normal form of a value that is stored somewhere: `?` / unwrap / `unwrap_or_default` / `map` / `and_then` /
    `bool::then` + `transpose` / private helpers around what is stored are made transparent (the conditions such
    combinators encode are judged separately, on the guards of the effects)"""
    n = 0
    while isinstance(v, tuple) and v and v[0] in ('unwrap', 'updated'):
        n += 1 if v[0] == 'unwrap' else 0
        v = v[1]
    if n == 0 and v[0] == 'call' and v[1] in DEFAULTING and v[2]:
        r = _defaulting(sl, v[1], v[2], 0, 0, keep)      # (payload() is the identity for n == 0)
        return v if r is DEAD else r
    r = payload(sl, v, n, 0, keep)
    return v if r is DEAD else r


class EffectsX(Effects):
    """Effects that also enters a *local closure called by name* (`let write_entry = |n, v| fs::write(..); .. write_entry(a, b)?`):
    MIR calls it as `Fn::call(&closure, (a, b))` resolved to the closure body; lib/effects reports every `Fn::call` as an
    opaque CALLBACK.  When the callee value is a closure literal of the workspace, the body is expanded like a private
    helper (parameters bound to the tuple's components, captures to the values at the creation site)."""
    FN_CALLS = ('std::ops::Fn::call', 'std::ops::FnMut::call_mut', 'std::ops::FnOnce::call_once')
    # `DirBuilder::new().recursive(r).create(p)` is `fs::create_dir_all(p)` (r = true) / `fs::create_dir(p)` (r = false): a
    # directory creation like the other two (confinement, order, result and recursion obligations apply: mkdir_recursive)
    EXTRA_VOCAB = {'std::fs::DirBuilder::create': ('MKDIR', 1)}

    def __init__(self, prog, slicer, vocab=None, **kw):
        v = dict(self.EXTRA_VOCAB)
        v.update(vocab or {})
        super().__init__(prog, slicer, vocab=v, **kw)

    OO = 'std::fs::OpenOptions::'

    def _open_config(self, fn, c):
        """{option: bool} of the OpenOptions builder `open` is called on, read off the builder value (a chain of option
        calls on OpenOptions::new() / File::options()); None when it is configured in a way that is not read off the value"""
        v = strip(self.slicer.operand(fn, c.args[0]))
        conf = {}
        for _ in range(12):
            if v[0] != 'call':
                return None
            if v[1] in (self.OO + 'new', 'std::fs::File::options') and not v[2]:
                site = v[3] if len(v) == 4 else None
                # options set by statements on the same builder are not in the value: undecided
                for k in fn.calls:
                    if k is c or k.indirect or not (k.decl or k.name or '').startswith(self.OO) or not k.args:
                        continue
                    rv = self.slicer.operand(fn, k.args[0])
                    if any(x[0] == 'call' and len(x) == 4 and x[3] == site for x in walk(rv)) and \
                            not any(x[0] == 'call' and len(x) == 4 and x[3] == (fn.path, k.bb) for x in walk(strip(self.slicer.operand(fn, c.args[0])))):
                        return None
                return conf
            if v[1].startswith(self.OO) and len(v[2]) == 2:
                a = strip(v[2][1])
                if not (a[0] == 'const' and isinstance(a[1], bool)):
                    return None
                conf.setdefault(v[1][len(self.OO):], a[1])      # outermost = last applied wins
                v = strip(v[2][0])
                continue
            if v[1].endswith('OpenOptionsExt::mode') and v[2]:
                v = strip(v[2][0])
                continue
            return None
        return None

    def _expand_call1(self, fn, c, forall, mode, mapping, chain, stack, out):
        if not c.indirect and c.is_(self.OO + 'open') and len(c.args) == 2:
            # `OpenOptions::new().write(true).create(true).truncate(true).open(p)?.write_all(d)` is `fs::write(p, d)`
            # (std's own definition of fs::write); with create_new(true) it is File::create_new.  Any other configuration
            # stays the lib's opaque OPEN effect (mutating, contents not understood)
            conf = self._open_config(fn, c)
            if conf and conf.get('write') and not conf.get('append') and not conf.get('read') and \
                    ((conf.get('create') and conf.get('truncate')) or conf.get('create_new')):
                from .lib.effects import Eff
                args = tuple(self.subst(self.slicer.operand(fn, a), mapping) for a in c.args)
                data = self._written_to(fn, c)
                a2 = (args[1],) + ((self.subst(data, mapping),) if data is not None else ())
                ef = Eff('WRITE', args[1], c, chain, mode == 'must', self.subst(forall, mapping) if forall is not None else None, a2)
                ef.mapping = mapping
                out.append(ef)
                return
        if not c.indirect and c.decl in self.FN_CALLS and len(c.args) == 2 and c.res in self.prog.fns and self.prog.fns[c.res].kind == 'Closure':
            clv = self.slicer.operand(fn, c.args[0])
            tv = self.slicer.operand(fn, c.args[1])
            g = self.prog.fns[c.res]
            if clv[0] == 'closure' and clv[1] == g.path and tv[0] == 'tuple' and len(tv[1]) == g.argc - 1:
                n0 = len(out)
                self._expand_closure(fn, c, clv, list(tv[1]), forall, mode, mapping, chain, stack, out)
                for e in out[n0:]:
                    if e.mapping is None:
                        e.mapping = {}
                return
        return super()._expand_call1(fn, c, forall, mode, mapping, chain, stack, out)


DIRBUILDER = 'std::fs::DirBuilder::'
_BUILDER_NEUTRAL = ('DirBuilderExt::mode',)


def mkdir_recursive(sl, e):
    """does the MKDIR effect e create missing parents?  True | False | None (not decided).
    `fs::create_dir_all` does, `fs::create_dir` does not; `DirBuilder::create` does iff the builder it is called on was
    configured with `recursive(true)` — read off the builder value (`new().recursive(c)` chains), or, for a builder held
    in a variable and configured by statements, from the `recursive(..)` calls on the same `DirBuilder::new()`"""
    c = e.call
    if c.is_('std::fs::create_dir_all'):
        return True
    if c.is_('std::fs::create_dir'):
        return False
    if not c.is_(DIRBUILDER + 'create') or not c.args:
        return None
    f = c.fn
    v = strip(sl.operand(f, c.args[0]))
    news = [x for x in walk(v) if x[0] == 'call' and x[1] == DIRBUILDER + 'new' and len(x) == 4]
    if len(news) != 1:
        return None
    site = news[0][3]
    # configuration seen in the value (chained calls), outermost = last applied
    cur = v
    chained = None
    for _ in range(8):
        cur = strip(cur)
        if cur[0] == 'call' and cur[1] == DIRBUILDER + 'recursive' and len(cur[2]) == 2:
            if chained is None:
                a = strip(cur[2][1])
                chained = a[1] if (a[0] == 'const' and isinstance(a[1], bool)) else 'unknown'
            cur = cur[2][0]
        elif cur[0] == 'call' and cur[1].endswith(_BUILDER_NEUTRAL) and cur[2]:
            cur = cur[2][0]
        else:
            break
    if strip(cur) != news[0] and not (strip(cur)[0] == 'call' and strip(cur)[1] == DIRBUILDER + 'new'):
        return None
    # configuration by statements on the same builder (calls not part of the receiver value)
    others = []
    for k in f.calls:
        if k is c or k.indirect or not k.is_(DIRBUILDER + 'recursive') or len(k.args) != 2:
            continue
        rv = sl.operand(f, k.args[0])
        if not any(x[0] == 'call' and len(x) == 4 and x[1] == DIRBUILDER + 'new' and x[3] == site for x in walk(rv)):
            continue
        if any(x[0] == 'call' and len(x) == 4 and x[3] == (f.path, k.bb) for x in walk(v)):
            continue      # part of the chain already read
        others.append(k)
    if not others:
        return None if chained == 'unknown' else bool(chained)
    if chained is not None or len(others) != 1:
        return None
    k = others[0]
    a = strip(sl.operand(f, k.args[1]))
    if a[0] == 'const' and isinstance(a[1], bool) and f.dominates(k.bb, c.bb) and not f.in_loop(k.bb):
        return a[1]
    return None


class closure_calls_expanded:
    """`with closure_calls_expanded(): L.writer_scope_table(..)` — the shared table extractors of layer_env_common build
    their own lib Effects; inside the block they get EffectsX (restored afterwards, nothing outside C03 sees it)"""

    def __enter__(self):
        from .lib import effects as _eff
        self._mod, self._orig = _eff, _eff.Effects
        _eff.Effects = EffectsX

    def __exit__(self, *a):
        self._mod.Effects = self._orig
        return False


def guards_of(E, e):
    """lib guards_of + the decisions encoded in `cond.then(|| ..)`: an effect inside the closure handed to `bool::then`
    runs iff the receiver is true — the same guard as `if cond { .. }`, at the level of the chain where `then` is called
    (negations folded into the outcome, private boolean helpers inlined by Cond.views)"""
    from .lib.guards import Cond
    out = list(_lib_guards_of(E, e))
    for l in e.chain:
        c = getattr(l, 'call', l)
        if c.indirect or len(c.args) != 2 or not ({c.decl, c.name, c.res} & set(BOOL_THEN)) or not (c.decl or c.name or '').endswith('::then'):
            continue
        m = getattr(l, 'mapping', None) or {}
        v, oc = E.slicer.operand(c.fn, c.args[0]), True
        while v[0] == 'un' and v[1] == 'Not':
            v, oc = v[2], (not oc)
        cd = Cond(c.fn, c.bb, c.bb, 'bool', oc, v)
        cd._slicer = E.slicer
        out.append((cd, [(E.subst(x, m), o) for x, o in cd.views()], None))
    return out


def _is_transpose(name):
    return name.endswith('::transpose') and name.startswith(('std::option::Option::<', 'std::result::Result::<'))


def payload(sl, v, n, d=0, keep=()):
    """the value obtained from v by n successful unwrapping steps (DEAD if v can only be a failure)"""
    if n <= 0 or d > 16 or not isinstance(v, tuple) or not v:
        return v
    k = v[0]
    if k == 'unwrap':
        return payload(sl, v[1], n + 1, d + 1, keep)
    if k == 'phi':
        al = [payload(sl, a, n, d + 1, keep) for a in v[1]]
        al = [a for a in al if a is not DEAD]
        return _phi(al) if al else DEAD
    if k == 'agg' and v[1] in (OPTION, RESULT):
        if v[2] in ('Ok', 'Some') and len(v[3]) == 1:
            return payload(sl, v[3][0][1], n - 1, d + 1, keep)
        if v[2] in ('Err', 'None'):
            return DEAD
    if k == 'call':
        name, args = v[1], v[2]
        if name.endswith('FromResidual::from_residual'):
            return DEAD
        if name in OK_PRESERVING and args:
            return payload(sl, args[0], n, d + 1, keep)
        if _is_transpose(name) and args and n >= 2:
            # Option<Result<T>> <-> Result<Option<T>>: two successful steps reach the same T
            return payload(sl, args[0], n, d + 1, keep)
        if name in BOOL_THEN and len(args) == 2:
            # `c.then(f)` / `c.then_some(x)`: Some(f()) / Some(x) when c holds (the test itself is a guard, judged on effects)
            r = sl.apply_closure(args[1], ()) if name.endswith('::then') else args[1]
            if r is not None:
                return payload(sl, r, n - 1, d + 1, keep)
        if name in DEFAULTING and args:
            # `x.unwrap_or_default()` / `unwrap_or(d)` / `unwrap_or_else(f)`: the payload of x, or the fallback
            return _defaulting(sl, name, args, n, d, keep)
        if len(args) == 2 and args[1][0] in ('closure', 'fnitem') and (name in sl.MAP_LIKE or name in sl.AND_THEN):
            x = payload(sl, args[0], 1, d + 1, keep)
            if x is DEAD:
                return DEAD
            r = sl.apply_closure(args[1], (x,))
            if r is not None:
                return payload(sl, r, n - 1 if name in sl.MAP_LIKE else n, d + 1, keep)
        g = sl.prog.fns.get(name)
        if g is not None and g.kind != 'Closure' and name not in keep:
            iv = sl.inline_call(v)
            if iv is not None and iv != v:
                return payload(sl, iv, n, d + 1, keep)
    out = v
    for _ in range(n):
        out = ('unwrap', out)
    return out


def _defaulting(sl, name, args, n, d, keep):
    al = [payload(sl, args[0], n + 1, d + 1, keep)]
    fb = None
    if name.endswith('::unwrap_or') and len(args) == 2:
        fb = args[1]
    elif name.endswith('::unwrap_or_else') and len(args) == 2 and name.startswith('std::option'):
        fb = sl.apply_closure(args[1], ())
    if fb is not None:
        al.append(payload(sl, fb, n, d + 1, keep))
    al = [a for a in al if a is not DEAD]
    return _phi(al) if al else DEAD


def as_pairs(sl, elem, keep=()):
    """an element of a collected iterator reduced to its (key, value) pairs, or []"""
    n, v = 0, elem
    while v[0] == 'unwrap':
        v, n = v[1], n + 1
    for extra in (0, 1, 2):
        p = payload(sl, v, n + extra, 0, keep)
        if p is DEAD:
            return []
        cand = list(p[1]) if p[0] == 'phi' else [p]
        if cand and all(x[0] == 'tuple' and len(x[1]) == 2 for x in cand):
            return [x[1] for x in cand]
    return []


# ---------------------------------------------------------------------------------------------------------------------
# R1: scope -> directory table of the layer reader
# ---------------------------------------------------------------------------------------------------------------------
def reader_scope_table(prog, sl):
    """{scope: (components...)} from where read_from_layer_dir stores the result of each per-directory read"""
    from .lib.value import subst
    L.resolve_roles(prog, sl)
    g = prog.fn(L.R_LAYER)
    root = L.param_pred(g, 0)
    table, detail = {}, {}
    del LISTED_KEYS[:]
    fns = [g] + prog.closures_of(g)
    assigned = []
    for f in fns:
        # (a) result.<scope> = <value>
        for key, defs in f.defs().items():
            if not (isinstance(key, tuple) and key[1] == 'partial'):
                continue
            for d in defs:
                if d[0] == 'stmt':
                    v = sl._rvalue(f, d[3], set(), 0, None)
                elif d[0] == 'call':
                    v = sl._call_value(f, d[3], set(), 0)
                else:
                    continue
                pl = d[4]
                if f.locals[pl[0]].get('head') != L.LE:
                    continue
                fld = [p for p in pl[1:] if p != '*']
                if len(fld) != 1:
                    continue
                assigned.append((f, d[1], v, fld[0][1:]))
                _scan(sl, f, d[1], v, fld[0][1:], root, table, detail)
        # (b) result.<map>.insert(key, <value>)
        for c in f.calls:
            if c.indirect or not c.name or not c.name.endswith('::insert') or len(c.args) < 3:
                continue
            recv = strip(sl.operand(f, c.args[0]))
            if recv[0] != 'field':
                continue
            _scan(sl, f, c.bb, sl.operand(f, c.args[2]), recv[2] + '[*]', root, table, detail, sl.operand(f, c.args[1]))
    # (e) the same two store shapes in every *frame* in which a per-directory read runs, taken from the interprocedural
    #     effects of the layer reader (READ_ENV_DIR with substituted arguments): a private non-generic body behind the
    #     public function (`read_from_layer_dir(p) = Self::read_from_layer_path(p.as_ref())`), a helper that fills the
    #     result, and a loop over a literal table of (directory name, &mut field) rows — unrolled by Effects, so that
    #     `*target = read(dir.join(name))?` is one assignment per row with `target` / `name` replaced by the row's values
    Ed = EffectsX(prog, sl, vocab={L.R_DIR: ('READ_ENV_DIR', 0)})
    le_fields = {fd.get('name') for vr in (prog.adt(L.LE) or {}).get('variants', []) for fd in vr.get('fields', [])} \
        if isinstance(prog.adt(L.LE), dict) else set()
    frames, fseen = [], set()
    for e in Ed.expand(g, 'may'):
        if e.kind != 'READ_ENV_DIR' or e.call is None:
            continue
        for f, m in [(l.call.fn, getattr(l, 'mapping', None) or {}) for l in e.chain] + [(e.call.fn, e.mapping or {})]:
            if f in fns and not m.get('__repl__') and not any(isinstance(k_, tuple) and k_[0] == f.path for k_ in m):
                continue          # already scanned above, in its own terms (nothing bound: no row / argument to substitute)
            k = (f.path, repr(sorted((str(a), canon(b) if isinstance(b, tuple) else repr(b)) for a, b in m.items())))
            if k not in fseen:
                fseen.add(k)
                frames.append((f, m))
    for f, m in frames:
        sub = lambda v: Ed.subst(v, m)
        for key, defs in f.defs().items():
            if not (isinstance(key, tuple) and key[1] == 'partial'):
                continue
            for d in defs:
                if d[0] == 'stmt':
                    v = sl._rvalue(f, d[3], set(), 0, None)
                elif d[0] == 'call':
                    v = sl._call_value(f, d[3], set(), 0)
                else:
                    continue
                pl = d[4]
                fld = [p for p in pl[1:] if p != '*']
                fname = None
                if len(fld) == 1 and f.locals[pl[0]].get('head') == L.LE:
                    fname = fld[0][1:]
                elif not fld and '*' in pl[1:]:
                    # `*target = ..`: the target is what the reference stands for in this frame (a field of the result)
                    # (the reference itself: its whole-local definitions, not what was stored through it)
                    tvs = []
                    for wd_ in f.whole_defs(pl[0]):
                        if wd_[0] == 'stmt':
                            tvs.append(strip(sub(sl._rvalue(f, wd_[3], set(), 0, None))))
                        else:
                            tvs.append(('unknown', 'reference produced by a call'))
                    if len(tvs) == 1 and tvs[0][0] == 'field' and isinstance(tvs[0][2], str) and tvs[0][2] in le_fields \
                            and not str(tvs[0][2]).isdigit():
                        fname = tvs[0][2]
                if fname is None:
                    continue
                if f in fns and fld:
                    continue
                assigned.append((f, d[1], sub(v), fname))
                _scan(sl, f, d[1], sub(v), fname, root, table, detail)
        if f in fns:
            continue
        for c in f.calls:
            if c.indirect or not c.name or not c.name.endswith('::insert') or len(c.args) < 3:
                continue
            recv = strip(sub(sl.operand(f, c.args[0])))
            if recv[0] != 'field':
                continue
            _scan(sl, f, c.bb, sub(sl.operand(f, c.args[2])), recv[2] + '[*]', root, table, detail, sub(sl.operand(f, c.args[1])))
    # (c) whole-struct construction
    rv = strip(sl.local(g, 0))
    for x in walk(rv):
        if x[0] == 'agg' and x[1] == L.LE:
            for fname, fv in x[3]:
                if fname not in table and fname + '[*]' not in table:
                    assigned.append((g, 0, fv, fname))
                    _scan(sl, g, 0, fv, fname, root, table, detail)
    # (d) result.<map> = helper(dir)?  where the private helper fills a map of its own by inserts and returns it:
    #     the helper's inserts, with its parameters replaced by the arguments of that call, are inserts into the field
    for f, bb, v, fname in assigned:
        for x in L.walk_deep(sl, v):
            k = prog.fns.get(x[1]) if x[0] == 'call' and len(x) == 4 else None
            if k is None or k.kind == 'Closure' or k.path in (L.R_DIR, L.R_LAYER) or k.crate != g.crate:
                continue
            ret = strip(payload(sl, sl.local(k, 0), 1, 0, (L.R_DIR,)))
            m = {(k.path, i): a for i, a in enumerate(x[2]) if i < k.argc}
            for kf in [k] + prog.closures_of(k):
                for c in kf.calls:
                    if c.indirect or not c.name or not c.name.endswith('::insert') or len(c.args) < 3:
                        continue
                    if strip(sl.operand(kf, c.args[0])) != ret:
                        continue
                    _scan(sl, f, bb, subst(sl.operand(kf, c.args[2]), m, sl), fname + '[*]', root, table, detail,
                          subst(sl.operand(kf, c.args[1]), m, sl))
    return g, table, detail


def _scan(sl, f, bb, v, scope, root, table, detail, keyv=None):
    # the value itself (possibly through private helpers, `?`, `map` / `and_then` closures, `is_dir().then(|| read)` +
    # `transpose`, `unwrap_or_default`: H.stored) is the result of a per-directory read
    seen = []
    srcs = [v]
    for y in walk(v):
        # (also below a phi / an aggregate: `match helper(p)? { Some(d) => d, None => Default::default() }`)
        if y[0] == 'unwrap' or (y[0] == 'call' and y[1] in DEFAULTING):
            srcs.append(stored(sl, y, (L.R_DIR,)))
    for src in srcs:
        for x in L.walk_deep(sl, src):
            if x[0] == 'call' and x[1] == L.R_DIR and not any(x is o or x == o for o in seen):
                seen.append(x)
                kvs = [keyv] if keyv is not None else [y for y in walk(v) if y[0] == 'tuple']
                _record(f, bb, x, scope, kvs, root, table, detail)
    # ... or a map collected from an iterator pipeline: every element is (key, result of a per-directory read)
    for x in L.walk_deep(sl, v):
        if x[0] == 'call' and x[1] in iters.COLLECTING and x[2]:
            for elem, fa, _ in iters.alts(sl, x):
                for kv, val in as_pairs(sl, elem, (L.R_DIR,)):
                    for y in L.walk_deep(sl, val):
                        if y[0] == 'call' and y[1] == L.R_DIR:
                            _record(f, bb, y, scope, [kv], root, table, detail)


LISTED_KEYS = []   # (scope, fn, bb, path value of the listed directory entry, [key values], site of the per-directory read) of the last reader_scope_table()


def _record(f, bb, x, scope, kvs, root, table, detail):
    pv = strip(x[2][0])
    cs = L.comps(pv, root)
    sc = scope
    if cs is None and pv[0] == 'call' and pv[1] == 'std::fs::DirEntry::path':
        # a directory entry listed from a scope directory, stored under that entry's own name
        src = _listed_from(pv[2][0])
        base = L.comps(src, root) if src is not None else None
        if base is not None:
            key_ok = any(y[0] == 'call' and y[1] == 'std::path::Path::file_name' and strip(y[2][0]) == pv
                         for k in kvs for y in walk(k))
            cs = base + ('<key>' if key_ok else '<not-the-directory-name>',)
            if not sc.endswith('[*]'):
                sc = sc + '[*]'
            LISTED_KEYS.append((sc, f, bb, pv, list(kvs), x[3] if len(x) == 4 else None))
            if not [k for k in kvs if k is not None] and sc in table:
                # the same read seen through the helper that stores it (keys are found at the helper's inserts)
                detail.setdefault(sc, (f, bb, x))
                return
    table[sc] = cs
    detail[sc] = (f, bb, x)


# ---------------------------------------------------------------------------------------------------------------------
# R1: per-file reads of the per-directory reader and their guards
# ---------------------------------------------------------------------------------------------------------------------
def per_file_reads(prog, sl, E=None):
    """[(effect, [names of the file-type tests the read is guarded by])] for every whole-file read that the per-directory
    reader can perform (directly, in a private helper, in a closure), guards collected along the whole call chain"""
    L.resolve_roles(prog, sl)
    h = prog.fn(L.R_DIR)
    E = E or Effects(prog, sl)
    out = []
    for e in E.expand(h, 'may'):
        if e.kind != 'READ' or e.call is None or not e.call.is_(*FILE_READS):
            continue
        tests = []
        for cd, views, _ in guards_of(E, e):
            if cd.kind != 'bool':
                continue
            for val, oc in views:
                val = strip(val)
                if val[0] == 'call' and FILE_TESTS.get(val[1]) == oc:
                    tests.append(val[1])
                    break
        out.append((e, tests))
    return h, out


# ---------------------------------------------------------------------------------------------------------------------
# scenario evaluation of MIR
# ---------------------------------------------------------------------------------------------------------------------
_METH = re.compile(r'^std::(option::Option|result::Result)::<.*>::([a-z_]+)$')


def _agg(adt, variant, *fields):
    return ('agg', adt, variant, tuple((str(i), x) for i, x in enumerate(fields)))


def some(x):
    return _agg(OPTION, 'Some', x)


NONE = _agg(OPTION, 'None')


def _is(v, *variants):
    return v[0] == 'agg' and v[1] in (OPTION, RESULT) and v[2] in variants


def _p0(v):
    return v[3][0][1]


def _decided(v):
    return v[0] in ('agg', 'const', 'tuple', 'array')


def _concrete(v):
    if v[0] == 'const':
        return True
    if v[0] == 'agg':
        return v[2] is not None and all(_concrete(x) for _, x in v[3])
    if v[0] in ('tuple', 'array'):
        return all(_concrete(x) for x in v[1])
    return False


def _join(vals):
    vals = [v for v in vals if v is not BOTTOM]
    return _phi(vals) if vals else BOTTOM


def _name_transparent(name):
    if name in TRANSPARENT:
        return True
    return any(r.match(name) for r in _TRX) and 'From<' not in name


PUSH = 'std::vec::Vec::<T, A>::push'
_FRESH_VEC = ('::new', '::with_capacity', '::default')


def push_only(sl, fn, local):
    """[push Calls] when `local` is a Vec that is created empty (one definition) and whose only mutation is
    `Vec::push(&mut local, x)` (every `&mut` borrow of it is used once, as the receiver of a push); otherwise None"""
    if not (fn.local_ty(local) or '').startswith('std::vec::Vec<'):
        return None
    defs = fn.whole_defs(local)
    if len(defs) != 1 or defs[0][0] != 'call' or fn.partial_defs(local):
        return None
    c0 = defs[0][3]
    n0 = c0.decl or c0.name or ''
    if c0.indirect or (c0.args and not n0.endswith('::with_capacity')) or not (n0.startswith('std::vec::Vec') and n0.endswith(_FRESH_VEC)):
        return None
    roots = GrowSlicer._mut_roots(sl, fn)
    reach = fn.reachable(0)
    pushes, chain_locals = [], set()
    for c in fn.calls:
        if c.indirect or c.bb not in reach or not c.args:
            continue
        pl = op_place(c.args[0])
        if pl is None or len(pl) != 1 or pl[0] not in roots or roots[pl[0]][0] != local:
            continue
        if not (len(c.args) == 2 and PUSH in (c.decl, c.name, c.res)):
            return None
        pushes.append(c)
        chain_locals |= set(roots[pl[0]][1])
    for r in chain_locals:
        if len([u for u in fn.uses_of(r) if u[0] in reach and u[1] != 'drop']) != 1:
            return None
    for bi, kind, si, how, pl in fn.uses_of(local):
        if bi not in reach or kind == 'drop':
            continue
        if how in ('refmut', 'rawptr'):
            dest = fn.blocks[bi]['s'][si][1] if kind == 'stmt' else None
            if not (dest and len(dest) == 1 and dest[0] in chain_locals):
                return None
    return pushes


def peel_pushed(prog, v):
    """the ('pushed', element, key) value under the `mutated` marker of the iterator local that `next` advances"""
    for _ in range(3):
        if v[0] == 'mutated' and len(v) == 3 and isinstance(v[2], tuple) and len(v[2]) == 2:
            f = prog.fns.get(v[2][0])
            if f is None or (f.local_ty(v[2][1]) or '').startswith('std::vec::Vec<'):
                return None       # the vector itself is mutated in place by something that is not a push
            v = v[1]
        else:
            break
    return v if v[0] == 'pushed' else None


class Act:
    """one activation: a function body evaluated with given argument values"""

    def __init__(self, I, fn, args):
        self.I = I
        self.fn = fn
        self.args = tuple(args)
        self.feasible = set(fn.reachable(0))
        self.memo = {}
        self.busy = set()
        self.children = {}
        self.mutref = set()
        for b in fn.blocks:
            for st in b['s']:
                if st[0] == '=' and st[2]['r'] == 'ref' and st[2].get('mut') and '*' not in st[2]['p'][1:]:
                    self.mutref.add(st[2]['p'][0])     # the local's own storage is borrowed mutably (not a reborrow)
        self._partial = {k[0] for k in fn.defs() if isinstance(k, tuple) and k[1] == 'partial'}
        self.solved = False

    # -- feasibility fixpoint: blocks reachable when switches with a known operand take only their edge ----------
    def solve(self):
        if self.solved:
            return self
        self.solved = True
        for _ in range(8):
            self.memo = {}
            new = self._explore()
            if new == self.feasible:
                break
            self.feasible = new
        return self

    def _explore(self):
        fn = self.fn
        seen = set()
        work = [0]
        while work:
            b = work.pop()
            if b in seen:
                continue
            seen.add(b)
            t = fn.blocks[b]['t']
            if t['t'] == 'switch' and op_const(t['o']) is None:
                v = self.operand(t['o'])
                if v[0] == 'const' and isinstance(v[1], (bool, int)):
                    iv = int(v[1])
                    hit = [tb for x, tb in t['targets'] if x == iv]
                    work.append(hit[0] if hit else t['else'])
                    continue
            work.extend(fn.succs(b))
        return seen

    # -- values -------------------------------------------------------------------------------------------------
    def operand(self, op):
        k = op_const(op)
        if k is not None:
            return self.I.sl._const(k)
        return self.place(op_place(op))

    def place(self, pl):
        v = self.local(pl[0])
        for p in pl[1:]:
            v = self.project(v, p)
        return v

    def project(self, v, p):
        sl = self.I.sl
        if p == '*' or v is BOTTOM:
            return v
        if v[0] == 'phi':
            return _join([self.project(x, p) for x in v[1]])
        if p.startswith('.'):
            r = sl._field(v, p[1:])
            if r[0] == 'field' and r[2] in ('0', '1') and r[1][0] == 'unwrap' and r[1][1][0] == 'call' and len(r[1][1][2]) == 2 \
                    and _METH.match(r[1][1][1]) and r[1][1][1].endswith('::zip'):
                # payload of a.zip(b): (payload of a, payload of b)
                side = r[1][1][2][int(r[2])]
                return _p0(side) if _is(side, 'Some') else sl.mk_unwrap(side)
            return r
        if p.startswith('@'):
            if v[0] == 'agg' and v[2] is not None:
                return v if v[2] == p[1:] else BOTTOM
            return ('variant', v, p[1:])
        if p.startswith('['):
            # `table[i]` with a decided index into a literal table
            m = re.match(r'^\[_(\d+)\]$', p)
            if m and v[0] == 'array':
                iv = self.local(int(m.group(1)))
                if iv is not BOTTOM and iv[0] == 'const' and isinstance(iv[1], int) and not isinstance(iv[1], bool):
                    return v[1][iv[1]] if 0 <= iv[1] < len(v[1]) else BOTTOM
            return ('index', v, p)
        return ('field', v, p)

    def local(self, l):
        if l in self.memo:
            return self.memo[l]
        if l in self.busy:
            return ('unknown', 'cycle')
        self.busy.add(l)
        try:
            fn = self.fn
            vals = []
            if 1 <= l <= fn.argc and l - 1 < len(self.args):
                vals.append(self.args[l - 1])
            for d in fn.whole_defs(l):
                if d[1] in self.feasible:
                    vals.append(self._def_value(d))
            if not vals:
                comps = [(d[4][-1].lstrip('.'), self.rvalue(d[3])) for d in fn.partial_defs(l)
                         if d[0] == 'stmt' and d[1] in self.feasible and len(d[4]) == 2 and d[4][1].startswith('.')]
                v = ('agg', None, None, tuple(comps)) if comps else BOTTOM
            else:
                v = _join(vals)
                if l in self.mutref or l in self._partial:
                    fresh = v[0] == 'call' and v[1].endswith(('::new', '::with_capacity', '::default')) and not v[2][1:]
                    rd = self._read_into(l) if (l in self.mutref and fresh) else None
                    pc = push_only(self.I.sl, fn, l) if (l in self.mutref and fresh and rd is None) else None
                    if rd is not None:
                        v = rd
                    elif pc:
                        # a Vec created empty and mutated by nothing but `push(x)`: each of its elements is one of the
                        # pushed values (which one / how many is not stated: consumers see `next()` = Some(x) | None)
                        el = _join([self.operand(c.args[1]) for c in pc if c.bb in self.feasible])
                        key = (fn.path, l)
                        self.I.pushed[key] = (self, [c for c in pc if c.bb in self.feasible])
                        v = ('pushed', el, key) if el is not BOTTOM else ('mutated', v, key)
                    elif _decided(v):
                        # the evaluator does not follow mutation through `&mut` / field assignment: never decide on such a value
                        v = ('unknown', 'mutated in place', (fn.path, l))
                    elif v is not BOTTOM:
                        # ... and never claim that such a value is still what it was initialised with
                        v = ('mutated', v, (fn.path, l))
        finally:
            self.busy.discard(l)
        if not _has_cycle(v):
            self.memo[l] = v
        return v

    READERS = {'std::io::Read::read_to_string': 'std::fs::read_to_string', 'std::io::Read::read_to_end': 'std::fs::read'}

    def _read_into(self, l):
        """`File::open(p)?.read_to_end(&mut buf)` (the only mutable use of buf): buf holds what `fs::read(p)?` returns"""
        fn = self.fn
        refs = {}
        nborrow = 0
        for b in fn.blocks:
            for st in b['s']:
                if st[0] == '=' and st[2]['r'] == 'ref' and st[2].get('mut') and st[2]['p'] == [l]:
                    nborrow += 1
                    if len(st[1]) == 1:
                        refs[st[1][0]] = l
        for _ in range(3):      # reborrows `&mut *r` and moves of the reference
            for b in fn.blocks:
                for st in b['s']:
                    if st[0] != '=' or len(st[1]) != 1 or st[1][0] in refs:
                        continue
                    rv = st[2]
                    src = rv['p'] if rv['r'] == 'ref' else (op_place(rv['o']) if rv['r'] == 'use' else None)
                    if src and src[0] in refs and all(x == '*' for x in src[1:]):
                        refs[st[1][0]] = l
        hits = []
        for c in fn.calls:
            if not c.indirect and c.decl in self.READERS and len(c.args) == 2:
                pl = op_place(c.args[1])
                if pl and len(pl) == 1 and pl[0] in refs:
                    hits.append(c)
        if len(hits) != 1 or nborrow != 1 or hits[0].bb not in self.feasible:
            return None
        c = hits[0]
        recv = self.operand(c.args[0])
        for x in walk(recv):
            if x[0] == 'call' and x[1] == 'std::fs::File::open' and x[2]:
                return ('unwrap', ('call', self.READERS[c.decl], (x[2][0],), (fn.path, c.bb)))
        return None

    def _def_value(self, d):
        if d[0] == 'stmt':
            return self.rvalue(d[3])
        if d[0] == 'call':
            return self.call_value(d[3])
        return ('unknown', d[0])

    def rvalue(self, rv):
        r = rv['r']
        if r == 'use':
            return self.operand(rv['o'])
        if r in ('ref', 'cfd', 'rawptr'):
            return self.place(rv['p'])
        if r == 'cast':
            inner = self.operand(rv['o'])
            if 'Unsize' in rv['kind'] or 'Pointer' in rv['kind'] or 'Transmute' in rv['kind']:
                return inner
            return ('cast', inner, rv['ty'])
        if r == 'discr':
            return self._discr(self.place(rv['p']), rv)
        if r == 'bin':
            a, b = self.operand(rv['a']), self.operand(rv['b'])
            if a[0] == 'const' and b[0] == 'const' and type(a[1]) is type(b[1]):
                f = {'Eq': lambda x, y: x == y, 'Ne': lambda x, y: x != y, 'Lt': lambda x, y: x < y,
                     'Le': lambda x, y: x <= y, 'Gt': lambda x, y: x > y, 'Ge': lambda x, y: x >= y}.get(rv['op'])
                if f is not None:
                    return ('const', f(a[1], b[1]))
            return ('bin', rv['op'], a, b)
        if r == 'un':
            o = self.operand(rv['o'])
            if rv['op'] == 'Not' and o[0] == 'const' and isinstance(o[1], bool):
                return ('const', not o[1])
            return ('un', rv['op'], o)
        if r == 'agg':
            ops = tuple(self.operand(o) for o in rv['ops'])
            k = rv['kind']
            if k == 'adt':
                return ('agg', rv['adt'], rv['variant'], tuple(zip(rv['fields'], ops)))
            if k == 'tuple':
                return ('tuple', ops)
            if k == 'array':
                return ('array', ops)
            if k == 'closure':
                return ('closure', rv['def'], ops)
            return ('agg', k, None, tuple((str(i), o) for i, o in enumerate(ops)))
        return ('unknown', rv.get('pp', r))

    def _discr(self, pv, rv):
        if pv is BOTTOM:
            return BOTTOM
        if pv[0] == 'phi':
            return _join([self._discr(x, rv) for x in pv[1]])
        if pv[0] == 'agg' and pv[2] is not None and 'variants' in rv:
            for val, name in rv['variants']:
                if name == pv[2]:
                    return ('const', val)
        return ('discr', pv)

    def call_value(self, c):
        I = self.I
        site = (self.fn.path, c.bb)
        self.children[c.bb] = []
        if c.indirect:
            return ('unknown', 'indirect call', site)
        args = [self.operand(a) for a in c.args]
        if any(a is BOTTOM for a in args):
            return BOTTOM
        I.ctx.append(self.children[c.bb])
        try:
            return I.apply(c.names(), value_call_name(c), args, site, c)
        finally:
            I.ctx.pop()


def _elements(v):
    """the elements, in order, of a literal array / an order-preserving iterator over one; None if not decided"""
    for _ in range(8):
        if v[0] == 'mutated':
            v = v[1]
        elif v[0] == 'call' and len(v[2]) == 1 and (v[1] in (iters.IT + 'copied', iters.IT + 'cloned', iters.IT + 'by_ref', iters.IT + 'fuse')
                                                   or (iters._is_source(v[1]) and v[1].endswith(iters.SAME_ELEMS))):
            v = v[2][0]
        else:
            break
    return list(v[1]) if v[0] == 'array' else None


def show(v):
    """vstr for evaluator values (renders the `mutated` marker)"""
    def conv(x):
        if not isinstance(x, tuple) or not x:
            return x
        if x[0] == 'mutated':
            return ('call', 'mutated-in-place', (conv(x[1]),), None)
        if x[0] == 'pushed':
            return ('call', 'vec-of-pushed', (conv(x[1]),), None)
        return tuple(conv(y) if isinstance(y, tuple) else y for y in x)
    return vstr(conv(v))


def _has_cycle(v):
    if not isinstance(v, tuple):
        return False
    if v and v[0] == 'unknown' and len(v) > 1 and v[1] == 'cycle':
        return True
    return any(_has_cycle(x) for x in v if isinstance(x, tuple))


class Interp:
    """evaluates function bodies under a scenario: `oracle(names, args, site)` fixes the result of selected std calls,
    `watch` names workspace functions that are not entered (their call sites are the observed events)"""

    def __init__(self, prog, sl, oracle=None, watch=()):
        self.prog, self.sl, self.oracle, self.watch = prog, sl, oracle, set(watch)
        self.acts = {}
        self.stack = []
        self.ctx = []
        self.pushed = {}     # (fn path, local) of a push-only Vec -> (producing activation, [push Calls])

    def activation(self, fn, args):
        key = (fn.path, canon(tuple(args)))
        a = self.acts.get(key)
        if a is None:
            a = self.acts[key] = Act(self, fn, args)
        if self.ctx and a not in self.ctx[-1]:
            self.ctx[-1].append(a)
        if not a.solved:
            self.stack.append(fn.path)
            try:
                a.solve()
            finally:
                self.stack.pop()
        return a

    def enter(self, g, args, site):
        """value returned by workspace function / closure body g for these arguments, or None if it is not entered"""
        if g.path in self.stack or len(self.stack) > 8 or g.path in self.watch:
            return None
        a = self.activation(g, args)
        self.stack.append(g.path)
        try:
            return a.local(0)
        finally:
            self.stack.pop()

    def invoke(self, fv, args, site):
        """call a closure value / fn item with argument values"""
        if fv[0] == 'closure':
            g = self.prog.fns.get(fv[1])
            r = self.enter(g, (fv,) + tuple(args), site) if g is not None else None
            return r if r is not None else ('unknown', 'closure not evaluated', site)
        if fv[0] == 'fnitem':
            g = self.prog.fns.get(fv[1])
            if g is not None:
                r = self.enter(g, tuple(args), site)
                if r is not None:
                    return r
            return self.apply({fv[1]}, fv[1], list(args), site, None)
        return ('unknown', 'callee', site)

    def apply(self, names, vname, args, site, call):
        if self.oracle is not None:
            r = self.oracle(names, args, site)
            if r is not None:
                return r
        if args and (is_transparent(call) if call is not None else any(_name_transparent(n) for n in names)):
            return args[0]
        if args and args[0][0] == 'phi' and self._modelled(names):
            # combinators / comparisons distribute over the alternatives of their receiver
            return _join([self.apply(names, vname, [x] + list(args[1:]), site, call) for x in args[0][1]])
        r = self._model(names, args, site, call)
        if r is not None:
            return r
        if not (names & self.watch):
            gs = self.prog.callee_fns(call) if call is not None else []
            if len(gs) == 1 and gs[0].kind != 'Closure':
                r = self.enter(gs[0], args, site)
                if r is not None:
                    return r
        # not evaluated: closures handed to it may run with arguments we do not know
        for a in args:
            if a[0] == 'closure' and a[1] in self.prog.fns and self.ctx:
                g = self.prog.fns[a[1]]
                if g.path not in self.stack and len(self.stack) <= 8:
                    self.activation(g, (a,) + tuple(('param', g.path, i, None) for i in range(1, g.argc)))
        return ('call', vname, tuple(args), site)

    def _modelled(self, names):
        return any(_METH.match(n) or n in ('std::ops::Try::branch', 'std::ffi::OsStr::to_str') or
                   ('PartialEq' in n and n.endswith(('::eq', '::ne'))) for n in names) or bool(names & UNWRAPPING)

    def _model(self, names, args, site, call):
        """std functions computed on decided values; None when not applicable"""
        inv = lambda f, *xs: self.invoke(f, xs, site)
        a0 = args[0] if args else None
        if names & UNWRAPPING and a0 is not None:
            if _is(a0, 'Some', 'Ok'):
                return _p0(a0)
            if _is(a0, 'None', 'Err'):
                return BOTTOM
            return self.sl.mk_unwrap(a0)
        if 'std::ops::Try::branch' in names and a0 is not None:
            if _is(a0, 'Some', 'Ok'):
                return _agg(CFLOW, 'Continue', _p0(a0))
            if _is(a0, 'None', 'Err'):
                return _agg(CFLOW, 'Break', a0)
            return None
        if any(n.endswith('FromResidual::from_residual') for n in names) and a0 is not None:
            dty = (call.dty if call is not None else '') or ''
            if dty.startswith(OPTION):
                return NONE
            if dty.startswith(RESULT):
                e = _p0(a0) if _is(a0, 'Err') else ('unwrap_err', a0[1] if a0[0] == 'residual' else a0)
                return _agg(RESULT, 'Err', e)
            return None
        if 'std::ffi::OsStr::to_str' in names and a0 is not None and a0[0] == 'const':
            if isinstance(a0[1], str):
                return some(a0)
            if isinstance(a0[1], (bytes, bytearray)):
                try:
                    return some(('const', bytes(a0[1]).decode('utf-8')))
                except UnicodeDecodeError:
                    return NONE
        if 'std::ffi::OsStr::to_string_lossy' in names and a0 is not None and a0[0] == 'const':
            if isinstance(a0[1], str):
                return a0
            if isinstance(a0[1], (bytes, bytearray)):
                return ('const', bytes(a0[1]).decode('utf-8', 'replace'))
        if len(args) == 2 and any('PartialEq' in n and n.endswith(('::eq', '::ne')) for n in names):
            a, b = args
            if _concrete(a) and _concrete(b):
                same = canon(a) == canon(b)
                return ('const', same if any(n.endswith('::eq') for n in names) else not same)
            return None
        if len(args) == 2 and names & set(BOOL_THEN):
            # `c.then_some(x)` / `c.then(f)` on a decided c
            if a0[0] == 'const' and isinstance(a0[1], bool):
                if not a0[1]:
                    return NONE
                return some(args[1]) if any(n.endswith('::then_some') for n in names) else some(inv(args[1]))
            return None
        if len(args) == 2 and any(n.endswith('::eq_ignore_ascii_case') for n in names):
            a, b = args
            if a[0] == 'const' and b[0] == 'const' and isinstance(a[1], str) and isinstance(b[1], str):
                return ('const', a[1].lower() == b[1].lower())
            return None
        it = [n[len(iters.IT):] for n in names if n.startswith(iters.IT)]
        if it and it[0] == 'next' and a0 is not None and len(args) == 1:
            pv = peel_pushed(self.prog, a0)
            if pv is not None:
                return _join([some(pv[1]), NONE])
            return None
        if it and a0 is not None and len(args) == 2 and it[0] in ('find', 'find_map', 'any', 'all', 'position'):
            elems = _elements(a0)
            if elems is None:
                return None
            for i, el in enumerate(elems):
                t = inv(args[1], el)
                if it[0] == 'find_map':
                    if _is(t, 'Some'):
                        return t
                    if _is(t, 'None'):
                        continue
                    return None
                if not (t[0] == 'const' and isinstance(t[1], bool)):
                    return None
                if t[1] and it[0] in ('find', 'any', 'position'):
                    return some(el) if it[0] == 'find' else (('const', True) if it[0] == 'any' else some(('const', i)))
                if not t[1] and it[0] == 'all':
                    return ('const', False)
            return NONE if it[0] in ('find', 'find_map', 'position') else ('const', it[0] == 'all')
        if len(args) == 2 and any(n.endswith('::contains') and ('slice' in n or 'Vec' in n or 'array' in n) for n in names):
            elems = _elements(a0)
            if elems is not None and _concrete(args[1]) and all(_concrete(e) for e in elems):
                return ('const', any(canon(e) == canon(args[1]) for e in elems))
            return None
        m = None
        for n in names:
            m = m or _METH.match(n)
        if m is None or a0 is None:
            return None
        res = m.group(1) == 'result::Result'
        meth = m.group(2)
        ok, bad = ('Ok', 'Err') if res else ('Some', 'None')
        if meth == 'zip' and len(args) == 2:
            if _is(a0, 'None') or _is(args[1], 'None'):
                return NONE
            if _is(a0, 'Some') and _is(args[1], 'Some'):
                return some(('tuple', (_p0(a0), _p0(args[1]))))
            return None
        if not _is(a0, ok, bad):
            return None
        good = a0[2] == ok
        x = _p0(a0) if good else None
        err = _p0(a0) if (res and not good) else None
        rest = args[1:]
        if meth == 'map' and len(rest) == 1:
            return _agg(a0[1], ok, inv(rest[0], x)) if good else a0
        if meth == 'and_then' and len(rest) == 1:
            return inv(rest[0], x) if good else a0
        if meth == 'map_or' and len(rest) == 2:
            return inv(rest[1], x) if good else rest[0]
        if meth == 'map_or_else' and len(rest) == 2:
            return inv(rest[1], x) if good else (inv(rest[0], err) if res else inv(rest[0]))
        if meth == 'unwrap_or' and len(rest) == 1:
            return x if good else rest[0]
        if meth == 'unwrap_or_else' and len(rest) == 1:
            return x if good else (inv(rest[0], err) if res else inv(rest[0]))
        if meth == 'or' and len(rest) == 1:
            return a0 if good else rest[0]
        if meth == 'or_else' and len(rest) == 1:
            return a0 if good else (inv(rest[0], err) if res else inv(rest[0]))
        if meth == 'and' and len(rest) == 1:
            return rest[0] if good else a0
        if meth == 'filter' and len(rest) == 1 and not res:
            if not good:
                return a0
            t = inv(rest[0], x)
            if t[0] == 'const' and isinstance(t[1], bool):
                return a0 if t[1] else NONE
            return ('unknown', 'filter predicate', site)
        if meth in ('is_some', 'is_ok') and not rest:
            return ('const', good)
        if meth in ('is_none', 'is_err') and not rest:
            return ('const', not good)
        if meth in ('is_some_and', 'is_ok_and') and len(rest) == 1:
            return inv(rest[0], x) if good else ('const', False)
        if meth == 'is_none_or' and len(rest) == 1:
            return inv(rest[0], x) if good else ('const', True)
        if meth == 'ok_or' and len(rest) == 1 and not res:
            return _agg(RESULT, 'Ok', x) if good else _agg(RESULT, 'Err', rest[0])
        if meth == 'ok_or_else' and len(rest) == 1 and not res:
            return _agg(RESULT, 'Ok', x) if good else _agg(RESULT, 'Err', inv(rest[0]))
        if meth == 'ok' and res and not rest:
            return some(x) if good else NONE
        if meth == 'err' and res and not rest:
            return NONE if good else some(err)
        if meth in ('map_err', 'inspect_err', 'inspect') and len(rest) == 1 and (good or meth == 'inspect'):
            return a0
        if meth == 'flatten' and not rest and not res:
            return x if good else a0
        if meth == 'transpose' and not rest:
            if not res:       # Option<Result<T, E>> -> Result<Option<T>, E>
                if not good:
                    return _agg(RESULT, 'Ok', NONE)
                if _is(x, 'Ok'):
                    return _agg(RESULT, 'Ok', some(_p0(x)))
                if _is(x, 'Err'):
                    return x
                return None
            if not good:      # Result<Option<T>, E> -> Option<Result<T, E>>
                return some(a0)
            if _is(x, 'Some'):
                return some(_agg(RESULT, 'Ok', _p0(x)))
            if _is(x, 'None'):
                return NONE
            return None
        return None

    # -- observed calls ------------------------------------------------------------------------------------------
    def events(self, act, out=None, seen=None, depth=0):
        """[(Call, [argument values], Act)] for the calls to watched functions that can run in this activation (and in
        the helpers / closures it runs) under the scenario"""
        out = [] if out is None else out
        seen = set() if seen is None else seen
        if id(act) in seen or depth > 6:
            return out
        seen.add(id(act))
        for c in act.fn.calls:
            if c.bb not in act.feasible:
                continue
            if not c.indirect and c.names() & self.watch:
                out.append((c, [act.operand(a) for a in c.args], act))
                continue
            self.stack.append(act.fn.path)
            try:
                act.call_value(c)
            finally:
                self.stack.pop()
            for sub in act.children.get(c.bb, ()):
                self.events(sub, out, seen, depth + 1)
        return out


# ---------------------------------------------------------------------------------------------------------------------
# R2 / R4: what the per-directory reader inserts for a file, per extension scenario
# ---------------------------------------------------------------------------------------------------------------------
NON_UTF8 = b'\xff\xfe'
UNKNOWN_EXT = 'zz-no-such-suffix'
_LIT = re.compile(r'^[A-Za-z0-9_.\-]{1,24}$')


def _string_literals(prog, sl, fns):
    out = []

    def ops(f):
        for b in f.blocks:
            for st in b['s']:
                if st[0] == '=':
                    rv = st[2]
                    for key in ('o', 'a', 'b'):
                        if isinstance(rv.get(key), dict):
                            yield rv[key]
                    for o in rv.get('ops', ()):
                        yield o
            t = b['t']
            if t['t'] in ('call', 'tailcall'):
                for a in t.get('args', ()):
                    yield a
    for f in fns:
        for o in ops(f):
            k = op_const(o)
            v = const_value(k) if k is not None else None
            vs = [v]
            if v is None and k is not None and 'item' in k and 'fn' not in k:
                # a named constant / promoted table: the string literals inside its value
                try:
                    vs = [x[1] for x in walk(sl._const(k)) if x[0] == 'const']
                except Exception:
                    vs = []
            for v in vs:
                if isinstance(v, str) and _LIT.match(v) and v not in out:
                    out.append(v)
    return out


def _reader_fns(prog, h):
    """the per-directory reader, its closures and the private workspace functions they call (not the delta insert)"""
    seen, work = {}, [h]
    while work:
        f = work.pop()
        if f.path in seen or len(seen) > 40:
            continue
        seen[f.path] = f
        work.extend(prog.closures_of(f))
        for c in f.calls:
            for g in prog.callee_fns(c):
                if g.crate == h.crate and g.path != L.INSERT and g.vis != 'pub':
                    work.append(g)
    return list(seen.values())


def run_scenario(prog, sl, h, ext):
    """ext: None (no extension) | str | bytes -> (events, interpreter)"""
    extv = NONE if ext is None else some(('const', ext))

    def oracle(names, args, site):
        if 'std::path::Path::extension' in names and len(args) == 1:
            return extv
        if 'std::path::Path::file_stem' in names and len(args) == 1:
            # files in an env directory have a name, hence a stem
            return some(('unwrap', ('call', 'std::path::Path::file_stem', tuple(args), site)))
        return None
    I = Interp(prog, sl, oracle, watch=(L.INSERT,))
    act = I.activation(h, tuple(('param', h.path, i, h.local_name(i + 1)) for i in range(h.argc)))
    return I.events(act), I


def reader_behaviour(prog, sl):
    """(reader fn, {'append': Variant, ..., None: Variant for 'no extension', '*': Variant|None for unknown},
        info{'odd': [...], 'undecided': {key}, 'inserts': [(Call, behaviour, name, value)], 'scenarios': n})"""
    L.resolve_roles(prog, sl)
    h = prog.fn(L.R_DIR)
    info = {'scenarios': 0, 'inserts': [], 'undecided': set()}
    table = {}
    lits = _string_literals(prog, sl, _reader_fns(prog, h))
    keys = [None] + [x[1:] for x in _SPEC_SUFFIXES] + [x for x in lits if '.' + x not in _SPEC_SUFFIXES] + [UNKNOWN_EXT, NON_UTF8]
    any_insert = False
    for ext in keys:
        info['scenarios'] += 1
        try:
            evs, _ = run_scenario(prog, sl, h, ext)
        except RecursionError:
            evs = None
        label = {UNKNOWN_EXT: '*', NON_UTF8: '*'}.get(ext, ext)
        if evs is None:
            info.setdefault('odd', []).append('%r: evaluation did not terminate' % (ext,))
            info['undecided'].add(label)
            continue
        behs = []
        for c, args, act in evs:
            any_insert = True
            if len(args) != 4:
                info.setdefault('odd', []).append('insert with %d arguments' % len(args))
                continue
            bv = strip(args[1])
            for b in (bv[1] if bv[0] == 'phi' else (bv,)):
                b = strip(b)
                if b[0] == 'agg' and b[1] == L.MB and b[2]:
                    behs.append(b[2])
                else:
                    behs.append(('?', show(b)[:80]))
            row = (c, bv, args[2], args[3])
            if not any(r[0] is c and canon(r[2]) == canon(row[2]) and canon(r[3]) == canon(row[3]) for r in info['inserts']):
                info['inserts'].append(row)
        uniq = []
        for b in behs:
            if b not in uniq:
                uniq.append(b)
        if len(uniq) > 1 or any(isinstance(b, tuple) for b in uniq):
            info.setdefault('odd', []).append('extension %r: behaviour not decided: %s' % (ext, uniq))
            info['undecided'].add(label)
            got = ('undecided', tuple(map(str, uniq)))
        else:
            got = uniq[0] if uniq else None
        if label == '*':
            if '*' in table and table['*'] != got:
                got = ('conflict', table['*'], got)
            table['*'] = got
        elif ext is None or ('.' + ext) in _SPEC_SUFFIXES or got is not None:
            # further literals of the reader only matter when a file with that extension is accepted
            table[ext] = got
    if not any_insert:
        info['error'] = 'no scenario reaches the delta insert'
    info['literals'] = lits
    return h, table, info


_SPEC_SUFFIXES = ('.append', '.default', '.delim', '.override', '.prepend')


# ---------------------------------------------------------------------------------------------------------------------
# R2 writer: the suffix as a *function of the entry's behaviour*, whatever computes it
# ---------------------------------------------------------------------------------------------------------------------
def eval_value(I, v, d=0):
    """evaluate a symbolic value with the scenario evaluator: std combinators / iterator searches over literal tables /
    comparisons on decided operands are computed (closures are run on their MIR), everything else is left symbolic"""
    if not isinstance(v, tuple) or not v or d > 40:
        return v
    k = v[0]
    ev = lambda x: eval_value(I, x, d + 1)
    if k == 'call':
        args = [ev(a) for a in v[2]]
        if any(a is BOTTOM for a in args):
            return BOTTOM
        site = v[3] if len(v) == 4 else None
        g = I.prog.fns.get(v[1])
        if g is not None and g.kind != 'Closure' and len(args) == g.argc:
            r = I.enter(g, args, site)        # a private helper computing the value is evaluated on its MIR
            if r is not None:
                return r
        return I.apply({v[1]}, v[1], args, site, None)
    if k == 'unwrap':
        x = ev(v[1])
        if x is BOTTOM or _is(x, 'None', 'Err'):
            return BOTTOM
        if _is(x, 'Some', 'Ok'):
            return _p0(x)
        return I.sl.mk_unwrap(x) if x != v[1] else v
    if k == 'field':
        b = ev(v[1])
        if b is BOTTOM:
            return BOTTOM
        if b[0] == 'phi':
            return _join([eval_value(I, ('field', x, v[2]), d + 1) for x in b[1]])
        return I.sl._field(b, v[2]) if isinstance(v[2], str) else ('field', b, v[2])
    if k in ('tuple', 'array'):
        return (k, tuple(ev(x) for x in v[1]))
    if k == 'agg':
        return ('agg', v[1], v[2], tuple((n, ev(x)) for n, x in v[3]))
    if k == 'closure':
        return ('closure', v[1], tuple(ev(x) for x in v[2]))
    if k == 'phi':
        return _join([ev(x) for x in v[1]])
    if k == 'select':
        s = ev(v[1])
        if s[0] == 'agg' and s[2] is not None:
            hit = [val for names, val in v[3] if s[2] in names]
            return ev(hit[0]) if len(hit) == 1 else BOTTOM
        return ('select', s, v[2], tuple((names, ev(val)) for names, val in v[3]))
    return v


def _replace(v, key, new):
    if not isinstance(v, tuple) or not v:
        return v
    if v[0] in ('field', 'unwrap') and canon(v) == key:
        return new
    return tuple(_replace(x, key, new) if isinstance(x, tuple) else x for x in v)


def behaviour_function(prog, sl, wd, x):
    """a value that depends on the behaviour of the *current entry* of self.entries (and on nothing else undecided) as a
    `select` over the enum: the value is evaluated once per variant with the behaviour replaced by that variant — a
    `match`, a lookup in a (behaviour, suffix) table with find / position / find_map, a chain of comparisons are then
    the same function.  None when x is not such a value (some variant evaluates to something that is not a literal)."""
    if x[0] == 'select' or x[0] == 'const':
        return None
    subjects = []
    for y in walk(x):
        if y[0] == 'field':
            coll, proj = L.loop_element(y)
            if coll is not None and L.self_field(wd, coll) == 'entries' and proj == ('0', '0') and not any(canon(y) == canon(o) for o in subjects):
                subjects.append(y)
    if len(subjects) != 1:
        return None
    subj = subjects[0]
    adt = prog.adt(L.MB)
    variants = [vr['name'] for vr in adt['variants'] if not vr.get('fields')]
    if len(variants) != len(adt['variants']):
        return None
    arms = []
    for V in variants:
        xv = _replace(x, canon(subj), ('agg', L.MB, V, ()))
        if any(L.loop_element(y)[0] is not None for y in walk(xv) if y[0] == 'field'):
            return None        # depends on something else of the entry
        try:
            r = eval_value(Interp(prog, sl), xv)
        except RecursionError:
            return None
        if r is BOTTOM:
            continue           # this behaviour cannot get a name (panics): no row for it
        # (string_parts hands over pieces with `unwrap` / `expect` / `?` peeled: an Option / Result here stands for its
        # success payload, a None / Err for a panic or early return — no file name for that behaviour)
        for _ in range(3):
            r = strip(r)
            if _is(r, 'Some', 'Ok'):
                r = _p0(r)
        if _is(r, 'None', 'Err'):
            continue
        if not (r[0] == 'const' and isinstance(r[1], str)):
            return None
        arms.append(((V,), r))
    if not arms:
        return None
    return ('select', subj, L.MB, tuple(arms))


def normal_name_parts(prog, sl, wd, parts):
    """pieces of a file name in normal form: behaviour-dependent pieces as `select`s (behaviour_function), and literal text
    directly before such a select folded into its arms (`name + "." + suffix(b)` = `name + dot_suffix(b)`)"""
    out = []
    for p in parts:
        p = strip(p) if isinstance(p, tuple) else p
        if isinstance(p, tuple) and p[0] not in ('select', 'const'):
            s = behaviour_function(prog, sl, wd, p)
            if s is not None:
                p = s
        if isinstance(p, tuple) and p[0] == 'select' and p[2] == L.MB and all(val[0] == 'const' and isinstance(val[1], str) for _, val in p[3]):
            # (only the separator: a piece "." before arms that carry no dot of their own; any other literal text stays a
            # piece of its own and is reported as such under R2/writer/file-name)
            if out and isinstance(out[-1], tuple) and out[-1] == ('const', '.') and all('.' not in val[1] and val[1] for _, val in p[3]):
                pre = out.pop()[1]
                p = ('select', p[1], p[2], tuple((names, ('const', pre + val[1])) for names, val in p[3]))
        out.append(p)
    return out


def writer_suffix_table_nf(prog, sl):
    """L.writer_suffix_table with the file-name pieces brought to normal form first (normal_name_parts); same result
    shape: (writer fn, {Variant: '.suffix'}, info)"""
    L.resolve_roles(prog, sl)
    f = prog.fn(L.W_DIR)
    rows = {}
    info = {'push_calls': 0, 'suffix_pushes': 0, 'name_parts': []}
    E = EffectsX(prog, sl)
    root = L.param_pred(f, 1)
    writes = [e for e in E.expand(f, 'may') if e.kind == 'WRITE' and e.path is not None]
    info['writes'] = len(writes)
    for e in writes:
        cs = L.comps(sl.inline_deep(e.path), root)
        if cs is None or len(cs) != 1:
            info.setdefault('odd', []).append('file path is not <dir>/<name>: ' + vstr(e.path)[:80])
            continue
        fname = cs[0]
        parts = L.string_parts(sl, fname) if not isinstance(fname, str) else [('const', fname)]
        parts = normal_name_parts(prog, sl, f, parts)
        rendered = []
        for x in parts:
            coll, proj = L.loop_element(x)
            if coll is not None and L.self_field(f, coll) == 'entries' and proj == ('0', '1'):
                rendered.append('NAME')
            elif x[0] == 'select' and x[2] == L.MB:
                c2, p2 = L.loop_element(x[1])
                if c2 is not None and L.self_field(f, c2) == 'entries' and p2 == ('0', '0'):
                    rendered.append('SUFFIX')
                    info['suffix_pushes'] += 1
                    for names, val in x[3]:
                        for n in names:
                            if val[0] == 'const' and n not in rows:
                                rows[n] = val[1]
                            else:
                                info.setdefault('odd', []).append((n, vstr(val)))
                else:
                    rendered.append('SUFFIX-OF-ANOTHER-ENTRY')
            else:
                rendered.append(vstr(x)[:50])
        if not info['name_parts']:
            info['name_parts'] = rendered
            info['push_call'] = e.call
        elif rendered != info['name_parts']:
            info.setdefault('odd', []).append('file names built differently: %s / %s' % (info['name_parts'], rendered))
    if info['suffix_pushes'] > 1 and len(writes) == info['suffix_pushes']:
        info['suffix_pushes'] = 1     # cfg-alternative write calls sharing one name construction
    return f, rows, info


# ---------------------------------------------------------------------------------------------------------------------
# writer side: a Vec that is *grown* before it is iterated (`let mut t = vec![a, b]; t.extend(xs.iter().map(f)); for x in t`)
# ---------------------------------------------------------------------------------------------------------------------
LOOPBODY = 'loopbody'     # (LOOPBODY, value computed by the body, element value of the loop): see GrowSlicer._loop_built


def is_loop_built(v):
    return (v[0] == 'call' and v[1] == iters.IT + 'collect' and len(v[2]) == 1 and v[2][0][0] == 'call' and v[2][0][1] == iters.IT + 'map'
            and len(v[2][0][2]) == 2 and v[2][0][2][1][0] == LOOPBODY)


class GrowSlicer(Slicer):
    """Slicer whose value of a `Vec` local includes what is appended to it through `&mut local` before it is read.

    lib/value.py describes a local by its whole definition (plus field updates / string pushes); `Vec::push` /
    `Extend::extend` through `&mut v` are not reflected, so a table built as `vec![..]` + `extend(..)` would be iterated
    as the literal alone and the appended rows silently dropped.  Here such a local is the iterator-algebra value
        chain(<initial value>, <extended iterator> | once(<pushed element>), ...)
    which lib/iters.alts decomposes row by row (Effects.expand then unrolls a loop over it exactly like a loop over a
    literal table or a once/chain/map pipeline).  The model is only used when it is exact for every reader of the local:
      * every growth call is executed exactly once (not inside a loop), the growth calls are totally ordered by dominance,
      * every other (non-drop) use of the local is dominated by all growth calls (so it sees the fully grown vector),
      * the `&mut` borrow handed to a growth call is used for nothing else, and the local is not mutably borrowed otherwise.
    Otherwise the local becomes the opaque ('call', 'vec-mutated', (initial,)) — never the initial literal alone."""

    GROW = {'std::iter::Extend::extend': 'iter', 'std::vec::Vec::<T, A>::push': 'one', 'std::vec::Vec::<T, A>::append': 'iter',
            'std::vec::Vec::<T, A>::extend_from_slice': 'iter'}
    FRESH = ('::new', '::with_capacity', '::default')

    def _mut_roots(self, fn):
        """{ref local: (vec local, (locals of the borrow chain))} for `r = &mut v`, `r2 = &mut *r`, `r3 = move r2`"""
        key = ('mutroots', fn.path)
        if key in self._cache:
            return self._cache[key]
        step = {}
        for b in fn.blocks:
            for st in b['s']:
                if st[0] != '=' or len(st[1]) != 1:
                    continue
                rv = st[2]
                if rv['r'] == 'ref' and rv.get('mut'):
                    p = rv['p']
                    if len(p) == 1:
                        step.setdefault(st[1][0], []).append(('direct', p[0]))
                    elif len(p) == 2 and p[1] == '*':
                        step.setdefault(st[1][0], []).append(('via', p[0]))
                    else:
                        step.setdefault(st[1][0], []).append(('other', None))
                elif rv['r'] == 'use':
                    sp = op_place(rv['o'])
                    if sp is not None and len(sp) == 1:
                        step.setdefault(st[1][0], []).append(('via', sp[0]))
        out = {}
        for l in step:
            chain, cur = [], l
            while cur is not None and len(chain) < 6:
                s = step.get(cur)
                if not s or len(s) != 1 or len(fn.whole_defs(cur)) != 1 or s[0][0] == 'other':
                    cur = None
                    break
                chain.append(cur)
                if s[0][0] == 'direct':
                    out[l] = (s[0][1], tuple(chain))
                    break
                cur = s[0][1]
        self._cache[key] = out
        return out

    def _growth(self, fn, local):
        """None (the local is never grown) | 'irregular' | [(Call, 'iter' | 'one')...] in execution order"""
        roots = self._mut_roots(fn)
        reach = fn.reachable(0)
        grow, chain_locals = [], set()
        for c in fn.calls:
            if c.indirect or c.bb not in reach or len(c.args) != 2:
                continue
            how = self.GROW.get(c.decl) or self.GROW.get(c.name)
            pl = op_place(c.args[0])
            if how is None or pl is None or len(pl) != 1 or pl[0] not in roots or roots[pl[0]][0] != local:
                continue
            grow.append((c, how))
            chain_locals |= set(roots[pl[0]][1])
        if not grow:
            # never grown — but a Vec that is borrowed mutably for anything else (truncate / pop / retain / clear / sort /
            # drain ... through `&mut v`) is not the value it was initialised with either
            if any(how in ('refmut', 'rawptr') for bi, kind, si, how, pl in fn.uses_of(local) if bi in reach and kind != 'drop'):
                return 'irregular'
            return None
        if len(fn.whole_defs(local)) != 1 or any(fn.in_loop(c.bb) for c, _ in grow):
            return 'irregular'
        dom = fn.dominators()
        grow.sort(key=lambda x: len(dom.get(x[0].bb, ())))
        for (a, _), (b, _) in zip(grow, grow[1:]):
            if a.bb == b.bb or not fn.dominates(a.bb, b.bb):
                return 'irregular'
        # each borrow of a growth call is used once (by the next borrow of the chain or by the call)
        for r in chain_locals:
            if len([u for u in fn.uses_of(r) if u[0] in reach and u[1] != 'drop']) != 1:
                return 'irregular'
        for bi, kind, si, how, pl in fn.uses_of(local):
            if bi not in reach or kind == 'drop':
                continue
            if how == 'refmut':
                dest = fn.blocks[bi]['s'][si][1] if kind == 'stmt' else None
                if not (dest and len(dest) == 1 and dest[0] in chain_locals):
                    return 'irregular'
                continue
            if not all(c.bb != bi and fn.dominates(c.bb, bi) for c, _ in grow):
                return 'irregular'
        return grow

    # ---- a Vec filled by one push per iteration of one loop (plan, then execute) ------------------------------------
    def _loops_struct(self, fn):
        """[(header, next Call, body, latches, exhaustion edge | None)] of the `Iterator::next` loops of fn (the CFG part of
        effects.find_loops, without evaluating the iterated expressions)"""
        key = ('loopstruct', fn.path)
        if key in self._cache:
            return self._cache[key]
        out = []
        preds = fn.preds()
        for c in fn.calls:
            if c.indirect or c.decl != 'std::iter::Iterator::next':
                continue
            h = c.bb
            from_h = fn.reachable(h)
            latches = [q for q in preds[h] if q in from_h]
            if not latches:
                continue
            body, work = {h}, list(latches)
            while work:
                b = work.pop()
                if b in body:
                    continue
                body.add(b)
                work.extend(q for q in preds[b] if q in from_h)
            exhaust = None
            tb = c.target
            if tb is not None and fn.blocks[tb]['t']['t'] == 'switch':
                t = fn.blocks[tb]['t']
                some_t = [b for x, b in t['targets'] if x == 1]
                outs = [b for x, b in t['targets'] if x != 1] + [t['else']]
                outs = [b for b in outs if b not in body and fn.blocks[b]['t']['t'] != 'unreachable']
                if some_t and some_t[0] in body and len(set(outs)) == 1:
                    exhaust = (tb, outs[0])
            out.append((h, c, body, latches, exhaust))
        self._cache[key] = out
        return out

    def _loop_built(self, fn, local, seen, d):
        """`let mut v = Vec::new(); for x in C { ..; v.push(f(x)); }` ... readers of v: v is C mapped through f —
        the iterator-algebra value  collect(map(C, <loop body: x -> f(x)>)),  which lib/iters.alts decomposes like any
        other pipeline (elements range over C, the element value is f(x)).  Only when this is exact:
          * v is created empty once (outside any cycle) and mutated by nothing but that single `push` (push_only),
          * the push lies in exactly one `Iterator::next` loop, on every path from its header to every latch
            (one push per element: no `continue` / condition around it), and that loop is entered at most once,
          * every other use of v is reached only over the loop's exhaustion edge (`next()` returned None) — a `break` /
            early exit that lets a reader see a partially filled vector disqualifies it.
        Otherwise None (the caller keeps the opaque `vec-mutated` value => the writes through it are not recognised)."""
        from .lib.guards import edge_dominates
        pc = push_only(self, fn, local)
        if not pc or len(pc) != 1:
            return None
        push = pc[0]
        defs = fn.whole_defs(local)
        if len(defs) != 1 or fn.in_loop(defs[0][1]):
            return None
        inside = [l for l in self._loops_struct(fn) if push.bb in l[2] and push.bb != l[0]]
        if len(inside) != 1:
            return None
        header, nxt, body, latches, exhaust = inside[0]
        if exhaust is None or not all(push.bb == l or fn.dominates(push.bb, l) for l in latches):
            return None
        if header in fn.reachable(exhaust[1]) or not fn.dominates(defs[0][1], header):
            return None
        roots = self._mut_roots(fn)
        chain_locals = set()
        pl = op_place(push.args[0])
        if pl is not None and len(pl) == 1 and pl[0] in roots:
            chain_locals = set(roots[pl[0]][1])
        reach = fn.reachable(0)
        for bi, kind, si, how, upl in fn.uses_of(local):
            if bi not in reach or kind == 'drop':
                continue
            if how == 'refmut':
                dest = fn.blocks[bi]['s'][si][1] if kind == 'stmt' else None
                if dest and len(dest) == 1 and dest[0] in chain_locals:
                    continue
                return None
            if bi in body or not edge_dominates(fn, exhaust[0], exhaust[1], bi):
                return None
        rp = op_place(nxt.args[0]) if nxt.args else None
        if rp is None:
            return None
        coll = self.place(fn, rp, seen, d)
        pushed = self.operand(fn, push.args[1], seen, d)
        if coll[0] == 'unknown' or any(x[0] == 'unknown' and len(x) > 1 and x[1] == 'cycle' for x in walk(pushed)):
            return None
        body_fn = (LOOPBODY, pushed, iters.elem_of(coll))
        return ('call', iters.IT + 'collect', (('call', iters.IT + 'map', (coll, body_fn), None),), None)

    def apply_closure(self, clv, args):
        if isinstance(clv, tuple) and clv and clv[0] == LOOPBODY:
            # the loop body as a function of the loop element
            if len(args) != 1:
                return None
            return subst(clv[1], {'__repl__': [(canon(clv[2]), args[0])]}, self)
        return super().apply_closure(clv, args)

    def _call_value(self, fn, call, seen, d):
        v = super()._call_value(fn, call, seen, d)
        # a private helper that only *builds* such a vector (plan), or collects one from an iterator pipeline, is
        # transparent: its caller iterates C mapped through f (lib/iters.alts sees the pipeline instead of an opaque call)
        if v[0] == 'call' and len(v) == 4 and not call.indirect and (call.dty or '').startswith('std::vec::Vec<'):
            gs = self.prog.callee_fns(call)
            if len(gs) == 1 and gs[0].kind != 'Closure' and gs[0].path != fn.path and gs[0].crate == fn.crate:
                g = gs[0]
                key = (g.path, 0)
                rv = self.local(g, 0, seen, d) if key not in (seen or ()) else None
                if rv is not None and (is_loop_built(rv) or (rv[0] == 'call' and rv[1] in iters.COLLECTING and len(rv[2]) == 1)):
                    m = {(g.path, i): a for i, a in enumerate(v[2]) if i < g.argc}
                    return subst(rv, m, self)
        return v

    def _with_updates(self, fn, local, v, seen, d):
        v = super()._with_updates(fn, local, v, seen, d)
        if not (fn.local_ty(local) or '').startswith('std::vec::Vec<'):
            return v
        g = self._growth(fn, local)
        if g is None:
            return v
        if g == 'irregular':
            lb = self._loop_built(fn, local, seen, d)
            if lb is not None:
                return lb
            return ('call', 'vec-mutated', (v,), None)
        fresh = v[0] == 'call' and not v[2] and v[1].startswith('std::vec::Vec') and v[1].endswith(self.FRESH)
        parts = [] if fresh else [v]
        for c, how in g:
            x = self.operand(fn, c.args[1], seen, d)
            parts.append(x if how == 'iter' else ('call', 'std::iter::once', (x,), None))
        out = parts[0]
        for p in parts[1:]:
            out = ('call', iters.IT + 'chain', (out, p), None)
        return out


# ---------------------------------------------------------------------------------------------------------------------
# R6: completeness of the iterations an effect runs in (every entry is written / every listed file is read)
# ---------------------------------------------------------------------------------------------------------------------
def _has_site(v, site):
    return any(x[0] == 'call' and len(x) == 4 and x[3] == site for x in walk(v))


def loop_early_success(E, lp):
    """success sites of the loop's function that can be reached from the loop header without taking the exhaustion
    edge (`next()` returned None): a `break` / `return Ok(..)` out of the body.  None if the loop's exit structure is
    not recognised.  (`?` inside the body leaves through an Err definition of the return place: not a success site.)"""
    fn = lp.fn
    ex = getattr(lp, 'exhaust', None)
    if ex is None:
        return None
    src, tgt = ex
    seen, work = set(), [lp.header]
    while work:
        b = work.pop()
        if b in seen:
            continue
        seen.add(b)
        for s in fn.succs(b):
            if b == src and s == tgt:
                continue
            work.append(s)
    return sorted(seen & {s.bb for s in E.sites(fn)})


def iteration_contexts(E, e):
    """the loops / iterator calls effect e runs in, outermost first, at every level of its call chain:
    [('loop', fn, Loop, call inside the body, mapping) | ('iter', fn, iterator Call taking the closure, same, mapping)]"""
    out = []
    levels = [(l.call, l.mapping) for l in e.chain] + [(e.call, e.mapping)]
    for call, m in levels:
        fn = call.fn
        inside = [lp for lp in E.loops(fn) if call.bb in lp.body and call.bb != lp.header]
        inside.sort(key=lambda lp: -len(lp.body))
        for lp in inside:
            out.append(('loop', fn, lp, call, m or {}))
        if call is not e.call and not call.indirect and (call.decl or '').startswith('std::iter::') and \
                any(a[0] == 'closure' for a in (E.slicer.operand(fn, x) for x in call.args)):
            out.append(('iter', fn, call, call, m or {}))
    return out


FILTER_POLICY = [None]    # 'file-type': per-element filters are acceptable only when they are file-type tests (reader side)


def _collection_verdict(E, coll, m, probs, unknown):
    """base collection (entry terms) an iterated expression ranges over, and whether elements are dropped on the way"""
    sl = E.slicer
    al = iters.alts(sl, coll)
    if len(al) != 1 or al[0][1] is None:
        unknown.append('iterated expression is not a single collection: %s' % vstr(coll)[:80])
        return None, None
    flag = al[0][2]
    if flag and flag != 'trunc' and FILTER_POLICY[0] == 'file-type':
        for x in unrecognised_filters(sl, coll):
            unknown.append('%s: its predicate is not recognised as a file-type test, listed files may be dropped' % x)
    if any(st[3] for st in iters.stages(coll, with_stop=True)):
        flag = 'trunc'
    return E.subst(al[0][1], m), flag


def context_verdict(E, ctx):
    """(base collection | None, flag: False | True (per-element filter) | 'trunc', problems, unknown) of one context"""
    kind, fn, obj, call, m = ctx
    sl = E.slicer
    probs, unknown = [], []
    if kind == 'loop':
        early = loop_early_success(E, obj)
        if early is None:
            unknown.append('exit structure of the loop at %s:bb%d is not recognised' % (fn.path.split('::')[-1], obj.header))
        elif early:
            probs.append('the loop can be left early (break / return) with the function still succeeding')
        base, flag = _collection_verdict(E, obj.collection, m, probs, unknown)
        return base, flag, probs, unknown
    c = obj
    d = c.decl
    if d in iters.CONSUME_EACH or d in (iters.IT + 'fold', iters.IT + 'try_fold'):
        if E._short_circuits(fn, c):
            probs.append('%s stops at the first failure and that failure can still end in success' % d.split('::')[-1])
        base, flag = _collection_verdict(E, sl.operand(fn, c.args[0]), m, probs, unknown)
        return base, flag, probs, unknown
    if d in iters.LAZY_WITH_CLOSURE:
        # a lazy stage: find what pulls it (a loop over / a consumer of an expression containing this call)
        site = (fn.path, c.bb)
        pullers = []
        for lp in E.loops(fn):
            if lp.collection is not None and _has_site(lp.collection, site):
                pullers.append(('loop', lp, lp.collection))
        for c2 in fn.calls:
            if c2.indirect or c2 is c or not (c2.decl in iters.CONSUME_EACH or c2.decl in iters.CONSUME_ALL):
                continue
            ridx = 1 if c2.decl == 'std::iter::Extend::extend' else 0
            if ridx < len(c2.args):
                rv = sl.operand(fn, c2.args[ridx])
                if _has_site(rv, site):
                    pullers.append(('consumer', c2, rv))
        # a puller of a puller (collect, then loop over the Vec) names the same stage twice: keep the innermost view
        if not pullers:
            unknown.append('the %s stage at %s is not consumed by a recognised loop / consumer' % (d.split('::')[-1], c.where()))
            return None, None, probs, unknown
        base = flag = None
        for pk, p, full in pullers:
            if pk == 'loop':
                early = loop_early_success(E, p)
                if early is None:
                    unknown.append('exit structure of the loop pulling the %s stage is not recognised' % d.split('::')[-1])
                elif early:
                    probs.append('the loop pulling the %s stage can be left early with the function still succeeding' % d.split('::')[-1])
            elif E._short_circuits(fn, p):
                probs.append('%s stops at the first failure and that failure can still end in success' % p.decl.split('::')[-1])
            mine = [st for st in iters.stages(full, with_stop=True) if st[1][0] == 'closure' and any(
                a[0] == 'closure' and a[1] == st[1][1] for a in (sl.operand(fn, x) for x in c.args))]
            if any(st[3] for st in mine) or d in iters.STOPS_EARLY:
                probs.append('a later stage (take / take_while / map_while / scan) stops pulling: not every element reaches the %s closure' % d.split('::')[-1])
            b2, f2 = _collection_verdict(E, sl.operand(fn, c.args[0]), m, probs, unknown)
            base, flag = b2, f2
        return base, flag, probs, unknown
    unknown.append('iterator call %s is not modelled' % d)
    return None, None, probs, unknown


def completeness(E, e, is_base, allow_filter=False):
    """does effect e run for every element of the collection recognised by is_base(value)?
    -> (found: a context ranges over that collection, problems, unknown)"""
    found, probs, unknown = False, [], []
    FILTER_POLICY[0] = allow_filter if allow_filter == 'file-type' else None
    for ctx in iteration_contexts(E, e):
        base, flag, p, u = context_verdict(E, ctx)
        probs.extend(p)
        unknown.extend(u)
        if base is not None and is_base(base):
            found = True
        if flag == 'trunc':
            probs.append('elements are dropped by position (take / skip / take_while / map_while / step_by)')
        elif flag and not allow_filter:
            probs.append('elements are filtered out before the effect')
    return found, probs, unknown


# ---- relayed iterations: the effect runs once per element of a Vec that another loop fills with one push per element ----
def _returned_local(E, fn):
    """the local whose value every success site of fn returns (`Ok(v)` / `v`, through plain moves), or None"""
    out = set()
    for st in E.sites(fn):
        if st.kind != 'ok':
            return None
        rv = st.stmt
        if rv['r'] == 'agg' and rv.get('kind') == 'adt' and rv.get('adt') in (RESULT, OPTION) and rv.get('variant') in ('Ok', 'Some') \
                and len(rv['ops']) == 1:
            pl = op_place(rv['ops'][0])
        elif rv['r'] == 'use':
            pl = op_place(rv['o'])
        else:
            return None
        for _ in range(6):
            if pl is None or len(pl) != 1:
                return None
            l = pl[0]
            if l <= fn.argc:
                return None
            ds = fn.whole_defs(l)
            if len(ds) == 1 and ds[0][0] == 'stmt' and ds[0][3]['r'] == 'use' and not fn.partial_defs(l) and \
                    not any(u[3] in ('refmut', 'rawptr') for u in fn.uses_of(l)):
                pl = op_place(ds[0][3]['o'])
                continue
            break
        else:
            return None
        out.add(pl[0])
    return out.pop() if len(out) == 1 else None


def _vec_mutated_elsewhere(fn, but=None):
    """Vec-typed locals of fn that are borrowed mutably (the plain slicer does not see what such a borrow does)"""
    bad = []
    for l in range(len(fn.locals)):
        if l == but or not (fn.local_ty(l) or '').startswith('std::vec::Vec<'):
            continue
        if any(u[3] in ('refmut', 'rawptr') for u in fn.uses_of(l)):
            bad.append(l)
    return bad


def relay_pushes(E, e, base, root_fn):
    """`base` (the collection an iteration context of effect e ranges over, in entry terms) is a Vec that is filled by
    pushes only — returned by a private workspace function, or a local created empty: -> ([PUSH effects of root_fn that
    fill it], [reasons why the relay is not exact]) or None when base is not such a Vec.  Needs PUSH in E.vocab."""
    sl, prog = E.slicer, E.prog
    b = strip(base)
    while b[0] == 'call' and len(b[2]) == 1 and iters._is_source(b[1]) and b[1].endswith(iters.SAME_ELEMS):
        b = strip(b[2][0])
    if b[0] != 'call' or len(b) != 4 or not b[3]:
        return None
    site = b[3]
    K = prog.fns.get(b[1])
    via_call = None
    if K is not None:
        if K.kind == 'Closure' or K.vis == 'pub' or K.crate != root_fn.crate:
            return None
        V = _returned_local(E, K)
        via_call = site
    else:
        if not (b[1].startswith('std::vec::Vec') and b[1].endswith(_FRESH_VEC) and not b[2]):
            return None
        K = prog.fns.get(site[0])
        cs = [c for c in K.calls if c.bb == site[1]] if K is not None else []
        V = cs[0].dest[0] if (len(cs) == 1 and cs[0].dest and len(cs[0].dest) == 1) else None
    if K is None or V is None:
        return None
    why = []
    pc = push_only(sl, K, V)
    if pc is None:
        return [], ['the vector %s of %s is mutated by something other than push' % (K.local_name(V) or V, K.path.split('::')[-1])]
    # the plain slicer does not follow `&mut`: no other vector may be mutated in place in the functions the vector passes through
    fns = {K.path: K}
    for c in [l.call for l in e.chain] + [e.call]:
        f = c.fn
        while f is not None:
            fns[f.path] = f
            f = prog.fns.get(f.parent) if f.kind == 'Closure' else None
    if via_call is not None and via_call[0] in prog.fns:
        fns[via_call[0]] = prog.fns[via_call[0]]
    for f in fns.values():
        bad = _vec_mutated_elsewhere(f, V if f is K else None)
        if bad:
            why.append('%s mutates a vector in place (%s)' % (f.path.split('::')[-1], ', '.join(str(f.local_name(l) or l) for l in bad)))
    roots = GrowSlicer._mut_roots(sl, K)
    out = []
    for pe in E.expand(root_fn, 'may'):
        if pe.kind != 'PUSH' or pe.call is None or pe.call.fn is not K or not any(pe.call is c for c in pc):
            continue
        if via_call is not None and not any((l.call.fn.path, l.call.bb) == via_call for l in pe.chain):
            continue
        if not any(x.call is pe.call and x.chain == pe.chain for x in out):
            out.append(pe)
    if {id(x.call) for x in out} != {id(c) for c in pc}:
        why.append('not every push into the vector is reached as an effect of %s' % root_fn.path.split('::')[-1])
    return out, why


def completeness_relay(E, e, is_base, root_fn, allow_filter=False, depth=0):
    """completeness(), where the collection may also be reached through a relay: the effect runs for every element of a
    Vec, and that Vec receives one push for every element of the recognised collection (two-phase code: collect, then
    process).  -> (found, problems, unknown, [relaying PUSH effects: the obligations on e's guards apply to them too])"""
    found, probs, unknown = completeness(E, e, is_base, allow_filter)
    relays = []
    if found or depth > 2:
        return found, probs, unknown, relays
    for ctx in iteration_contexts(E, e):
        base, flag, p, u = context_verdict(E, ctx)
        if base is None:
            continue
        r = relay_pushes(E, e, base, root_fn)
        if r is None:
            continue
        pushes, why = r
        unknown.extend(why)
        for pe in pushes:
            f2, p2, u2, r2 = completeness_relay(E, pe, is_base, root_fn, allow_filter, depth + 1)
            probs.extend(p2)
            if f2:
                found = True
                unknown.extend(u2)
                relays.append(pe)
                relays.extend(r2)
        if pushes and not found:
            unknown.append('no push into the relayed vector runs for every element of the collection')
    return found, probs, unknown, relays


def per_iteration(E, e, is_base):
    """in the loop contexts over the recognised collection: does the call leading to e lie on every path from the loop
    header back to it (dominates every latch)?  -> list of problems"""
    probs = []
    for kind, fn, obj, call, m in iteration_contexts(E, e):
        if kind != 'loop':
            continue
        base, _, _, _ = context_verdict(E, (kind, fn, obj, call, m))
        if base is None or not is_base(base):
            continue
        if not all(fn.dominates(call.bb, l) or call.bb == l for l in obj.latches):
            probs.append('an iteration can reach the next element without performing %s (continue / conditional)' % (call.name or '?').split('::')[-1])
    return probs


# ---- guards of the per-entry write --------------------------------------------------------------------------------
def _is_entries(wd, v):
    v = strip(v)
    while v[0] == 'call' and len(v[2]) == 1 and iters._is_source(v[1]) and v[1].endswith(iters.SAME_ELEMS):
        v = strip(v[2][0])
    return L.self_field(wd, v) == 'entries'


_SAME_COUNT = (iters.IT + 'map', iters.IT + 'enumerate', iters.IT + 'rev', iters.IT + 'cloned', iters.IT + 'copied', iters.IT + 'inspect',
               iters.IT + 'by_ref', iters.IT + 'fuse', iters.IT + 'peekable', 'std::iter::DoubleEndedIterator::rev')


def _count_core(v):
    """the collection a collected / mapped pipeline has as many elements as (`xs.iter().map(f).collect::<Vec<_>>()` and
    a Vec filled by one push per element of xs are empty iff xs is)"""
    v = strip(v)
    for _ in range(12):
        if v[0] == 'call' and v[2] and (v[1] in iters.COLLECTING or v[1] in _SAME_COUNT or
                                        (len(v[2]) == 1 and iters._is_source(v[1]) and v[1].endswith(iters.SAME_ELEMS))):
            v = strip(v[2][0])
        else:
            break
    return v


def _nonempty_test(wd, val, oc):
    """is (val == oc) the statement `self.entries is not empty`?"""
    val = strip(val)
    _is_ent = lambda x: _is_entries(wd, x) or _is_entries(wd, _count_core(x))
    if val[0] == 'call' and len(val[2]) == 1 and val[1].endswith('::is_empty') and _is_ent(val[2][0]):
        return oc is False
    if val[0] == 'bin' and len(val) == 4:
        a, b = strip(val[2]), strip(val[3])
        ln = lambda x: x[0] == 'call' and len(x[2]) == 1 and x[1].endswith('::len') and _is_ent(x[2][0])
        zero = lambda x: x[0] == 'const' and x[1] == 0 and not isinstance(x[1], bool)
        one = lambda x: x[0] == 'const' and x[1] == 1 and not isinstance(x[1], bool)
        op = val[1]
        if ln(a) and zero(b):
            return (op, oc) in (('Ne', True), ('Eq', False), ('Gt', True), ('Le', False))
        if zero(a) and ln(b):
            return (op, oc) in (('Ne', True), ('Eq', False), ('Lt', True), ('Ge', False))
        if ln(a) and one(b):
            return (op, oc) in (('Ge', True), ('Lt', False))
    return False


def loop_ran_out(E, cd, subj=None):
    """is the decision `next() returned None` the exhaustion edge of a loop that cannot be left in any other way with the
    function still succeeding (no break / early Ok)?  Code behind such a loop runs on every successful path through it:
    the decision is not a condition on anything (plan loop first, file-system work afterwards)."""
    if cd.kind != 'variant' or cd.enum != OPTION or cd.outcome != frozenset({'None'}):
        return False
    s = strip(subj if subj is not None else cd.subject) if (subj is not None or cd.subject is not None) else None
    if s is None or s[0] != 'call' or s[1] != iters.IT + 'next':
        return False
    for lp in E.loops(cd.fn):
        ex = getattr(lp, 'exhaust', None)
        if ex is not None and ex[0] == cd.sw_bb and ex[1] == cd.target:
            return loop_early_success(E, lp) == []
    return False


def opaque(v):
    """does the value depend on something the value model does not describe (a vector mutated in place in a way that is
    not an exact append / one push per loop element, an unknown rvalue)?  Obligations on such a value are undecided."""
    return any(isinstance(x, tuple) and x and ((x[0] == 'call' and x[1] == 'vec-mutated') or x[0] == 'unknown') for x in walk(v))


def write_guard_problems(E, e, wd, undecided=None):
    """guards of a per-entry file write that are not implied by `the entry exists`:
    -> (problems, set of ModificationBehavior variants the write is restricted to | None);
    boolean guards on opaque values go to `undecided` (when given) instead of the problems"""
    mutating = {n for n, (k, _) in E.vocab.items() if k in ('MKDIR', 'WRITE', 'REMOVE_TREE', 'REMOVE_DIR', 'REMOVE_FILE', 'OPEN')}
    probs, variants = [], None
    for cd, views, subj in guards_of(E, e):
        if cd.kind == 'variant':
            s = strip(subj) if subj is not None else None
            if cd.enum == CFLOW and cd.outcome == frozenset({'Continue'}):
                continue       # an earlier `?` succeeded
            if cd.enum == OPTION and cd.outcome == frozenset({'Some'}) and s is not None and s[0] == 'call' and s[1] == iters.IT + 'next':
                continue       # the iteration itself
            if loop_ran_out(E, cd, subj):
                continue       # an earlier loop (plan phase) ran to exhaustion
            if cd.enum == RESULT and cd.outcome == frozenset({'Ok'}) and s is not None and s[0] == 'call' and s[1] in mutating:
                continue       # an earlier fs mutation succeeded (explicit match instead of `?`)
            if cd.enum == L.MB:
                variants = set(cd.outcome) if variants is None else (variants & set(cd.outcome))
                continue
            probs.append(repr(cd))
            continue
        if cd.kind == 'bool':
            if any(_nonempty_test(wd, val, oc) for val, oc in views):
                continue
            if undecided is not None and any(opaque(val) for val, oc in views):
                undecided.append(repr(cd))
                continue
            probs.append(repr(cd))
            continue
        if cd.kind == 'int':
            v = strip(views[0][0])
            if v[0] == 'call' and len(v[2]) == 1 and v[1].endswith('::len') and (_is_entries(wd, v[2][0]) or _is_entries(wd, _count_core(v[2][0]))) \
                    and cd.outcome == ('not', (0,)):
                continue
            probs.append(repr(cd))
            continue
        probs.append(repr(cd))
    return probs, variants


# ---- guards of the reader's insert ------------------------------------------------------------------------------------
CONTENT_READS = FILE_READS + ('std::io::Read::read_to_end', 'std::io::Read::read_to_string', 'std::io::Read::read',
                              'std::io::Read::read_exact', 'std::io::BufRead::lines', 'std::io::BufRead::read_line')


def _mentions_content(v):
    return any(x[0] == 'call' and x[1] in CONTENT_READS for x in walk(v))


def content_guards(E, e):
    """guards of effect e whose decision depends on the *content* of a file (not on its name / type): whether a file of
    an env directory becomes an entry must not depend on its bytes.  The success test of the read itself (`?`, a match on
    its Result) is error handling, not a content test."""
    out = []
    for cd, views, subj in guards_of(E, e):
        if cd.kind == 'variant':
            s = subj
            if s is None or not _mentions_content(s):
                continue
            # Try::branch(read(..)) / read(..) itself / Ok-preserving wrappers of it
            t = strip(s)
            for _ in range(6):
                if t[0] == 'call' and t[2] and (t[1] == 'std::ops::Try::branch' or t[1] in OK_PRESERVING):
                    t = strip(t[2][0])
                else:
                    break
            if t[0] == 'call' and t[1] in CONTENT_READS:
                continue
            out.append(cd)
        elif any(_mentions_content(val) for val, _ in views):
            out.append(cd)
    return out


# ---- names -----------------------------------------------------------------------------------------------------------
NAME_CONVERSIONS = ('std::ffi::OsStr::to_str', 'std::ffi::OsStr::to_os_string', 'std::ffi::OsString::into_string',
                    'std::ffi::OsStr::to_string_lossy', 'std::borrow::Cow::<B>::into_owned', 'std::borrow::Cow::<\'_, B>::into_owned',
                    'std::ffi::OsStr::to_owned', 'std::ffi::OsString::as_os_str')


def peel_name(sl, v):
    """a name value with representation changes (OsStr <-> str <-> String) peeled"""
    v = strip(v)
    for _ in range(8):
        if v[0] == 'call' and len(v[2]) == 1 and (v[1] in NAME_CONVERSIONS or _name_transparent(v[1])):
            v = strip(v[2][0])
        else:
            break
    return v


def entry_elements(v):
    """the `Iterator::next(..)` element values a path / test value is derived from"""
    return {canon(x) for x in walk(v) if x[0] == 'call' and x[1] == iters.IT + 'next'}


# ---------------------------------------------------------------------------------------------------------------------
# R6: lazy stages that drop listed entries, and "every regular file with extension X reaches the insert"
# ---------------------------------------------------------------------------------------------------------------------
_DROPPING = {iters.IT + 'filter': 'filter', iters.IT + 'filter_map': 'filter_map', iters.IT + 'flat_map': 'flat_map',
             iters.IT + 'flatten': 'flatten', iters.IT + 'zip': 'zip'}


def unrecognised_filters(sl, coll):
    """per-element dropping stages of an iterated expression whose predicate is not a plain file-type test of the element
    (`filter(|p| !p.is_dir())` is the skip-directories rule in another spelling; anything else may drop env files)"""
    out = []
    v = coll
    for _ in range(16):
        if not isinstance(v, tuple) or not v:
            break
        if v[0] in ('unwrap', 'updated'):
            v = v[1]
            continue
        if v[0] != 'call' or not v[2]:
            break
        name, args = v[1], v[2]
        if name in _DROPPING:
            ok = False
            if name == iters.IT + 'filter' and len(args) == 2:
                al = iters.alts(sl, args[0])
                if len(al) == 1:
                    r = sl.apply_closure(args[1], (al[0][0],))
                    while r is not None and r[0] == 'un' and r[1] == 'Not':
                        r = r[2]
                    r = strip(r) if r is not None else None
                    ok = r is not None and r[0] == 'call' and r[1] in FILE_TESTS
            if not ok:
                out.append('%s stage on the listing' % _DROPPING[name])
            v = args[0]
        elif name in iters.SAME or name in iters.FEWER or name in iters.COLLECTING or name in (iters.IT + 'enumerate', iters.IT + 'map',
                                                                                           iters.IT + 'map_while', iters.IT + 'chain') \
                or iters._is_source(name):
            v = args[0]
        else:
            break
    return out


def _act_chain(root, target, seen=None):
    """[(Act, block of the call that runs the next activation)] from root down to (excluding) target, or None"""
    seen = set() if seen is None else seen
    if root is target:
        return []
    if id(root) in seen:
        return None
    seen.add(id(root))
    for bb, subs in list(root.children.items()):
        for s in subs:
            r = _act_chain(s, target, seen)
            if r is not None:
                return [(root, bb)] + r
    return None


def _skip_edges(act):
    """edges taken when a file-type test says `this entry is not a regular file` (directory): the legitimate way past
    the insert"""
    fn = act.fn
    out = set()
    for sb in act.feasible:
        t = fn.blocks[sb]['t']
        if t['t'] != 'switch' or t.get('oty') != 'bool':
            continue
        try:
            v = act.operand(t['o'])
        except RecursionError:
            continue
        neg = False
        while v[0] == 'un' and v[1] == 'Not':
            v, neg = v[2], not neg
        v = strip(v)
        if not (v[0] == 'call' and v[1] in FILE_TESTS):
            continue
        file_outcome = FILE_TESTS[v[1]] != neg      # value of the switch operand when the entry is a regular file
        listed = dict((val, tb) for val, tb in t['targets'])
        for val in (0, 1):
            tb = listed.get(val, t['else'])
            if bool(val) != file_outcome:
                out.add((sb, tb))
    return out


def _bypass(E, act, targets, is_listing, relayed=None):
    """can control pass from the start of an iteration (listing loop header, or the entry of a closure / helper) to its
    end (latch / success return) over scenario-feasible blocks without running one of the target blocks and without taking
    a file-type skip edge?  -> 'yes' | 'no' | 'nested' (targets sit in an inner loop that is not the listing loop)"""
    fn = act.fn
    feas = act.feasible
    loops = [lp for lp in E.loops(fn) if any(b in lp.body and b != lp.header for b in targets)]
    listing = []
    for lp in loops:
        al = iters.alts(E.slicer, lp.collection) if lp.collection is not None else []
        if len(al) == 1 and al[0][1] is not None and is_listing(al[0][1]):
            listing.append(lp)
            continue
        # the iterated expression as this activation sees it (arguments of the helper substituted): the listing itself,
        # or a Vec that a listing loop fills by pushes only (the producing activation is then checked as well)
        try:
            av = act.operand(lp.next_call.args[0]) if lp.next_call.args else None
        except RecursionError:
            av = None
        if av is None:
            continue
        pv = peel_pushed(act.I.prog, av)
        if pv is not None:
            if relayed is not None and pv[2] in act.I.pushed:
                relayed.append(pv[2])
                listing.append(lp)
            continue
        while av[0] == 'mutated' and not (act.I.prog.fns[av[2][0]].local_ty(av[2][1]) or '').startswith('std::vec::Vec<'):
            av = av[1]
        if not any(isinstance(x, tuple) and x and x[0] in ('mutated', 'pushed', 'unknown', 'bottom', 'dead') for x in walk(av)):
            try:
                al = iters.alts(E.slicer, av)
            except Exception:
                al = []
            if len(al) == 1 and al[0][1] is not None and is_listing(al[0][1]):
                listing.append(lp)
    if loops and not listing:
        return 'nested'
    if listing:
        lp = max(listing, key=lambda x: len(x.body))
        if any(x is not lp and len(x.body) < len(lp.body) for x in loops):
            return 'nested'
        start, ends, region = lp.header, set(lp.latches), lp.body
    else:
        start, ends, region = 0, {s.bb for s in E.sites(fn)}, None
    skip = _skip_edges(act)
    seen, work = set(), [start]
    while work:
        b = work.pop()
        if b in seen or b not in feas or (region is not None and b not in region):
            continue
        seen.add(b)
        if b in targets:
            continue
        if b in ends and b != start:
            return 'yes'
        for s in fn.succs(b):
            if (b, s) not in skip:
                work.append(s)
    return 'no'


def must_insert(prog, sl, E, h, ext, is_listing):
    """under `Path::extension(..) == ext`: does every listed entry that is not a directory reach the delta insert?
    -> (problems, unknown)"""
    try:
        evs, I = run_scenario(prog, sl, h, ext)
        root = I.activation(h, tuple(('param', h.path, i, h.local_name(i + 1)) for i in range(h.argc)))
    except RecursionError:
        return [], ['evaluation did not terminate']
    if not evs:
        return [], ['no insert reached']
    per_act = {}
    unknown, probs = [], []
    for c, args, act in evs:
        chain = _act_chain(root, act)
        if chain is None:
            unknown.append('the activation containing the insert at %s is not reached from the reader' % c.where())
            continue
        for a, bb in chain + [(act, c.bb)]:
            per_act.setdefault(id(a), (a, set()))[1].add(bb)
    work = list(per_act.values())
    done = set()
    while work:
        a, bbs = work.pop()
        relayed = []
        try:
            r = _bypass(E, a, bbs, is_listing, relayed)
        except RecursionError:
            r = 'nested'
        for key in relayed:
            # two-phase reader: the insert runs per element of a Vec; every listed entry that is not a directory must
            # also reach one of the pushes that fill that Vec (in the activation that builds it)
            if key in done:
                continue
            done.add(key)
            pa, pcs = I.pushed[key]
            chain = _act_chain(root, pa)
            if chain is None or not pcs:
                unknown.append('the activation that fills the vector iterated in %s is not reached from the reader' % a.fn.path.split('::')[-1])
                continue
            extra = {}
            for a2, bb in chain:
                extra.setdefault(id(a2), (a2, set()))[1].add(bb)
            extra.setdefault(id(pa), (pa, set()))[1].update(c.bb for c in pcs)
            work.extend(extra.values())
        if r == 'yes':
            probs.append('in %s a listed entry that is not a directory can be passed over without reaching the insert' % a.fn.path.split('::')[-1])
        elif r == 'nested':
            unknown.append('the insert sits in an inner loop of %s' % a.fn.path.split('::')[-1])
    return probs, unknown
